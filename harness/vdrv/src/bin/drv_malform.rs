//! C05 driver: untrusted input never makes a reader panic, abort or hang.
//!
//!   drv_malform seeds --out <seeds.ndjson>
//!       valid encodings produced with the real library (files, bare data sets, file meta
//!       groups, PDUs, DICOM JSON, pixel data objects, text forms) + their FIELD layout
//!       (a minimal walk over the bytes just encoded: transport, not an oracle)
//!   drv_malform run --seeds S --cases C --out trace.ndjson --details D --work DIR
//!           [--mem-mib 256] [--hang-cpu 10] [--id-offset N]
//!       fork server: loads seeds and cases, forks a worker child (memory limit via setrlimit,
//!       8 MiB stack) which materialises each case - the splice edits of Malform!Apply on the
//!       seed bytes - and feeds it to EVERY applicable entry point under `catch`, publishing
//!       (case, entry point) in shared memory before each execution.  A child that dies is
//!       outcome "abort" for that (case, entry point), one that burns CPU without progress is
//!       killed: outcome "hang"; a new child resumes right after it.  Writes the ndjson trace
//!       for specs/malform/Trace_Malform.tla and the details (messages, panic locations).
//!   drv_malform one  --seeds S --cases C --id N [--ep substr] [--trace]   one case in-process
//!   drv_malform show --seeds S --cases C --id N [--write file]            materialised input
//!
//! A case is what TLC printed from Gen_Malform.tla:
//!   {seed, muts:[{m,f,p,v}..], edits:[{at,del,ins,rep,rnd}..], bytes?}
//! The driver never decides what a mutation means: it only applies the splice edits
//! (checked against the bytes TLC materialised itself whenever TLC printed them).

use dicom_core::dictionary::{DataDictionary, DataDictionaryEntry};
use dicom_core::value::{DataSetSequence, PixelFragmentSequence, PrimitiveValue, Value as DValue};
use dicom_core::{DataElement, Tag, VR};
use dicom_dictionary_std::{tags, uids, StandardDataDictionary};
use dicom_encoding::TransferSyntaxIndex;
use dicom_object::collector::DicomCollectorOptions;
use dicom_object::file::{OddLengthStrategy, ReadPreamble};
use dicom_object::meta::{FileMetaTable, FileMetaTableBuilder};
use dicom_object::{FileDicomObject, InMemDicomObject, OpenFileOptions};
use dicom_parser::dataset::lazy_read::LazyDataSetReader;
use dicom_parser::dataset::read::{DataSetReader, DataSetReaderOptions, ValueReadStrategy};
use dicom_pixeldata::{PixelDecoder, Transcode};
use dicom_transfer_syntax_registry::TransferSyntaxRegistry;
use dicom_ul::pdu::*;
use serde_json::{json, Value};
use std::cell::RefCell;
use std::io::{BufReader, Cursor, Read, Write};
use std::str::FromStr;
use vcommon::*;

type Obj = FileDicomObject<InMemDicomObject>;

// ====================================================================== field layout

#[derive(Clone, Debug)]
struct Field {
    k: &'static str,
    o: usize,
    w: usize,
    be: bool,
    /// declared value of a length-like / small integer field (-1: not applicable or >= 2^31)
    v: i64,
    /// note: VR code of a value field, tag of a tag field, delimiter kind, ...
    n: String,
}

fn fields_json(fs: &[Field]) -> Value {
    Value::Array(
        fs.iter()
            .map(|f| json!({"k": f.k, "o": f.o, "w": f.w, "be": f.be, "v": f.v, "n": f.n}))
            .collect(),
    )
}

struct Walk<'a> {
    b: &'a [u8],
    explicit: bool,
    be: bool,
    rle: bool,
    jpeg: bool,
    out: Vec<Field>,
}

const UNDEF: u32 = 0xFFFF_FFFF;

impl<'a> Walk<'a> {
    fn u16(&self, p: usize) -> u16 {
        let x = [self.b[p], self.b[p + 1]];
        if self.be {
            u16::from_be_bytes(x)
        } else {
            u16::from_le_bytes(x)
        }
    }
    fn u32(&self, p: usize) -> u32 {
        let x = [self.b[p], self.b[p + 1], self.b[p + 2], self.b[p + 3]];
        if self.be {
            u32::from_be_bytes(x)
        } else {
            u32::from_le_bytes(x)
        }
    }
    fn push(&mut self, k: &'static str, o: usize, w: usize, v: i64, n: impl Into<String>) {
        self.out.push(Field { k, o, w, be: self.be, v, n: n.into() });
    }
    fn lenv(l: u32) -> i64 {
        if l >= 0x7FFF_FFFF {
            -1
        } else {
            l as i64
        }
    }
    /// elements in [pos, end); inside an undefined-length item stop after the item delimiter
    fn elements(&mut self, mut pos: usize, end: usize, undef_item: bool) -> usize {
        while pos + 8 <= end {
            let (g, e) = (self.u16(pos), self.u16(pos + 2));
            if (g, e) == (0xFFFE, 0xE00D) && undef_item {
                self.push("delim", pos, 8, -1, "item_delim");
                return pos + 8;
            }
            let start = pos;
            let tagname = format!("{g:04X}{e:04X}");
            self.push("tag", pos, 4, -1, tagname.clone());
            pos += 4;
            let vr: String;
            let len: u32;
            if self.explicit {
                vr = String::from_utf8_lossy(&self.b[pos..pos + 2]).to_string();
                self.push("vr", pos, 2, -1, vr.clone());
                pos += 2;
                let long = matches!(vr.as_str(), "OB" | "OD" | "OF" | "OL" | "OV" | "OW" | "SQ" | "SV" | "UC" | "UN" | "UR" | "UT" | "UV");
                if long {
                    self.push("res", pos, 2, -1, "");
                    pos += 2;
                    len = self.u32(pos);
                    self.push("len32", pos, 4, Self::lenv(len), "");
                    pos += 4;
                } else {
                    len = self.u16(pos) as u32;
                    self.push("len16", pos, 2, len as i64, "");
                    pos += 2;
                }
            } else {
                vr = StandardDataDictionary
                    .by_tag(Tag(g, e))
                    .map(|en| en.vr().relaxed().to_string().to_string())
                    .unwrap_or_else(|| "UN".to_string());
                len = self.u32(pos);
                self.push("len32", pos, 4, Self::lenv(len), "");
                pos += 4;
            }
            if len == UNDEF {
                if (g, e) == (0x7FE0, 0x0010) {
                    pos = self.fragments(pos, end);
                } else {
                    pos = self.items(pos, end);
                }
            } else if vr == "SQ" {
                let e2 = (pos + len as usize).min(end);
                self.items(pos, e2);
                pos = e2;
            } else {
                let l = (len as usize).min(end - pos);
                if l > 0 {
                    let v = if vr == "US" && l == 2 { self.u16(pos) as i64 } else { -1 };
                    self.push("value", pos, l, v, vr.clone());
                }
                pos += l;
            }
            self.push("elem", start, pos - start, -1, tagname);
        }
        pos
    }
    fn items(&mut self, mut pos: usize, end: usize) -> usize {
        while pos + 8 <= end {
            let (g, e) = (self.u16(pos), self.u16(pos + 2));
            if (g, e) == (0xFFFE, 0xE0DD) {
                self.push("delim", pos, 8, -1, "seq_delim");
                return pos + 8;
            }
            let start = pos;
            self.push("item_tag", pos, 4, -1, "");
            let len = self.u32(pos + 4);
            self.push("len32", pos + 4, 4, Self::lenv(len), "item");
            pos += 8;
            if len == UNDEF {
                pos = self.elements(pos, end, true);
            } else {
                let e2 = (pos + len as usize).min(end);
                self.elements(pos, e2, false);
                pos = e2;
            }
            self.push("item", start, pos - start, -1, "");
        }
        pos
    }
    fn fragments(&mut self, mut pos: usize, end: usize) -> usize {
        let mut idx = 0;
        while pos + 8 <= end {
            let (g, e) = (self.u16(pos), self.u16(pos + 2));
            if (g, e) == (0xFFFE, 0xE0DD) {
                self.push("delim", pos, 8, -1, "seq_delim");
                return pos + 8;
            }
            let start = pos;
            self.push("item_tag", pos, 4, -1, "");
            let len = self.u32(pos + 4) as usize;
            self.push("len32", pos + 4, 4, len as i64, "frag");
            pos += 8;
            let e2 = (pos + len).min(end);
            if idx == 0 {
                let mut p = pos;
                while p + 4 <= e2 {
                    let v = self.u32(p);
                    self.push("bot", p, 4, Self::lenv(v), "");
                    p += 4;
                }
            } else if self.rle && len >= 64 {
                let v = self.u32(pos);
                self.push("rle_count", pos, 4, Self::lenv(v), "");
                for k in 0..15 {
                    let v = self.u32(pos + 4 + 4 * k);
                    self.push("rle_off", pos + 4 + 4 * k, 4, Self::lenv(v), "");
                }
                self.push("value", pos + 64, e2 - pos - 64, -1, "rle_body");
            } else if self.jpeg {
                self.jpeg_segments(pos, e2);
            } else if e2 > pos {
                self.push("value", pos, e2 - pos, -1, "frag");
            }
            pos = e2;
            self.push("item", start, pos - start, -1, "frag");
            idx += 1;
        }
        pos
    }
    /// JPEG marker segments (FFxx + 16-bit BE length), the entropy-coded data is one opaque field
    fn jpeg_segments(&mut self, mut pos: usize, end: usize) {
        let be = self.be;
        self.be = true;
        while pos + 2 <= end {
            if self.b[pos] != 0xFF {
                break;
            }
            let m = self.b[pos + 1];
            self.push("jpg_marker", pos, 2, m as i64, "");
            pos += 2;
            if m == 0xD8 || m == 0xD9 || (0xD0..=0xD7).contains(&m) {
                continue;
            }
            if pos + 2 > end {
                break;
            }
            let l = self.u16(pos) as usize;
            self.push("len16", pos, 2, l as i64, "jpg");
            let body = pos + 2;
            let e2 = (pos + l).min(end);
            if m == 0xC0 || m == 0xC1 || m == 0xC2 || m == 0xC3 {
                // SOF: precision, height, width, components
                if body + 6 <= e2 {
                    self.push("byte", body, 1, self.b[body] as i64, "sof_precision");
                    self.push("be16", body + 1, 2, self.u16(body + 1) as i64, "sof_height");
                    self.push("be16", body + 3, 2, self.u16(body + 3) as i64, "sof_width");
                    self.push("byte", body + 5, 1, self.b[body + 5] as i64, "sof_ncomp");
                    if e2 > body + 6 {
                        self.push("value", body + 6, e2 - body - 6, -1, "jpg");
                    }
                }
            } else if e2 > body {
                self.push("value", body, e2 - body, -1, "jpg");
            }
            pos = e2;
            if m == 0xDA {
                // entropy-coded segment up to EOI
                let mut q = pos;
                while q + 1 < end && !(self.b[q] == 0xFF && self.b[q + 1] == 0xD9) {
                    q += 1;
                }
                if q > pos {
                    self.push("value", pos, q - pos, -1, "jpg_scan");
                }
                pos = q;
            }
        }
        if pos < end {
            self.push("value", pos, end - pos, -1, "jpg_tail");
        }
        self.be = be;
    }
}

fn sort_fields(mut fs: Vec<Field>) -> Vec<Field> {
    // by offset; enclosing pseudo-fields (elem/item) before what they contain
    fs.sort_by(|a, b| a.o.cmp(&b.o).then(b.w.cmp(&a.w)));
    fs
}

/// layout of a data set encoded in `ts` ("ivrle" | "evrle" | "evrbe") at b[start..]
fn walk_dataset(b: &[u8], start: usize, ts: &str, rle: bool, jpeg: bool) -> Vec<Field> {
    let mut w = Walk { b, explicit: ts != "ivrle", be: ts == "evrbe", rle, jpeg, out: Vec::new() };
    w.elements(start, b.len(), false);
    w.out
}

/// layout of preamble + magic + file meta group (Explicit VR LE), returns (fields, data set offset)
fn walk_file_head(b: &[u8], has_preamble: bool) -> (Vec<Field>, usize) {
    let mut out = Vec::new();
    let mut pos = 0;
    if has_preamble {
        out.push(Field { k: "preamble", o: 0, w: 128, be: false, v: -1, n: String::new() });
        pos = 128;
    }
    out.push(Field { k: "magic", o: pos, w: 4, be: false, v: -1, n: String::new() });
    pos += 4;
    // group length element tells where the meta group ends
    let gl = u32::from_le_bytes([b[pos + 8], b[pos + 9], b[pos + 10], b[pos + 11]]) as usize;
    let end = pos + 12 + gl;
    let mut w = Walk { b: &b[..end], explicit: true, be: false, rle: false, jpeg: false, out: Vec::new() };
    w.elements(pos, end, false);
    // the value of the group length element is itself a length-like field
    for f in w.out.iter_mut() {
        if f.k == "value" && f.o == pos + 8 && f.w == 4 {
            f.k = "len32";
            f.v = gl as i64;
            f.n = "group_length".into();
        }
    }
    out.extend(w.out);
    (out, end)
}

fn walk_pdu(b: &[u8]) -> Vec<Field> {
    let mut out: Vec<Field> = Vec::new();
    let mut push = |k: &'static str, o: usize, w: usize, v: i64, n: &str| {
        out.push(Field { k, o, w, be: true, v, n: n.to_string() });
    };
    let u16at = |p: usize| u16::from_be_bytes([b[p], b[p + 1]]) as usize;
    let u32at = |p: usize| u32::from_be_bytes([b[p], b[p + 1], b[p + 2], b[p + 3]]) as usize;
    // the whole PDU as a structure (its length field is pdu_len)
    push("pitem", 0, b.len(), -1, "pdu");
    push("pdu_type", 0, 1, b[0] as i64, "");
    push("res", 1, 1, -1, "");
    push("pdu_len", 2, 4, u32at(2) as i64, "");
    match b[0] {
        1 | 2 => {
            push("be16", 6, 2, u16at(6) as i64, "protocol_version");
            push("res", 8, 2, -1, "");
            push("text", 10, 16, -1, "called_ae");
            push("text", 26, 16, -1, "calling_ae");
            push("res", 42, 32, -1, "");
            let mut p = 74;
            while p + 4 <= b.len() {
                let t = b[p];
                let l = u16at(p + 2);
                let start = p;
                push("item_type", p, 1, t as i64, "");
                push("res", p + 1, 1, -1, "");
                push("len16", p + 2, 2, l as i64, "pdu_item");
                p += 4;
                let end = (p + l).min(b.len());
                match t {
                    0x20 | 0x21 => {
                        push("byte", p, 1, b[p] as i64, "ctx_id");
                        push("res", p + 1, 1, -1, "");
                        push("byte", p + 2, 1, b[p + 2] as i64, "result");
                        push("res", p + 3, 1, -1, "");
                        let mut q = p + 4;
                        while q + 4 <= end {
                            let l2 = u16at(q + 2);
                            push("item_type", q, 1, b[q] as i64, "sub");
                            push("res", q + 1, 1, -1, "");
                            push("len16", q + 2, 2, l2 as i64, "pdu_subitem");
                            let e2 = (q + 4 + l2).min(end);
                            if e2 > q + 4 {
                                push("text", q + 4, e2 - q - 4, -1, "uid");
                            }
                            push("pitem", q, e2 - q, -1, "sub");
                            q = e2;
                        }
                    }
                    0x50 => {
                        let mut q = p;
                        while q + 4 <= end {
                            let t2 = b[q];
                            let l2 = u16at(q + 2);
                            push("item_type", q, 1, t2 as i64, "user");
                            push("res", q + 1, 1, -1, "");
                            push("len16", q + 2, 2, l2 as i64, "pdu_subitem");
                            let c = q + 4;
                            let e2 = (c + l2).min(end);
                            match t2 {
                                0x51 => push("value", c, e2 - c, -1, "max_length"),
                                0x53 => push("value", c, e2 - c, -1, "async_ops"),
                                0x54 | 0x56 => {
                                    let ul = u16at(c);
                                    push("len16", c, 2, ul as i64, "uid_len");
                                    let ue = (c + 2 + ul).min(e2);
                                    push("text", c + 2, ue - c - 2, -1, "uid");
                                    if e2 > ue {
                                        push("value", ue, e2 - ue, -1, "ext");
                                    }
                                }
                                0x58 => {
                                    push("byte", c, 1, b[c] as i64, "identity_type");
                                    push("byte", c + 1, 1, b[c + 1] as i64, "response_requested");
                                    let l1 = u16at(c + 2);
                                    push("len16", c + 2, 2, l1 as i64, "primary_len");
                                    push("value", c + 4, l1, -1, "primary");
                                    let s = c + 4 + l1;
                                    let l3 = u16at(s);
                                    push("len16", s, 2, l3 as i64, "secondary_len");
                                    if l3 > 0 {
                                        push("value", s + 2, l3, -1, "secondary");
                                    }
                                }
                                _ => {
                                    if e2 > c {
                                        push("text", c, e2 - c, -1, "uid")
                                    }
                                }
                            }
                            push("pitem", q, e2 - q, -1, "user");
                            q = e2;
                        }
                    }
                    _ => {
                        if end > p {
                            push("text", p, end - p, -1, "uid");
                        }
                    }
                }
                push("pitem", start, end - start, -1, "top");
                p = end;
            }
        }
        3 | 7 => {
            push("res", 6, 1, -1, "");
            push("byte", 7, 1, b[7] as i64, "result");
            push("byte", 8, 1, b[8] as i64, "source");
            push("byte", 9, 1, b[9] as i64, "reason");
        }
        4 => {
            let mut p = 6;
            while p + 6 <= b.len() {
                let l = u32at(p);
                push("pdv_len", p, 4, l as i64, "");
                push("byte", p + 4, 1, b[p + 4] as i64, "ctx_id");
                push("byte", p + 5, 1, b[p + 5] as i64, "pdv_hdr");
                let e = (p + 4 + l).min(b.len());
                if e > p + 6 {
                    push("value", p + 6, e - p - 6, -1, "pdv");
                }
                push("pitem", p, e - p, -1, "pdv");
                p = e;
            }
        }
        _ => {
            push("res", 6, b.len() - 6, -1, "");
        }
    }
    out
}

fn walk_json(b: &[u8]) -> Vec<Field> {
    let mut out: Vec<Field> = Vec::new();
    let mut p = 0;
    let mut last_key = String::new();
    let mut f = |k: &'static str, o: usize, w: usize, n: &str| out.push(Field { k, o, w, be: false, v: -1, n: n.to_string() });
    while p < b.len() {
        let c = b[p];
        match c {
            b' ' | b'\n' | b'\t' | b'\r' => p += 1,
            b'{' | b'}' | b'[' | b']' | b':' | b',' => {
                f("punct", p, 1, std::str::from_utf8(&b[p..p + 1]).unwrap());
                p += 1;
            }
            b'"' => {
                let mut q = p + 1;
                while q < b.len() && b[q] != b'"' {
                    if b[q] == b'\\' {
                        q += 1;
                    }
                    q += 1;
                }
                let end = (q + 1).min(b.len());
                let mut r = end;
                while r < b.len() && b[r] == b' ' {
                    r += 1;
                }
                let text = String::from_utf8_lossy(&b[p + 1..q.min(b.len())]).to_string();
                if r < b.len() && b[r] == b':' {
                    f("key", p, end - p, &text);
                    last_key = text;
                } else if last_key == "vr" && q == p + 3 {
                    f("vr", p + 1, 2, &text);
                    last_key.clear();
                } else {
                    f("str", p, end - p, "");
                }
                p = end;
            }
            b'-' | b'0'..=b'9' => {
                let mut q = p + 1;
                while q < b.len() && matches!(b[q], b'0'..=b'9' | b'.' | b'e' | b'E' | b'+' | b'-') {
                    q += 1;
                }
                f("num", p, q - p, "");
                p = q;
            }
            _ => {
                let mut q = p + 1;
                while q < b.len() && b[q].is_ascii_alphabetic() {
                    q += 1;
                }
                f("lit", p, q - p, "");
                p = q;
            }
        }
    }
    out
}

fn walk_text(s: &str) -> Vec<Field> {
    s.char_indices()
        .map(|(i, c)| Field { k: "ch", o: i, w: c.len_utf8(), be: false, v: -1, n: String::new() })
        .collect()
}

// ====================================================================== seeds

#[allow(deprecated)]
fn ts_uid(ts: &str) -> &'static str {
    match ts {
        "ivrle" => uids::IMPLICIT_VR_LITTLE_ENDIAN,
        "evrle" => uids::EXPLICIT_VR_LITTLE_ENDIAN,
        "evrbe" => uids::EXPLICIT_VR_BIG_ENDIAN,
        "deflated" => uids::DEFLATED_EXPLICIT_VR_LITTLE_ENDIAN,
        "rle" => uids::RLE_LOSSLESS,
        "encuncomp" => uids::ENCAPSULATED_UNCOMPRESSED_EXPLICIT_VR_LITTLE_ENDIAN,
        "deflframe" => "1.2.840.10008.1.2.8.1",
        "jpeg" => uids::JPEG_BASELINE8_BIT,
        _ => panic!("ts {ts}"),
    }
}

fn code_item(v: &str, m: &str) -> InMemDicomObject {
    InMemDicomObject::from_element_iter([
        DataElement::new(tags::CODE_VALUE, VR::SH, v),
        DataElement::new(tags::CODING_SCHEME_DESIGNATOR, VR::SH, "DCM"),
        DataElement::new(tags::CODE_MEANING, VR::LO, m),
    ])
}

/// a small object with most VR families and nested sequences
fn small_obj(rich: bool) -> InMemDicomObject {
    let mut o = InMemDicomObject::from_element_iter([
        DataElement::new(tags::SPECIFIC_CHARACTER_SET, VR::CS, "ISO_IR 100"),
        DataElement::new(tags::SOP_CLASS_UID, VR::UI, uids::SECONDARY_CAPTURE_IMAGE_STORAGE),
        DataElement::new(tags::SOP_INSTANCE_UID, VR::UI, "1.2.3.4.5.6.7"),
        DataElement::new(tags::STUDY_DATE, VR::DA, "20230115"),
        DataElement::new(tags::STUDY_TIME, VR::TM, "101530.5"),
        DataElement::new(tags::PATIENT_NAME, VR::PN, "Doe^John"),
        DataElement::new(tags::PATIENT_ID, VR::LO, "ID1"),
        DataElement::new(tags::ROWS, VR::US, PrimitiveValue::from(2u16)),
    ]);
    let inner = InMemDicomObject::from_element_iter([DataElement::new(
        tags::CONCEPT_NAME_CODE_SEQUENCE,
        VR::SQ,
        DataSetSequence::from(vec![code_item("C2", "in")]),
    )]);
    o.put(DataElement::new(
        tags::PROCEDURE_CODE_SEQUENCE,
        VR::SQ,
        DataSetSequence::from(vec![code_item("C1", "meaning"), inner, InMemDicomObject::new_empty()]),
    ));
    if rich {
        o.put(DataElement::new(tags::ACQUISITION_DATE_TIME, VR::DT, "20230115101530.123456+0100"));
        o.put(DataElement::new(tags::PATIENT_AGE, VR::AS, "042Y"));
        o.put(DataElement::new(tags::PATIENT_SIZE, VR::DS, "1.75"));
        o.put(DataElement::new(tags::INSTANCE_NUMBER, VR::IS, "7"));
        o.put(DataElement::new(tags::FRAME_INCREMENT_POINTER, VR::AT, PrimitiveValue::Tags([Tag(0x0018, 0x1063)].as_ref().into())));
        o.put(DataElement::new(Tag(0x0070, 0x0253), VR::FL, PrimitiveValue::from(1.5f32)));
        o.put(DataElement::new(Tag(0x0018, 0x9087), VR::FD, PrimitiveValue::from(2.5f64)));
        o.put(DataElement::new(Tag(0x0008, 0x1161), VR::UL, PrimitiveValue::from(7u32)));
        o.put(DataElement::new(Tag(0x0018, 0x6020), VR::SL, PrimitiveValue::from(-7i32)));
        o.put(DataElement::new(Tag(0x0028, 0x0106), VR::SS, PrimitiveValue::from(-2i16)));
        o.put(DataElement::new(Tag(0x0042, 0x0011), VR::OB, PrimitiveValue::from(vec![1u8, 2, 3])));
        o.put(DataElement::new(Tag(0x0028, 0x1201), VR::OW, PrimitiveValue::U16([1u16, 2, 3].as_ref().into())));
        o.put(DataElement::new(Tag(0x0040, 0xA160), VR::UT, "some text"));
        o.put(DataElement::new(Tag(0x0008, 0x0120), VR::UR, "http://x.y/z"));
        o.put(DataElement::new(Tag(0x0009, 0x0010), VR::LO, "PRIVATE CREATOR"));
        o.put(DataElement::new(Tag(0x0009, 0x1001), VR::UN, PrimitiveValue::from(vec![1u8, 2, 3, 4])));
    }
    o
}

fn with_meta(o: InMemDicomObject, ts: &str) -> Obj {
    o.with_meta(
        FileMetaTableBuilder::new()
            .transfer_syntax(ts_uid(ts))
            .media_storage_sop_class_uid(uids::SECONDARY_CAPTURE_IMAGE_STORAGE)
            .media_storage_sop_instance_uid("1.2.3.4.5.6.7"),
    )
    .expect("meta")
}

fn file_bytes(o: &Obj) -> Vec<u8> {
    let mut out = Vec::new();
    o.write_all(&mut out).expect("write_all");
    out
}

fn ds_bytes(o: &InMemDicomObject, ts: &str) -> Vec<u8> {
    let t = TransferSyntaxRegistry.get(ts_uid(ts)).expect("ts");
    let mut out = Vec::new();
    o.write_dataset_with_ts(&mut out, t).expect("write_dataset");
    out
}

/// a data set with DEFINED-length sequence and items: the element/item content is encoded by
/// the library, only the three headers are assembled here (checked to read back below)
fn deflen_dataset(ts: &str) -> Vec<u8> {
    let be = ts == "evrbe";
    let put16 = |v: &mut Vec<u8>, x: u16| v.extend_from_slice(&if be { x.to_be_bytes() } else { x.to_le_bytes() });
    let put32 = |v: &mut Vec<u8>, x: u32| v.extend_from_slice(&if be { x.to_be_bytes() } else { x.to_le_bytes() });
    let head = InMemDicomObject::from_element_iter([
        DataElement::new(tags::SOP_INSTANCE_UID, VR::UI, "1.2.3"),
        DataElement::new(tags::PATIENT_ID, VR::LO, "ID1"),
    ]);
    let tail = InMemDicomObject::from_element_iter([DataElement::new(tags::ROWS, VR::US, PrimitiveValue::from(2u16))]);
    let items = [ds_bytes(&code_item("C1", "meaning"), ts), ds_bytes(&code_item("C2", "m2"), ts), Vec::new()];
    let mut sq = Vec::new();
    for it in &items {
        put16(&mut sq, 0xFFFE);
        put16(&mut sq, 0xE000);
        put32(&mut sq, it.len() as u32);
        sq.extend_from_slice(it);
    }
    let mut out = ds_bytes(&head, ts);
    // (0008,1032) Procedure Code Sequence sorts before (0010,0020)? no: keep order by writing head = UID only
    out.clear();
    out.extend(ds_bytes(&InMemDicomObject::from_element_iter([DataElement::new(tags::SOP_INSTANCE_UID, VR::UI, "1.2.3")]), ts));
    put16(&mut out, 0x0008);
    put16(&mut out, 0x1032);
    if ts != "ivrle" {
        out.extend_from_slice(b"SQ");
        out.extend_from_slice(&[0, 0]);
    }
    put32(&mut out, sq.len() as u32);
    out.extend(sq);
    out.extend(ds_bytes(&InMemDicomObject::from_element_iter([DataElement::new(tags::PATIENT_ID, VR::LO, "ID1")]), ts));
    out.extend(ds_bytes(&tail, ts));
    let _ = head;
    out
}

// ---- image seeds

fn img_base(rows: u16, cols: u16, spp: u16, bits: u16, frames: u32) -> InMemDicomObject {
    let mut o = InMemDicomObject::new_empty();
    o.put(DataElement::new(tags::SOP_CLASS_UID, VR::UI, uids::SECONDARY_CAPTURE_IMAGE_STORAGE));
    o.put(DataElement::new(tags::SOP_INSTANCE_UID, VR::UI, "1.2.3.4.5.6.7"));
    o.put(DataElement::new(tags::SAMPLES_PER_PIXEL, VR::US, PrimitiveValue::from(spp)));
    o.put(DataElement::new(tags::PHOTOMETRIC_INTERPRETATION, VR::CS, if spp == 3 { "RGB" } else { "MONOCHROME2" }));
    if spp == 3 {
        o.put(DataElement::new(tags::PLANAR_CONFIGURATION, VR::US, PrimitiveValue::from(0u16)));
    }
    o.put(DataElement::new(tags::NUMBER_OF_FRAMES, VR::IS, frames.to_string()));
    o.put(DataElement::new(tags::ROWS, VR::US, PrimitiveValue::from(rows)));
    o.put(DataElement::new(tags::COLUMNS, VR::US, PrimitiveValue::from(cols)));
    o.put(DataElement::new(tags::BITS_ALLOCATED, VR::US, PrimitiveValue::from(bits)));
    o.put(DataElement::new(tags::BITS_STORED, VR::US, PrimitiveValue::from(bits)));
    o.put(DataElement::new(tags::HIGH_BIT, VR::US, PrimitiveValue::from(bits - 1)));
    o.put(DataElement::new(tags::PIXEL_REPRESENTATION, VR::US, PrimitiveValue::from(0u16)));
    o
}

fn native_img(rows: u16, cols: u16, spp: u16, bits: u16, frames: u32) -> Obj {
    let nbits = rows as usize * cols as usize * spp as usize * bits as usize * frames as usize;
    let mut n = nbits.div_ceil(8);
    if n % 2 == 1 {
        n += 1;
    }
    let px: Vec<u8> = (0..n).map(|i| (i * 37 % 251) as u8).collect();
    let mut o = img_base(rows, cols, spp, bits, frames);
    o.put(DataElement::new(tags::PIXEL_DATA, if bits > 8 { VR::OW } else { VR::OB }, PrimitiveValue::from(px)));
    with_meta(o, "evrle")
}

/// RLE frame with literal runs only (dicom-rs has no RLE encoder; validity is checked by decoding the seed)
fn rle_frame(rows: u16, cols: u16, spp: u16, bits: u16, k: u32) -> Vec<u8> {
    let bps = (bits / 8) as usize;
    let npix = rows as usize * cols as usize;
    let mut body = Vec::new();
    let mut offs = Vec::new();
    for s in 0..spp as usize {
        for b in (0..bps).rev() {
            offs.push(64 + body.len() as u32);
            let plane: Vec<u8> = (0..npix).map(|p| ((p * 3 + s * 5 + b * 7 + k as usize) % 200) as u8).collect();
            for ch in plane.chunks(128) {
                body.push((ch.len() - 1) as u8);
                body.extend_from_slice(ch);
            }
            if body.len() % 2 == 1 {
                body.push(0);
            }
        }
    }
    let mut f = Vec::new();
    f.extend_from_slice(&(offs.len() as u32).to_le_bytes());
    for i in 0..15 {
        f.extend_from_slice(&offs.get(i).copied().unwrap_or(0).to_le_bytes());
    }
    f.extend(body);
    f
}

fn rle_img(rows: u16, cols: u16, spp: u16, bits: u16, frames: u32) -> Obj {
    let frags: Vec<Vec<u8>> = (0..frames).map(|k| rle_frame(rows, cols, spp, bits, k)).collect();
    let mut bot = Vec::new();
    let mut off = 0u32;
    for f in &frags {
        bot.push(off);
        off += f.len() as u32 + 8;
    }
    let mut o = img_base(rows, cols, spp, bits, frames);
    let v: DValue<InMemDicomObject, Vec<u8>> = PixelFragmentSequence::new(bot, frags).into();
    o.put(DataElement::new(tags::PIXEL_DATA, VR::OB, v));
    with_meta(o, "rle")
}

fn transcoded(mut o: Obj, ts: &str) -> Obj {
    let t = TransferSyntaxRegistry.get(ts_uid(ts)).expect("ts");
    o.transcode(t).unwrap_or_else(|e| panic!("transcode to {ts}: {e}"));
    o
}

// ---- PDU seeds

fn make_pdu(shape: &str) -> Pdu {
    match shape {
        "rq" => Pdu::AssociationRQ(AssociationRQ {
            protocol_version: 1,
            calling_ae_title: "CALLING".into(),
            called_ae_title: "CALLED".into(),
            application_context_name: "1.2.840.10008.3.1.1.1".into(),
            presentation_contexts: vec![
                PresentationContextProposed {
                    id: 1,
                    abstract_syntax: uids::VERIFICATION.into(),
                    transfer_syntaxes: vec![uids::IMPLICIT_VR_LITTLE_ENDIAN.into(), uids::EXPLICIT_VR_LITTLE_ENDIAN.into()],
                },
                PresentationContextProposed {
                    id: 3,
                    abstract_syntax: uids::CT_IMAGE_STORAGE.into(),
                    transfer_syntaxes: vec![uids::EXPLICIT_VR_LITTLE_ENDIAN.into()],
                },
            ],
            user_variables: vec![
                UserVariableItem::MaxLength(16384),
                UserVariableItem::ImplementationClassUID("1.2.3".into()),
                UserVariableItem::ImplementationVersionName("V1".into()),
                UserVariableItem::SopClassExtendedNegotiationSubItem(uids::CT_IMAGE_STORAGE.into(), vec![1, 0, 1]),
                UserVariableItem::ScuScpRoleSelectionSubItem(uids::CT_IMAGE_STORAGE.into(), RequestorRoles { scu: true, scp: false }),
                UserVariableItem::UserIdentityItem(UserIdentity::new(true, UserIdentityType::UsernamePassword, b"user".to_vec(), b"pw".to_vec())),
            ],
        }),
        "ac" => Pdu::AssociationAC(AssociationAC {
            protocol_version: 1,
            calling_ae_title: "CALLING".into(),
            called_ae_title: "CALLED".into(),
            application_context_name: "1.2.840.10008.3.1.1.1".into(),
            presentation_contexts: vec![
                PresentationContextResult {
                    id: 1,
                    reason: PresentationContextResultReason::Acceptance,
                    transfer_syntax: uids::IMPLICIT_VR_LITTLE_ENDIAN.into(),
                },
                PresentationContextResult {
                    id: 3,
                    reason: PresentationContextResultReason::AbstractSyntaxNotSupported,
                    transfer_syntax: uids::IMPLICIT_VR_LITTLE_ENDIAN.into(),
                },
            ],
            user_variables: vec![
                UserVariableItem::MaxLength(16384),
                UserVariableItem::ImplementationClassUID("1.2.3".into()),
                UserVariableItem::ScuScpRoleSelectionSubItem(uids::CT_IMAGE_STORAGE.into(), RequestorRoles { scu: true, scp: true }),
            ],
        }),
        "rj" => Pdu::AssociationRJ(AssociationRJ {
            result: AssociationRJResult::Permanent,
            source: AssociationRJSource::ServiceUser(AssociationRJServiceUserReason::CalledAETitleNotRecognized),
        }),
        "pdata" => Pdu::PData {
            data: vec![
                PDataValue { presentation_context_id: 1, value_type: PDataValueType::Command, is_last: true, data: (0..12u8).collect() },
                PDataValue { presentation_context_id: 1, value_type: PDataValueType::Data, is_last: false, data: (0..20u8).collect() },
            ],
        },
        "relrq" => Pdu::ReleaseRQ,
        "relrp" => Pdu::ReleaseRP,
        "abort" => Pdu::AbortRQ { source: AbortRQSource::ServiceProvider(AbortRQServiceProviderReason::UnexpectedPdu) },
        _ => panic!("pdu shape {shape}"),
    }
}

const TEXT_SEEDS: &[(&str, &str)] = &[
    ("t_empty", ""),
    ("t_tag_paren", "(0010,0010)"),
    ("t_tag_hex", "7FE00010"),
    ("t_tag_comma", "0010,0020"),
    ("t_kw", "PatientName"),
    ("t_sel_idx", "0040A168[0].CodeValue"),
    ("t_sel_paren", "(0040,A730)[1].ContentSequence"),
    ("t_sel_kw", "SequenceOfUltrasoundRegions.RegionSpatialFormat"),
    ("t_date", "20230115"),
    ("t_date_ym", "202301"),
    ("t_date_y", "2023"),
    ("t_time", "101530.123456"),
    ("t_time_hm", "1015"),
    ("t_time_leap", "235960.5"),
    ("t_dt", "20230115101530.123456+0100"),
    ("t_dt_short", "2023-0500"),
    ("t_dt_min", "202301151015"),
    ("t_range_date", "20200101-20201231"),
    ("t_range_date_open", "-20201231"),
    ("t_range_time", "1015-123059.5"),
    ("t_range_dt", "20230115101530+0100-20230116101530.5+0100"),
    ("t_range_dt_open", "2023011510-"),
];

fn seed_line(name: &str, kind: &str, ts: &str, bytes: &[u8], fields: Vec<Field>, tier: &str) -> Value {
    let fields = sort_fields(fields);
    for f in &fields {
        assert!(f.o + f.w <= bytes.len(), "seed {name}: field {f:?} beyond {}", bytes.len());
    }
    json!({"name": name, "kind": kind, "ts": ts, "tier": tier, "n": bytes.len(), "bytes": bytes_json(bytes), "fields": fields_json(&fields)})
}

fn gen_seeds(out: &str) {
    let mut w = NdjsonWriter::create(out);
    // files with preamble + meta in the three plain syntaxes
    for (ts, tier) in [("evrle", "full"), ("ivrle", "full"), ("evrbe", "core")] {
        let b = file_bytes(&with_meta(small_obj(ts == "evrle"), ts));
        let (mut fs, off) = walk_file_head(&b, true);
        fs.extend(walk_dataset(&b, off, ts, false, false));
        w.emit(&seed_line(&format!("f_small_{ts}"), "file", ts, &b, fs, tier));
    }
    // deflated file: the compressed stream is one opaque field
    {
        let b = file_bytes(&with_meta(small_obj(false), "deflated"));
        let (mut fs, off) = walk_file_head(&b, true);
        fs.push(Field { k: "value", o: off, w: b.len() - off, be: false, v: -1, n: "deflate_stream".into() });
        w.emit(&seed_line("f_deflated", "file", "deflated", &b, fs, "core"));
    }
    // pixel data objects
    let imgs: Vec<(&str, Obj, &str, bool, bool)> = vec![
        ("f_native1", native_img(3, 3, 1, 1, 2), "evrle", false, false),
        ("f_native8", native_img(2, 3, 1, 8, 2), "evrle", false, false),
        ("f_native8rgb", native_img(2, 2, 3, 8, 1), "evrle", false, false),
        ("f_native16", native_img(2, 2, 1, 16, 1), "evrle", false, false),
        ("f_rle8", rle_img(2, 3, 1, 8, 2), "evrle", true, false),
        ("f_rle16rgb", rle_img(2, 2, 3, 16, 1), "evrle", true, false),
        ("f_encuncomp", transcoded(native_img(3, 3, 1, 8, 2), "encuncomp"), "evrle", false, false),
        ("f_deflframe", transcoded(native_img(2, 3, 1, 8, 2), "deflframe"), "evrle", false, false),
        ("f_jpeg", transcoded(native_img(8, 8, 1, 8, 1), "jpeg"), "evrle", false, true),
    ];
    for (name, o, ts, rle, jpeg) in imgs {
        let b = file_bytes(&o);
        let (mut fs, off) = walk_file_head(&b, true);
        fs.extend(walk_dataset(&b, off, ts, rle, jpeg));
        w.emit(&seed_line(name, "file", ts, &b, fs, "pixel"));
    }
    // bare data sets
    for ts in ["ivrle", "evrle", "evrbe"] {
        let b = ds_bytes(&small_obj(false), ts);
        w.emit(&seed_line(&format!("d_small_{ts}"), "dataset", ts, &b, walk_dataset(&b, 0, ts, false, false), "full"));
        let b = deflen_dataset(ts);
        w.emit(&seed_line(&format!("d_deflen_{ts}"), "dataset", ts, &b, walk_dataset(&b, 0, ts, false, false), "full"));
    }
    // file meta group alone (from the magic code)
    {
        let b = file_bytes(&with_meta(small_obj(false), "evrle"));
        let (fs, off) = walk_file_head(&b[128..], false);
        w.emit(&seed_line("m_meta", "meta", "evrle", &b[128..128 + off], fs, "full"));
    }
    // PDUs
    for shape in ["rq", "ac", "rj", "pdata", "relrq", "relrp", "abort"] {
        let mut b = Vec::new();
        write_pdu(&mut b, &make_pdu(shape)).expect("write_pdu");
        let fs = walk_pdu(&b);
        w.emit(&seed_line(&format!("p_{shape}"), "pdu", "", &b, fs, "full"));
    }
    // DICOM JSON
    {
        let mut o = small_obj(true);
        o.remove_element(tags::SPECIFIC_CHARACTER_SET);
        let s = dicom_json::to_string(&o).expect("json");
        w.emit(&seed_line("j_small", "json", "", s.as_bytes(), walk_json(s.as_bytes()), "full"));
        let s = r#"{"00080018":{"vr":"UI","Value":["1.2.3"]},"00081032":{"vr":"SQ","Value":[{"00080100":{"vr":"SH","Value":["C1"]}},{}]},"00420011":{"vr":"OB","InlineBinary":"AQID"},"7FE00010":{"vr":"OW","BulkDataURI":"http://x/y"},"00101010":{"vr":"AS"},"00200013":{"vr":"IS","Value":[7,null,"8"]},"00100010":{"vr":"PN","Value":[{"Alphabetic":"Doe^John"}]}}"#;
        w.emit(&seed_line("j_hand", "json", "", s.as_bytes(), walk_json(s.as_bytes()), "full"));
    }
    // text forms
    for (name, s) in TEXT_SEEDS {
        w.emit(&seed_line(name, "text", "", s.as_bytes(), walk_text(s), "full"));
    }
    let n = w.finish();
    let mut rep = Report::new();
    rep.cases = n;
    rep.print();
}

// ====================================================================== materialisation

/// Malform!Apply: replace `del` bytes at `at` by `rep` copies of `ins` followed by `rnd` seeded bytes
fn apply(b: &mut Vec<u8>, e: &Value, rng: &mut Rng) {
    let at = j_usize(&e["at"]).min(b.len());
    let del = j_usize(&e["del"]).min(b.len() - at);
    let ins = j_bytes(&e["ins"]);
    let rep = j_usize(&e["rep"]);
    let rnd = j_usize(&e["rnd"]);
    let mut new = Vec::with_capacity(ins.len() * rep + rnd);
    for _ in 0..rep {
        new.extend_from_slice(&ins);
    }
    new.extend(rng.bytes(rnd));
    b.splice(at..at + del, new);
}

/// Malform!ApplyAll: edits refer to offsets of the seed; the one with the larger offset first
fn materialise(seed: &[u8], edits: &[Value], id: u64, vseed: u64) -> Vec<u8> {
    let mut b = seed.to_vec();
    let mut rng = Rng::new(vseed ^ id.wrapping_mul(0x9E37_79B9));
    let mut order: Vec<usize> = (0..edits.len()).collect();
    // stable: for equal offsets the earlier edit is applied first (as in ApplyAll)
    order.sort_by(|&x, &y| j_usize(&edits[y]["at"]).cmp(&j_usize(&edits[x]["at"])));
    for i in order {
        apply(&mut b, &edits[i], &mut rng);
    }
    b
}

// ====================================================================== entry points

thread_local! {
    static PANIC_LOC: RefCell<String> = const { RefCell::new(String::new()) };
}

fn install_hook() {
    std::panic::set_hook(Box::new(|info| {
        let loc = info.location().map(|l| format!("{}:{}", l.file(), l.line())).unwrap_or_default();
        PANIC_LOC.with(|p| *p.borrow_mut() = loc);
    }));
}

/// outcome of one entry point: Ok(true)=returned a value, Ok(false)=returned an error
type Out = Result<bool, String>;

fn ok<T, E>(r: Result<T, E>) -> bool {
    r.is_ok()
}

const PLAIN: [&str; 3] = ["ivrle", "evrle", "evrbe"];

fn ep_names(kind: &str) -> Vec<String> {
    let mut v: Vec<String> = Vec::new();
    match kind {
        "file" => {
            for s in [
                "open_file",
                "open_file[until_pixel]",
                "from_reader[auto]",
                "from_reader[always]",
                "from_reader[never]",
                "from_reader[until_pixel,nexteven]",
                "from_reader[fail_odd]",
                "FileMetaTable::from_reader",
                "DicomCollector[auto]",
                "DicomCollector[never,fragments]",
                "decode_pixel_data",
                "decode_pixel_data_frame",
                "dump_file_to[text]",
                "dump_file_to[json]",
            ] {
                v.push(s.to_string());
            }
        }
        "dataset" => {
            for ts in PLAIN {
                for m in ["interpreted,accept", "preserved,nexteven", "raw,fail", "flexible"] {
                    v.push(format!("DataSetReader[{ts},{m}]"));
                }
                v.push(format!("LazyDataSetReader[{ts}]"));
                v.push(format!("read_dataset_with_ts[{ts}]"));
                v.push(format!("DicomCollector[{ts}]"));
                v.push(format!("dump_object_to[{ts}]"));
            }
            v.push("read_dataset_with_ts[deflated,raw]".into());
            v.push("read_dataset_with_ts[deflated,wrapped]".into());
        }
        "meta" => {
            v.push("FileMetaTable::from_reader".into());
            v.push("from_reader[never]".into());
        }
        "pdu" => {
            v.push("read_pdu[strict]".into());
            v.push("read_pdu[lenient]".into());
            v.push("read_pdu[lenient,maxmax]".into());
        }
        "json" => {
            v.push("dicom_json::from_str[object]".into());
            v.push("dicom_json::from_slice[object]".into());
            v.push("dicom_json::from_value[object]".into());
            v.push("dump_object_to[json]".into());
        }
        "text" => {
            for s in [
                "Tag::from_str",
                "parse_tag",
                "parse_selector",
                "parse_date",
                "parse_date_partial",
                "parse_time",
                "parse_time_partial",
                "parse_datetime_partial",
                "DicomDate::from_str",
                "DicomTime::from_str",
                "DicomDateTime::from_str",
                "parse_date_range",
                "parse_time_range",
                "parse_datetime_range",
                "parse_datetime_range_custom[known_tz]",
                "parse_datetime_range_custom[fail_ambiguous]",
                "parse_datetime_range_custom[ignore_tz]",
            ] {
                v.push(s.to_string());
            }
        }
        // machinery self-test: one entry point per outcome the harness must be able to observe
        "selftest" => {
            for s in ["selftest[ok]", "selftest[err]", "selftest[panic]", "selftest[alloc]", "selftest[stack]", "selftest[spin]"] {
                v.push(s.to_string());
            }
        }
        _ => panic!("kind {kind}"),
    }
    v
}

#[inline(never)]
fn deep(n: u64, prev: &[u8; 256]) -> u64 {
    // every level keeps a buffer alive across the recursive call: no tail call, real stack growth
    let mut pad = [0u8; 256];
    pad[(n % 256) as usize] = prev[((n + 1) % 256) as usize].wrapping_add(1);
    let p = std::hint::black_box(&pad);
    if n == 0 {
        return p[0] as u64;
    }
    let r = deep(n - 1, p);
    r.wrapping_add(std::hint::black_box(pad[(r % 256) as usize]) as u64)
}

/// the reading entry point whose result a composite entry point works on
fn prerequisite(kind: &str, name: &str) -> Option<String> {
    match kind {
        "file" if name.starts_with("decode_pixel_data") || name.starts_with("dump_file_to") => Some("from_reader[auto]".to_string()),
        "dataset" if name.starts_with("dump_object_to[") => Some(name.replace("dump_object_to[", "read_dataset_with_ts[")),
        "json" if name.starts_with("dump_object_to") => Some("dicom_json::from_str[object]".to_string()),
        _ => None,
    }
}

fn sink_dump_file(o: &Obj, fmt: dicom_dump::DumpFormat) -> bool {
    let mut opt = dicom_dump::DumpOptions::new();
    opt.format(fmt.clone()).color_mode(dicom_dump::ColorMode::Never);
    let a = opt.dump_file_to(std::io::sink(), o).is_ok();
    let mut opt2 = dicom_dump::DumpOptions::new();
    opt2.format(fmt).color_mode(dicom_dump::ColorMode::Always).no_limit(true).width(40);
    let b = opt2.dump_file_to(std::io::sink(), o).is_ok();
    a && b
}

fn sink_dump_obj(o: &InMemDicomObject) -> bool {
    let a = dicom_dump::dump_object_to(std::io::sink(), o).is_ok();
    let mut opt = dicom_dump::DumpOptions::new();
    opt.no_text_limit(true).width(20).color_mode(dicom_dump::ColorMode::Never);
    let b = opt.dump_object_to(std::io::sink(), o).is_ok();
    let mut opt = dicom_dump::DumpOptions::new();
    opt.format(dicom_dump::DumpFormat::Json);
    let c = opt.dump_object_to(std::io::sink(), o).is_ok();
    a && b && c
}

fn drive_collector<S: Read + std::io::Seek>(mut c: dicom_object::collector::DicomCollector<BufReader<S>>, file: bool, fragments_first: bool) -> bool {
    let mut all = true;
    if file {
        all &= ok(c.read_preamble());
        all &= ok(c.read_file_meta().map(|_| ()));
    }
    let mut o = InMemDicomObject::new_empty();
    if fragments_first {
        let mut bot = Vec::new();
        all &= ok(c.read_basic_offset_table(&mut bot));
        let mut frag = Vec::new();
        for _ in 0..64 {
            match c.read_next_fragment(&mut frag) {
                Ok(Some(_)) => {}
                Ok(None) => break,
                Err(_) => {
                    all = false;
                    break;
                }
            }
        }
        all &= ok(c.read_dataset_to_end(&mut o));
    } else {
        all &= ok(c.read_dataset_up_to(tags::ROWS, &mut o));
        all &= ok(c.read_dataset_up_to_pixeldata(&mut o));
        let mut bot = Vec::new();
        all &= ok(c.read_basic_offset_table(&mut bot));
        let mut frag = Vec::new();
        all &= ok(c.read_next_fragment(&mut frag));
        all &= ok(c.read_dataset_to_end(&mut o));
        let _ = c.take_file_meta();
    }
    all
}

fn reader_opts(m: &str) -> DataSetReaderOptions {
    let mut o = DataSetReaderOptions::default();
    match m {
        "interpreted,accept" => {
            o.value_read = ValueReadStrategy::Interpreted;
            o.odd_length = OddLengthStrategy::Accept;
        }
        "preserved,nexteven" => {
            o.value_read = ValueReadStrategy::Preserved;
            o.odd_length = OddLengthStrategy::NextEven;
        }
        "raw,fail" => {
            o.value_read = ValueReadStrategy::Raw;
            o.odd_length = OddLengthStrategy::Fail;
        }
        "flexible" => {
            o.flexible_decoding = true;
        }
        _ => panic!("reader mode {m}"),
    }
    o
}

fn deflate(b: &[u8]) -> Vec<u8> {
    let mut e = flate2::write::DeflateEncoder::new(Vec::new(), flate2::Compression::fast());
    e.write_all(b).unwrap();
    e.finish().unwrap()
}

/// Execute entry point `name` of `kind` on the input. Prerequisite steps of composite entry
/// points (reading the object that is then decoded / dumped) run under their own `catch`: if
/// they fail or panic the composite entry point is not applicable ("err"); the panic is
/// reported by the entry point that owns it.
fn run_ep(kind: &str, name: &str, inp: &[u8], scratch: &str) -> Out {
    let open = |b: &[u8]| -> Option<Obj> { catch(|| dicom_object::from_reader(b).ok()).ok().flatten() };
    let b = inp;
    match kind {
        "file" => match name {
            "open_file" | "open_file[until_pixel]" => {
                std::fs::write(scratch, b).map_err(|e| format!("TOOL scratch write: {e}")).unwrap();
                if name == "open_file" {
                    catch(|| ok(dicom_object::open_file(scratch)))
                } else {
                    catch(|| ok(OpenFileOptions::new().read_until(tags::PIXEL_DATA).open_file(scratch)))
                }
            }
            "from_reader[auto]" => catch(|| ok(dicom_object::from_reader(b))),
            "from_reader[always]" => catch(|| ok(OpenFileOptions::new().read_preamble(ReadPreamble::Always).from_reader(b))),
            "from_reader[never]" => {
                let s = &b[128.min(b.len())..];
                catch(|| ok(OpenFileOptions::new().read_preamble(ReadPreamble::Never).from_reader(s)))
            }
            "from_reader[until_pixel,nexteven]" => {
                catch(|| ok(OpenFileOptions::new().read_until(tags::PIXEL_DATA).odd_length_strategy(OddLengthStrategy::NextEven).from_reader(b)))
            }
            "from_reader[fail_odd]" => catch(|| ok(OpenFileOptions::new().odd_length_strategy(OddLengthStrategy::Fail).read_all().from_reader(b))),
            "FileMetaTable::from_reader" => {
                let s = &b[128.min(b.len())..];
                catch(|| {
                    let a = ok(FileMetaTable::from_reader(s));
                    let c = ok(FileMetaTable::from_reader(b));
                    a || c
                })
            }
            "DicomCollector[auto]" => catch(|| {
                let c = DicomCollectorOptions::new().from_reader(BufReader::new(Cursor::new(b)));
                drive_collector(c, true, false)
            }),
            "DicomCollector[never,fragments]" => {
                let s = &b[128.min(b.len())..];
                catch(|| {
                    let c = DicomCollectorOptions::new()
                        .read_preamble(ReadPreamble::Never)
                        .odd_length_strategy(OddLengthStrategy::NextEven)
                        .from_reader(BufReader::new(Cursor::new(s)));
                    drive_collector(c, true, true)
                })
            }
            "decode_pixel_data" => match open(b) {
                None => Ok(false),
                Some(o) => catch(|| ok(o.decode_pixel_data())),
            },
            "decode_pixel_data_frame" => match open(b) {
                None => Ok(false),
                Some(o) => catch(|| {
                    let mut all = true;
                    for k in [0u32, 1, 2, 7] {
                        all &= ok(o.decode_pixel_data_frame(k));
                    }
                    all
                }),
            },
            "dump_file_to[text]" => match open(b) {
                None => Ok(false),
                Some(o) => catch(|| sink_dump_file(&o, dicom_dump::DumpFormat::Text)),
            },
            "dump_file_to[json]" => match open(b) {
                None => Ok(false),
                Some(o) => catch(|| sink_dump_file(&o, dicom_dump::DumpFormat::Json)),
            },
            _ => panic!("ep {name}"),
        },
        "dataset" => {
            let (base, arg) = name.split_once('[').map(|(a, r)| (a, r.trim_end_matches(']'))).unwrap();
            let (ts, mode) = arg.split_once(',').unwrap_or((arg, ""));
            let tsx = TransferSyntaxRegistry.get(ts_uid(ts)).expect("ts");
            match base {
                "DataSetReader" => catch(|| {
                    let rd = match DataSetReader::new_with_ts_options(b, tsx, reader_opts(mode)) {
                        Ok(r) => r,
                        Err(_) => return false,
                    };
                    let mut all = true;
                    for t in rd {
                        if t.is_err() {
                            all = false;
                            break;
                        }
                    }
                    all
                }),
                "LazyDataSetReader" => catch(|| {
                    let mut rd = match LazyDataSetReader::new_with_ts(Cursor::new(b), tsx) {
                        Ok(r) => r,
                        Err(_) => return false,
                    };
                    let mut i = 0u32;
                    loop {
                        match rd.advance() {
                            None => return true,
                            Some(Err(_)) => return false,
                            Some(Ok(t)) => {
                                i += 1;
                                let r = match i % 4 {
                                    0 => t.skip().is_ok(),
                                    1 => t.into_owned().is_ok(),
                                    2 => t.into_owned_with_strategy(ValueReadStrategy::Raw).is_ok(),
                                    _ => t.into_owned_with_strategy(ValueReadStrategy::Interpreted).is_ok(),
                                };
                                if !r {
                                    return false;
                                }
                            }
                        }
                    }
                }),
                "read_dataset_with_ts" => {
                    if ts == "deflated" && mode == "wrapped" {
                        let z = deflate(b);
                        catch(|| ok(InMemDicomObject::read_dataset_with_ts(&z[..], tsx)))
                    } else {
                        catch(|| ok(InMemDicomObject::read_dataset_with_ts(b, tsx)))
                    }
                }
                "DicomCollector" => catch(|| {
                    let c = dicom_object::collector::DicomCollector::new_with_ts(BufReader::new(Cursor::new(b)), ts_uid(ts));
                    drive_collector(c, false, false)
                }),
                "dump_object_to" => match catch(|| InMemDicomObject::read_dataset_with_ts(b, tsx).ok()).ok().flatten() {
                    None => Ok(false),
                    Some(o) => catch(|| sink_dump_obj(&o)),
                },
                _ => panic!("ep {name}"),
            }
        }
        "meta" => match name {
            "FileMetaTable::from_reader" => catch(|| ok(FileMetaTable::from_reader(b))),
            "from_reader[never]" => catch(|| ok(OpenFileOptions::new().read_preamble(ReadPreamble::Never).from_reader(b))),
            _ => panic!("ep {name}"),
        },
        "pdu" => match name {
            "read_pdu[strict]" => catch(|| ok(read_pdu(b, 16384, true))),
            "read_pdu[lenient]" => catch(|| ok(read_pdu(b, 16384, false))),
            "read_pdu[lenient,maxmax]" => catch(|| ok(read_pdu(b, MAXIMUM_PDU_SIZE, false))),
            _ => panic!("ep {name}"),
        },
        "json" => {
            let s = String::from_utf8_lossy(b).to_string();
            match name {
                "dicom_json::from_str[object]" => catch(|| ok(dicom_json::from_str::<InMemDicomObject>(&s))),
                "dicom_json::from_slice[object]" => catch(|| ok(dicom_json::from_slice::<InMemDicomObject>(b))),
                "dicom_json::from_value[object]" => match serde_json::from_str::<serde_json::Value>(&s) {
                    Err(_) => Ok(false),
                    Ok(v) => catch(|| ok(dicom_json::from_value::<InMemDicomObject>(v))),
                },
                "dump_object_to[json]" => match catch(|| dicom_json::from_str::<InMemDicomObject>(&s).ok()).ok().flatten() {
                    None => Ok(false),
                    Some(o) => catch(|| sink_dump_obj(&o)),
                },
                _ => panic!("ep {name}"),
            }
        }
        "selftest" => match name {
            "selftest[ok]" => Ok(true),
            "selftest[err]" => Ok(false),
            "selftest[panic]" => catch(|| {
                let v: Vec<u8> = b.to_vec();
                v[b.len() + 1] == 0
            }),
            "selftest[alloc]" => catch(|| {
                let v: Vec<u8> = vec![1u8; 3usize << 30];
                v[b.len()] == 1
            }),
            "selftest[stack]" => catch(|| deep(u64::MAX / 2, &[1u8; 256]) > 0),
            "selftest[spin]" => catch(|| {
                let mut x = b.len() as u64;
                loop {
                    x = std::hint::black_box(x.wrapping_mul(6364136223846793005).wrapping_add(1));
                    if x == 42 {
                        return true;
                    }
                }
            }),
            _ => panic!("ep {name}"),
        },
        "text" => {
            use dicom_core::value::deserialize::*;
            use dicom_core::value::range::*;
            use dicom_core::value::{DicomDate, DicomDateTime, DicomTime};
            let s = String::from_utf8_lossy(b).to_string();
            let s = s.as_str();
            match name {
                "Tag::from_str" => catch(|| ok(Tag::from_str(s))),
                "parse_tag" => catch(|| StandardDataDictionary.parse_tag(s).is_some()),
                "parse_selector" => catch(|| ok(StandardDataDictionary.parse_selector(s))),
                "parse_date" => catch(|| ok(parse_date(b))),
                "parse_date_partial" => catch(|| ok(parse_date_partial(b))),
                "parse_time" => catch(|| ok(parse_time(b))),
                "parse_time_partial" => catch(|| ok(parse_time_partial(b))),
                "parse_datetime_partial" => catch(|| ok(parse_datetime_partial(b))),
                "DicomDate::from_str" => catch(|| ok(DicomDate::from_str(s))),
                "DicomTime::from_str" => catch(|| ok(DicomTime::from_str(s))),
                "DicomDateTime::from_str" => catch(|| ok(DicomDateTime::from_str(s))),
                "parse_date_range" => catch(|| ok(parse_date_range(b))),
                "parse_time_range" => catch(|| ok(parse_time_range(b))),
                "parse_datetime_range" => catch(|| ok(parse_datetime_range(b))),
                "parse_datetime_range_custom[known_tz]" => catch(|| ok(parse_datetime_range_custom::<ToKnownTimeZone>(b))),
                "parse_datetime_range_custom[fail_ambiguous]" => catch(|| ok(parse_datetime_range_custom::<FailOnAmbiguousRange>(b))),
                "parse_datetime_range_custom[ignore_tz]" => catch(|| ok(parse_datetime_range_custom::<IgnoreTimeZone>(b))),
                _ => panic!("ep {name}"),
            }
        }
        _ => panic!("kind {kind}"),
    }
}

// ====================================================================== worker (forked child)

struct Seed {
    kind: String,
    bytes: Vec<u8>,
}

fn load_seeds(path: &str) -> std::collections::HashMap<String, Seed> {
    read_ndjson(path)
        .into_iter()
        .map(|s| (j_str(&s["name"]).to_string(), Seed { kind: j_str(&s["kind"]).to_string(), bytes: j_bytes(&s["bytes"]) }))
        .collect()
}

extern "C" {
    fn setrlimit(resource: i32, rlim: *const [u64; 2]) -> i32;
    fn fork() -> i32;
    fn waitpid(pid: i32, status: *mut i32, options: i32) -> i32;
    fn kill(pid: i32, sig: i32) -> i32;
    fn _exit(code: i32) -> !;
    fn dup2(old: i32, new: i32) -> i32;
    fn mmap(addr: *mut u8, len: usize, prot: i32, flags: i32, fd: i32, off: i64) -> *mut u8;
}

/// progress marker (case id, entry point index) in memory shared between the fork server and
/// its child: written by the child before every execution, no system call involved
#[derive(Clone, Copy)]
struct Marker(*mut u64);
unsafe impl Send for Marker {}
unsafe impl Sync for Marker {}
impl Marker {
    fn new() -> Self {
        // PROT_READ|PROT_WRITE, MAP_SHARED|MAP_ANONYMOUS
        let p = unsafe { mmap(std::ptr::null_mut(), 4096, 3, 0x01 | 0x20, -1, 0) };
        assert!(!p.is_null() && p as isize != -1, "mmap failed");
        Marker(p as *mut u64)
    }
    fn set(&self, id: u64, ep: u64) {
        unsafe {
            std::ptr::write_volatile(self.0.add(1), ep);
            std::ptr::write_volatile(self.0, id);
        }
    }
    fn get(&self) -> (u64, u64) {
        unsafe { (std::ptr::read_volatile(self.0), std::ptr::read_volatile(self.0.add(1))) }
    }
}

fn limit_memory(bytes: u64) {
    // RLIMIT_AS = 9 on Linux: an allocation beyond it fails, Rust then aborts the process
    let lim = [bytes, bytes];
    let rc = unsafe { setrlimit(9, &lim) };
    assert!(rc == 0, "setrlimit failed");
}

type Skips = std::collections::HashMap<(u64, usize), (String, String)>;

struct Shared {
    seeds: std::collections::HashMap<String, Seed>,
    cases: Vec<String>,
    vseed: u64,
    scratch: String,
    marker: Marker,
    part: String,
    id_offset: u64,
}

/// executes cases[from-1..]; runs in the forked child
fn worker(sh: &Shared, from: u64, skips: &Skips) {
    install_hook();
    let out = std::fs::OpenOptions::new().create(true).append(true).open(&sh.part).expect("out file");
    let mut out = std::io::BufWriter::with_capacity(1 << 16, out);
    let mut names_cache: std::collections::HashMap<String, Vec<String>> = Default::default();
    for id in from..=sh.cases.len() as u64 {
        let case: Value = serde_json::from_str(&sh.cases[(id - 1) as usize]).expect("case json");
        let seed = &sh.seeds[j_str(&case["seed"])];
        let gid = id + sh.id_offset;
        let input = materialise(&seed.bytes, j_arr(&case["edits"]), gid, sh.vseed);
        let mut transport_ok = true;
        if let Some(exp) = case.get("bytes") {
            // TLC materialised the bytes itself: the driver's splice must agree (transport check)
            if j_bytes(exp) != input {
                transport_ok = false;
            }
        }
        let names = names_cache.entry(seed.kind.clone()).or_insert_with(|| ep_names(&seed.kind));
        let mut outs: Vec<&'static str> = Vec::with_capacity(names.len());
        let mut det: Vec<Value> = Vec::new();
        for (k, name) in names.iter().enumerate() {
            if let Some((o, msg)) = skips.get(&(id, k)) {
                outs.push(if o == "hang" { "hang" } else { "abort" });
                det.push(json!({"ep": name, "outcome": o, "msg": msg, "loc": ""}));
                continue;
            }
            // a composite entry point (decode / dump what was read) is not applicable when its
            // prerequisite read killed the worker: that defect belongs to the reading entry point
            if let Some(pre) = prerequisite(&seed.kind, name) {
                let died = names.iter().position(|n| *n == pre).map(|j| j < outs.len() && (outs[j] == "abort" || outs[j] == "hang"));
                if died == Some(true) {
                    outs.push("err");
                    continue;
                }
            }
            sh.marker.set(id, k as u64);
            match run_ep(&seed.kind, name, &input, &sh.scratch) {
                Ok(true) => outs.push("ok"),
                Ok(false) => outs.push("err"),
                Err(msg) => {
                    outs.push("panic");
                    let loc = PANIC_LOC.with(|p| p.borrow().clone());
                    det.push(json!({"ep": name, "outcome": "panic", "msg": msg, "loc": loc}));
                }
            }
        }
        let rec = json!({"id": gid, "kind": seed.kind, "outs": outs, "det": det, "transport_ok": transport_ok, "len": input.len()});
        // one write per line: a line is never split by the buffer (complete lines survive a crash)
        let mut line = serde_json::to_string(&rec).unwrap();
        line.push('\n');
        out.write_all(line.as_bytes()).unwrap();
    }
    out.flush().unwrap();
    sh.marker.set(u64::MAX, u64::MAX);
}

// ====================================================================== parent (fork server)

fn cpu_ticks(pid: i32) -> u64 {
    // utime + stime of the whole process (all threads), clock ticks
    let s = std::fs::read_to_string(format!("/proc/{pid}/stat")).unwrap_or_default();
    let rest = s.rsplit_once(')').map(|x| x.1).unwrap_or("");
    let f: Vec<&str> = rest.split_whitespace().collect();
    if f.len() > 13 {
        f[11].parse::<u64>().unwrap_or(0) + f[12].parse::<u64>().unwrap_or(0)
    } else {
        0
    }
}

fn parent(a: &std::collections::HashMap<String, String>) {
    // the children must not reserve one malloc arena per thread (RLIMIT_AS counts address space)
    if std::env::var("MALLOC_ARENA_MAX").is_err() {
        let st = std::process::Command::new(std::env::current_exe().expect("exe"))
            .args(std::env::args().skip(1))
            .env("MALLOC_ARENA_MAX", "1")
            .env("RAYON_NUM_THREADS", "1")
            .env("RUST_BACKTRACE", "0")
            .status()
            .expect("re-exec");
        std::process::exit(st.code().unwrap_or(3));
    }
    let work = a["work"].clone();
    let errlog = format!("{work}/worker_stderr.txt");
    let sh = Shared {
        seeds: load_seeds(&a["seeds"]),
        cases: std::fs::read_to_string(&a["cases"]).expect("cases").lines().filter(|l| !l.trim().is_empty()).map(|l| l.to_string()).collect(),
        vseed: seed_from_env(),
        scratch: format!("{work}/scratch.dcm"),
        marker: Marker::new(),
        part: format!("{work}/worker_out.ndjson"),
        id_offset: a.get("id-offset").and_then(|s| s.parse().ok()).unwrap_or(0),
    };
    let _ = std::fs::remove_file(&sh.part);
    let ncases = sh.cases.len() as u64;
    let mem: u64 = a.get("mem-mib").and_then(|s| s.parse().ok()).unwrap_or(512u64) << 20;
    // budget per (case, entry point): CPU seconds of the worker without progress; wall clock as a backstop
    let hang_cpu_s: f64 = a.get("hang-cpu").and_then(|s| s.parse().ok()).unwrap_or(10.0);
    let hang_wall_s: f64 = a.get("hang-wall").and_then(|s| s.parse().ok()).unwrap_or(300.0);
    let max_incidents: usize = a.get("max-incidents").and_then(|s| s.parse().ok()).unwrap_or(20000);
    let mut skips: Skips = Default::default();
    let mut from = 1u64;
    let mut incidents: Vec<Value> = Vec::new();
    let mut n_incidents = 0usize;
    let mut cpu_total = 0u64;
    while from <= ncases {
        sh.marker.set(0, 0);
        let errf = std::fs::File::create(&errlog).unwrap();
        use std::os::fd::AsRawFd;
        let pid = unsafe { fork() };
        assert!(pid >= 0, "fork failed");
        if pid == 0 {
            // child: memory limit, stderr to the log, the main thread's default stack size
            unsafe { dup2(errf.as_raw_fd(), 2) };
            // some dump formats print to the process's stdout: keep the REPORT channel clean
            let null = std::fs::OpenOptions::new().write(true).open("/dev/null").expect("/dev/null");
            unsafe { dup2(null.as_raw_fd(), 1) };
            limit_memory(mem);
            let code = std::thread::scope(|s| {
                let h = std::thread::Builder::new().stack_size(8 << 20).spawn_scoped(s, || worker(&sh, from, &skips)).expect("thread");
                if h.join().is_err() {
                    4
                } else {
                    0
                }
            });
            unsafe { _exit(code) };
        }
        drop(errf);
        let mut last = (0u64, 0u64);
        let mut cpu_at = 0u64;
        let mut wall_at = std::time::Instant::now();
        let mut last_cpu = 0u64;
        let mut hung = false;
        let mut status = 0i32;
        let mut sleep_us = 200u64;
        loop {
            let r = unsafe { waitpid(pid, &mut status, 1) };
            if r == pid {
                break;
            }
            assert!(r == 0, "waitpid failed");
            std::thread::sleep(std::time::Duration::from_micros(sleep_us));
            sleep_us = (sleep_us * 2).min(20_000);
            let cur = sh.marker.get();
            let cpu = cpu_ticks(pid);
            if cpu > 0 {
                last_cpu = cpu;
            }
            if cur != last {
                last = cur;
                cpu_at = cpu;
                wall_at = std::time::Instant::now();
            } else if cur.0 != 0 && cur.0 != u64::MAX {
                let burnt = cpu.saturating_sub(cpu_at) as f64 / 100.0;
                if burnt > hang_cpu_s || wall_at.elapsed().as_secs_f64() > hang_wall_s {
                    unsafe { kill(pid, 9) };
                    unsafe { waitpid(pid, &mut status, 0) };
                    hung = true;
                    break;
                }
            }
        }
        cpu_total += last_cpu;
        let exited_ok = !hung && (status & 0x7f) == 0 && ((status >> 8) & 0xff) == 0;
        let (cid, ep) = sh.marker.get();
        if exited_ok && cid == u64::MAX {
            break;
        }
        // the child died or was killed while executing (case, ep) of the marker
        let tail = std::fs::read_to_string(&errlog).unwrap_or_default();
        if cid == 0 || cid == u64::MAX {
            println!("worker failed outside a case (from={from}): status {status:#x}\n{}", &tail[tail.len().saturating_sub(2000)..]);
            std::process::exit(3);
        }
        let first: String = tail.lines().find(|l| !l.trim().is_empty()).unwrap_or("").chars().take(160).collect();
        let (outcome, msg) = if hung {
            ("hang", format!("no progress after {hang_cpu_s} CPU-seconds"))
        } else {
            let sig = status & 0x7f;
            let what = match sig {
                0 => format!("exit status {}", (status >> 8) & 0xff),
                11 => "SIGSEGV".to_string(),
                6 => "SIGABRT".to_string(),
                s => format!("signal {s}"),
            };
            ("abort", if first.is_empty() { what } else { format!("{what}: {first}") })
        };
        skips.insert((cid, ep as usize), (outcome.to_string(), msg.clone()));
        n_incidents += 1;
        if incidents.len() < 50 {
            incidents.push(json!({"case": cid + sh.id_offset, "ep": ep, "outcome": outcome, "msg": msg}));
        }
        // results are flushed in blocks: resume after the last complete line on disk
        let done = {
            let data = std::fs::read(&sh.part).unwrap_or_default();
            let keep = data.iter().rposition(|b| *b == b'\n').map(|p| p + 1).unwrap_or(0);
            if keep != data.len() {
                std::fs::write(&sh.part, &data[..keep]).unwrap();
            }
            data[..keep].iter().filter(|b| **b == b'\n').count() as u64
        };
        from = (done + 1).min(cid);
        if n_incidents > max_incidents {
            println!("too many worker incidents ({n_incidents}); last {:?}", incidents.last());
            std::process::exit(3);
        }
    }
    // assemble the trace for Trace_Malform: eps headers, then one event per case in id order
    let mut tw = NdjsonWriter::create(&a["out"]);
    let mut dw = NdjsonWriter::create(&a["details"]);
    let mut kinds = vec!["file", "dataset", "meta", "pdu", "json", "text"];
    if sh.seeds.values().any(|s| s.kind == "selftest") {
        kinds.push("selftest");
    }
    for k in kinds.iter().filter(|_| sh.id_offset == 0) {
        tw.emit(&json!({"ev": "eps", "kind": k, "names": ep_names(k)}));
    }
    let mut rep = Report::new();
    let mut execs = 0u64;
    let mut counts: std::collections::BTreeMap<String, u64> = Default::default();
    let mut nontrivial = 0u64;
    let mut transport_bad = 0u64;
    let mut transport_checked = 0u64;
    let mut next = 1u64 + sh.id_offset;
    let mut bytes_total = 0u64;
    for rec in read_ndjson(&sh.part) {
        let id = rec["id"].as_u64().unwrap();
        if id != next {
            rep.mismatch(json!({"what": "case ids not consecutive in worker output", "expected": next, "got": id}));
        }
        next = id + 1;
        let outs = j_arr(&rec["outs"]);
        execs += outs.len() as u64;
        let mut has_ok = false;
        let mut has_err = false;
        for o in outs {
            *counts.entry(j_str(o).to_string()).or_default() += 1;
            has_ok |= o == "ok";
            has_err |= o == "err";
        }
        if has_ok && has_err {
            nontrivial += 1;
        }
        if sh.cases[(id - 1 - sh.id_offset) as usize].contains("\"bytes\":") {
            transport_checked += 1;
        }
        if !rec["transport_ok"].as_bool().unwrap_or(true) {
            transport_bad += 1;
            if transport_bad <= 3 {
                rep.mismatch(json!({"what": "driver materialisation differs from the bytes TLC computed", "id": id}));
            }
        }
        bytes_total += rec["len"].as_u64().unwrap_or(0);
        tw.emit(&json!({"ev": "case", "id": id, "kind": rec["kind"], "outs": rec["outs"]}));
        for d in j_arr(&rec["det"]) {
            let mut d = d.clone();
            d["id"] = json!(id);
            dw.emit(&d);
        }
    }
    if next != ncases + 1 + sh.id_offset {
        rep.mismatch(json!({"what": "not every case was executed", "cases": ncases, "executed": next - 1 - sh.id_offset}));
    }
    tw.finish();
    dw.finish();
    rep.cases = ncases as usize;
    rep.extra.insert("executions".into(), json!(execs));
    rep.extra.insert("outcomes".into(), json!(counts));
    rep.extra.insert("mixed_outcome_cases".into(), json!(nontrivial));
    rep.extra.insert("transport_checked".into(), json!(transport_checked));
    rep.extra.insert("worker_incidents".into(), json!(n_incidents));
    rep.extra.insert("incidents".into(), json!(incidents));
    rep.extra.insert("worker_cpu_s".into(), json!(cpu_total as f64 / 100.0));
    rep.extra.insert("input_bytes".into(), json!(bytes_total));
    rep.extra.insert("memory_limit_mib".into(), json!(mem >> 20));
    rep.print();
}

/// print the materialised input of one case (for reproduction outside the harness)
fn show(a: &std::collections::HashMap<String, String>) {
    let seeds = load_seeds(&a["seeds"]);
    let cases = read_ndjson(&a["cases"]);
    let id: usize = a["id"].parse().unwrap();
    let case = &cases[id - 1];
    let seed = &seeds[j_str(&case["seed"])];
    let input = materialise(&seed.bytes, j_arr(&case["edits"]), id as u64, seed_from_env());
    if let Some(p) = a.get("write") {
        std::fs::write(p, &input).unwrap();
    }
    println!("{}", json!({"case": case, "kind": seed.kind, "len": input.len(), "bytes": bytes_json(&input[..input.len().min(4096)])}));
}

/// run one case in-process (no isolation), printing the outcome of every entry point;
/// `--ep <substring>` restricts the entry points, `--trace` keeps the default panic hook (backtraces)
fn one(a: &std::collections::HashMap<String, String>) {
    let seeds = load_seeds(&a["seeds"]);
    let cases = read_ndjson(&a["cases"]);
    let id: usize = a["id"].parse().unwrap();
    let case = &cases[id - 1];
    let seed = &seeds[j_str(&case["seed"])];
    let input = materialise(&seed.bytes, j_arr(&case["edits"]), id as u64, seed_from_env());
    if !a.contains_key("trace") {
        install_hook();
    }
    println!("case {id}: {}", serde_json::to_string(&case["muts"]).unwrap());
    for name in ep_names(&seed.kind) {
        if let Some(f) = a.get("ep") {
            if !name.contains(f.as_str()) {
                continue;
            }
        }
        let r = run_ep(&seed.kind, &name, &input, "/verif/work/C05_one_scratch.dcm");
        let loc = PANIC_LOC.with(|p| p.borrow().clone());
        println!("  {name}: {r:?} {}", if r.is_err() { loc } else { String::new() });
    }
}

fn main() {
    let a = args_map();
    match a.get("_0").map(|s| s.as_str()) {
        Some("seeds") => gen_seeds(&a["out"]),
        Some("run") => parent(&a),
        Some("show") => show(&a),
        Some("one") => one(&a),
        _ => {
            eprintln!("usage: drv_malform seeds|run|show ...");
            std::process::exit(2);
        }
    }
}
