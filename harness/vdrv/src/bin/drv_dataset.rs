//! C01 / C02 / C04 conformance driver: data set writing and reading.
//!
//!   drv_dataset replay --cases F --out DIR [--props C01,C02,C04] [--sample K]
//!        TLC cases (Gen_DS: abstract data set + PS35!Wire bytes + PS35!Norm read-back)
//!        -> real InMemDicomObject / DataSetWriter / DataSetReader.  Mismatches are
//!        reported per property; every distinct written stream that is not byte-identical
//!        to a stream TLC already proved well-formed (plus every K-th of the others) is
//!        logged to DIR/streams.ndjson for Trace_PS35.
//!   drv_dataset random --n N --out DIR
//!        seeded random larger data sets -> DIR/random.ndjson (events "rt") for Trace_PS35
//!   drv_dataset prims --cases F --out DIR
//!        byte-count accounting of the primitive encoders -> DIR/prims.ndjson
//!   drv_dataset files --cases F --out DIR
//!        whole files through FileDicomObject::write_all -> DIR/files.ndjson
//!
//! Abstract -> concrete projection (fixed): a primitive element {tag,vr,v} becomes
//!   text VRs  : Strs(items as ASCII strings) (Str for LT/ST/UT/UR; Empty for no item)
//!   US/OW U16, SS I16, UL/OL U32, SL I32, UV/OV U64, SV I64, FL/OF F32 (from bits),
//!   FD/OD F64 (from bits), AT Tags, OB/UN U8; items are big-endian byte tuples.
//! Concrete -> abstract projection is the inverse; the last text item loses its
//! trailing padding (SPACE / NUL), which is the documented normalisation.

use dicom_core::header::{DataElement, HasLength, Header, Length};
use dicom_core::value::{DataSetSequence, DicomDate, DicomDateTime, DicomTime, PixelFragmentSequence, Value as DValue, C};
use dicom_core::{PrimitiveValue, Tag, VR};
use dicom_encoding::encode::explicit_be::ExplicitVRBigEndianEncoder;
use dicom_encoding::encode::explicit_le::ExplicitVRLittleEndianEncoder;
use dicom_encoding::encode::implicit_le::ImplicitVRLittleEndianEncoder;
use dicom_encoding::encode::{Encode, EncoderFor};
use dicom_encoding::text::SpecificCharacterSet;
use dicom_encoding::transfer_syntax::TransferSyntaxIndex;
use dicom_encoding::TransferSyntax;
use dicom_object::mem::InMemElement;
use dicom_object::{FileMetaTableBuilder, InMemDicomObject};
use dicom_parser::dataset::write::{DataSetWriter, DataSetWriterOptions, ExplicitLengthSqItemStrategy};
use dicom_parser::dataset::DataToken;
use dicom_parser::stateful::encode::StatefulEncoder;
use dicom_transfer_syntax_registry::TransferSyntaxRegistry;
use serde_json::{json, Map, Value};
use std::collections::HashSet;
use std::io::Read;
use std::str::FromStr;
use vcommon::*;

const DEFLATED: &str = "1.2.840.10008.1.2.1.99";

fn ts_uid(ts: &str) -> &'static str {
    match ts {
        "IVRLE" => "1.2.840.10008.1.2",
        "EVRLE" => "1.2.840.10008.1.2.1",
        "EVRBE" => "1.2.840.10008.1.2.2",
        "DEFL" => DEFLATED,
        _ => panic!("bad ts {ts}"),
    }
}
fn ts_of(ts: &str) -> &'static TransferSyntax {
    TransferSyntaxRegistry.get(ts_uid(ts)).unwrap_or_else(|| panic!("transfer syntax {ts} not registered"))
}

fn tag_of(v: &Value) -> Tag {
    let a = j_arr(v);
    Tag(j_usize(&a[0]) as u16, j_usize(&a[1]) as u16)
}
fn items_of(v: &Value) -> Vec<Vec<u8>> {
    j_arr(v).iter().map(j_bytes).collect()
}
fn is_text_single(vr: VR) -> bool {
    matches!(vr, VR::LT | VR::ST | VR::UT | VR::UR)
}
fn is_text(vr: VR) -> bool {
    matches!(
        vr,
        VR::AE | VR::AS | VR::CS | VR::DA | VR::DS | VR::DT | VR::IS | VR::LO | VR::PN | VR::SH | VR::TM | VR::UI | VR::UC
    ) || is_text_single(vr)
}

/// abstract value -> PrimitiveValue; `alt` selects the alternative in-memory form
/// (Str instead of Strs for a single text item)
fn build_value(vr: VR, items: &[Vec<u8>], alt: bool) -> PrimitiveValue {
    if items.is_empty() {
        return PrimitiveValue::Empty;
    }
    let s = |b: &Vec<u8>| String::from_utf8(b.clone()).expect("ascii");
    if is_text_single(vr) || (is_text(vr) && alt && items.len() == 1) {
        return PrimitiveValue::Str(s(&items[0]));
    }
    if is_text(vr) {
        return PrimitiveValue::Strs(items.iter().map(s).collect());
    }
    macro_rules! num {
        ($variant:ident, $t:ty, $n:expr) => {
            PrimitiveValue::$variant(
                items
                    .iter()
                    .map(|b| {
                        let mut a = [0u8; $n];
                        a.copy_from_slice(b);
                        <$t>::from_be_bytes(a)
                    })
                    .collect(),
            )
        };
    }
    match vr {
        VR::US | VR::OW => num!(U16, u16, 2),
        VR::SS => num!(I16, i16, 2),
        VR::UL | VR::OL => num!(U32, u32, 4),
        VR::SL => num!(I32, i32, 4),
        VR::UV | VR::OV => num!(U64, u64, 8),
        VR::SV => num!(I64, i64, 8),
        VR::FL | VR::OF => PrimitiveValue::F32(
            items.iter().map(|b| f32::from_bits(u32::from_be_bytes([b[0], b[1], b[2], b[3]]))).collect(),
        ),
        VR::FD | VR::OD => PrimitiveValue::F64(
            items
                .iter()
                .map(|b| {
                    let mut a = [0u8; 8];
                    a.copy_from_slice(b);
                    f64::from_bits(u64::from_be_bytes(a))
                })
                .collect(),
        ),
        VR::AT => PrimitiveValue::Tags(
            items
                .iter()
                .map(|b| Tag(u16::from_be_bytes([b[0], b[1]]), u16::from_be_bytes([b[2], b[3]])))
                .collect(),
        ),
        VR::OB | VR::UN => PrimitiveValue::U8(items.iter().map(|b| b[0]).collect()),
        _ => panic!("no projection for VR {vr}"),
    }
}

/// in-memory form of the values of an object under construction
#[derive(Clone, Copy, PartialEq, Debug)]
enum Form {
    /// Strs for text
    Plain,
    /// Str instead of Strs for a single text item
    Alt,
    /// Date / Time / DateTime built from the components in the element's `typed` field
    Typed,
}

fn part_i(p: &Value, k: &str) -> i64 {
    p[k].as_i64().unwrap_or(-1)
}
fn mk_date(p: &Value) -> DicomDate {
    let (y, mo, d) = (part_i(p, "y"), part_i(p, "mo"), part_i(p, "d"));
    if mo < 0 {
        DicomDate::from_y(y as u16).unwrap()
    } else if d < 0 {
        DicomDate::from_ym(y as u16, mo as u8).unwrap()
    } else {
        DicomDate::from_ymd(y as u16, mo as u8, d as u8).unwrap()
    }
}
fn mk_time(p: &Value) -> DicomTime {
    let (h, mi, sec) = (part_i(p, "h"), part_i(p, "mi"), part_i(p, "s"));
    let f: Vec<u8> = j_bytes(&p["f"]);
    if mi < 0 {
        DicomTime::from_h(h as u8).unwrap()
    } else if sec < 0 {
        DicomTime::from_hm(h as u8, mi as u8).unwrap()
    } else if f.is_empty() {
        DicomTime::from_hms(h as u8, mi as u8, sec as u8).unwrap()
    } else {
        let val: u32 = f.iter().fold(0u32, |a, d| a * 10 + *d as u32);
        match f.len() {
            3 => DicomTime::from_hms_milli(h as u8, mi as u8, sec as u8, val).unwrap(),
            6 => DicomTime::from_hms_micro(h as u8, mi as u8, sec as u8, val).unwrap(),
            _ => {
                // other fraction precisions have no public constructor: obtain the value
                // from the library's own parser of the components' text
                let frac: String = f.iter().map(|d| (b'0' + d) as char).collect();
                let txt = format!("{h:02}{mi:02}{sec:02}.{frac}");
                dicom_core::value::deserialize::parse_time_partial(txt.as_bytes()).expect("time text").0
            }
        }
    }
}
fn mk_datetime(p: &Value) -> DicomDateTime {
    let date = mk_date(p);
    let tz = j_arr(&p["tz"]);
    let off = if tz.is_empty() {
        None
    } else {
        let secs = (j_usize(&tz[1]) as i32) * 3600 + (j_usize(&tz[2]) as i32) * 60;
        Some(if j_usize(&tz[0]) == 45 {
            dicom_core::chrono::FixedOffset::west_opt(secs).unwrap()
        } else {
            dicom_core::chrono::FixedOffset::east_opt(secs).unwrap()
        })
    };
    let has_time = part_i(p, "h") >= 0;
    match (has_time, off) {
        (false, None) => DicomDateTime::from_date(date),
        (false, Some(o)) => DicomDateTime::from_date_with_time_zone(date, o),
        (true, None) => DicomDateTime::from_date_and_time(date, mk_time(p)).unwrap(),
        (true, Some(o)) => DicomDateTime::from_date_and_time_with_time_zone(date, mk_time(p), o).unwrap(),
    }
}

/// the in-memory value of a primitive element of the abstract data set
fn build_elem_value(e: &Value, vr: VR, form: Form) -> PrimitiveValue {
    if form == Form::Typed {
        if let Some(parts) = e.get("typed").and_then(|t| t.as_array()) {
            return match vr {
                VR::DA => PrimitiveValue::Date(parts.iter().map(mk_date).collect()),
                VR::TM => PrimitiveValue::Time(parts.iter().map(mk_time).collect()),
                VR::DT => PrimitiveValue::DateTime(parts.iter().map(mk_datetime).collect()),
                _ => panic!("typed form for {vr}"),
            };
        }
    }
    if let Some(cp) = e.get("cp").and_then(|t| t.as_array()) {
        // text given as code points (non-default character repertoire)
        let strs: Vec<String> =
            cp.iter().map(|it| j_arr(it).iter().map(|c| char::from_u32(j_usize(c) as u32).unwrap()).collect()).collect();
        if strs.is_empty() {
            return PrimitiveValue::Empty;
        }
        if is_text_single(vr) || (form == Form::Alt && strs.len() == 1) {
            return PrimitiveValue::Str(strs[0].clone());
        }
        return PrimitiveValue::Strs(strs.into_iter().collect());
    }
    build_value(vr, &items_of(&e["v"]), form == Form::Alt)
}

fn len_field(v: &Value) -> Length {
    match v.as_i64() {
        Some(n) if n >= 0 => Length(n as u32),
        _ => Length::UNDEFINED,
    }
}

/// abstract data set -> in-memory object (sequence lengths as recorded; item lengths
/// cannot be set in memory and stay undefined)
fn build_obj(ds: &Value, form: Form) -> InMemDicomObject {
    let mut elems: Vec<InMemElement> = Vec::new();
    for e in j_arr(ds) {
        let tag = tag_of(&e["tag"]);
        match j_str(&e["k"]) {
            "P" => {
                let vr = VR::from_str(j_str(&e["vr"])).unwrap();
                let pv = build_elem_value(e, vr, form);
                elems.push(DataElement::new(tag, vr, DValue::Primitive(pv)));
            }
            "S" => {
                let items: Vec<InMemDicomObject> = j_arr(&e["items"]).iter().map(|it| build_obj(&it["ds"], form)).collect();
                let len = len_field(&e["len"]);
                elems.push(DataElement::new_with_len(
                    tag,
                    VR::SQ,
                    len,
                    DValue::Sequence(DataSetSequence::new(items, len)),
                ));
            }
            "X" => {
                let bot: C<u32> = j_arr(&e["bot"])
                    .iter()
                    .map(|b| {
                        let b = j_bytes(b);
                        u32::from_be_bytes([b[0], b[1], b[2], b[3]])
                    })
                    .collect();
                let frags: C<Vec<u8>> = j_arr(&e["frags"]).iter().map(j_bytes).collect();
                elems.push(DataElement::new(tag, VR::OB, DValue::PixelSequence(PixelFragmentSequence::new(bot, frags))));
            }
            k => panic!("bad element kind {k}"),
        }
    }
    InMemDicomObject::from_element_iter(elems)
}

/// text as code points, without trailing padding (SPACE / NUL) when `trim`
fn code_points(s: &str, trim: bool) -> Value {
    let t = if trim { s.trim_end_matches([' ', '\0']) } else { s };
    Value::Array(t.chars().map(|c| json!(c as u32)).collect())
}

#[allow(dead_code)]
fn trim_pad(b: &[u8]) -> &[u8] {
    let mut x = b;
    while let Some(&l) = x.last() {
        if l == b' ' || l == 0 {
            x = &x[..x.len() - 1];
        } else {
            break;
        }
    }
    x
}

fn project_value(pv: &PrimitiveValue) -> Value {
    fn be<T: IntoIterator<Item = Vec<u8>>>(it: T) -> Value {
        Value::Array(it.into_iter().map(|b| bytes_json(&b)).collect())
    }
    match pv {
        PrimitiveValue::Empty => json!([]),
        PrimitiveValue::Strs(v) => {
            let n = v.len();
            Value::Array(
                v.iter()
                    .enumerate()
                    .map(|(i, s)| code_points(s, i + 1 == n))
                    .collect(),
            )
        }
        PrimitiveValue::Str(s) => json!([code_points(s, true)]),
        PrimitiveValue::U8(v) => be(v.iter().map(|x| vec![*x])),
        PrimitiveValue::U16(v) => be(v.iter().map(|x| x.to_be_bytes().to_vec())),
        PrimitiveValue::I16(v) => be(v.iter().map(|x| x.to_be_bytes().to_vec())),
        PrimitiveValue::U32(v) => be(v.iter().map(|x| x.to_be_bytes().to_vec())),
        PrimitiveValue::I32(v) => be(v.iter().map(|x| x.to_be_bytes().to_vec())),
        PrimitiveValue::U64(v) => be(v.iter().map(|x| x.to_be_bytes().to_vec())),
        PrimitiveValue::I64(v) => be(v.iter().map(|x| x.to_be_bytes().to_vec())),
        PrimitiveValue::F32(v) => be(v.iter().map(|x| x.to_bits().to_be_bytes().to_vec())),
        PrimitiveValue::F64(v) => be(v.iter().map(|x| x.to_bits().to_be_bytes().to_vec())),
        PrimitiveValue::Tags(v) => be(v.iter().map(|t| {
            let mut b = t.0.to_be_bytes().to_vec();
            b.extend_from_slice(&t.1.to_be_bytes());
            b
        })),
        PrimitiveValue::Date(v) => be(v.iter().map(|d| d.to_encoded().into_bytes())),
        PrimitiveValue::Time(v) => be(v.iter().map(|d| d.to_encoded().into_bytes())),
        PrimitiveValue::DateTime(v) => be(v.iter().map(|d| d.to_encoded().into_bytes())),
    }
}

/// in-memory object -> abstract read-back form (same shape as PS35!Norm)
fn project_obj(obj: &InMemDicomObject) -> Value {
    let mut out = Vec::new();
    for e in obj.iter() {
        let tag = json!([e.tag().0, e.tag().1]);
        match e.value() {
            DValue::Primitive(pv) => {
                out.push(json!({"k": "P", "tag": tag, "vr": e.vr().to_string(), "v": project_value(pv)}));
            }
            DValue::Sequence(sq) => {
                let items: Vec<Value> = sq.items().iter().map(project_obj).collect();
                out.push(json!({"k": "S", "tag": tag, "items": items}));
            }
            DValue::PixelSequence(px) => {
                let bot: Vec<Value> = px.offset_table().iter().map(|o| bytes_json(&o.to_be_bytes())).collect();
                let frags: Vec<Value> = px.fragments().iter().map(|f| bytes_json(f)).collect();
                // the VR is part of the read-back; encapsulated pixel data is OB
                let mut m = Map::new();
                m.insert("k".into(), json!("X"));
                m.insert("tag".into(), tag);
                m.insert("bot".into(), Value::Array(bot));
                m.insert("frags".into(), Value::Array(frags));
                if e.vr() != VR::OB {
                    m.insert("vr".into(), json!(e.vr().to_string()));
                }
                out.push(Value::Object(m));
            }
        }
    }
    Value::Array(out)
}

#[derive(Clone, Copy, PartialEq, Debug)]
enum Strat {
    Default,
    U,
    K,
}
impl Strat {
    fn name(self) -> &'static str {
        match self {
            Strat::Default => "default",
            Strat::U => "U",
            Strat::K => "K",
        }
    }
}

/// Ok(bytes) | Err("err: .." | "panic: ..")
fn write_obj(obj: &InMemDicomObject, ts: &str, st: Strat) -> Result<Vec<u8>, String> {
    let tsx = ts_of(ts);
    let r = catch(|| {
        let mut out: Vec<u8> = Vec::new();
        let r = match st {
            Strat::Default => obj.write_dataset_with_ts(&mut out, tsx).map_err(|e| format!("{e}: {e:?}")),
            Strat::U | Strat::K => {
                let o = DataSetWriterOptions::default().explicit_length_sq_item_strategy(if st == Strat::U {
                    ExplicitLengthSqItemStrategy::SetUndefined
                } else {
                    ExplicitLengthSqItemStrategy::NoChange
                });
                obj.write_dataset_with_ts_options(&mut out, tsx, o).map_err(|e| format!("{e}: {e:?}"))
            }
        };
        r.map(|_| out)
    });
    match r {
        Err(p) => Err(format!("panic: {p}")),
        Ok(Err(e)) => Err(format!("err: {}", &e[..e.len().min(300)])),
        Ok(Ok(b)) => Ok(b),
    }
}

fn read_obj(bytes: &[u8], ts: &str) -> Result<InMemDicomObject, String> {
    let tsx = ts_of(ts);
    match catch(|| InMemDicomObject::read_dataset_with_ts(bytes, tsx).map_err(|e| format!("{e}: {e:?}"))) {
        Err(p) => Err(format!("panic: {p}")),
        Ok(Err(e)) => Err(format!("err: {}", &e[..e.len().min(300)])),
        Ok(Ok(o)) => Ok(o),
    }
}

fn inflate(b: &[u8]) -> Result<Vec<u8>, String> {
    let mut d = flate2::read::DeflateDecoder::new(b);
    let mut out = Vec::new();
    d.read_to_end(&mut out).map_err(|e| e.to_string())?;
    Ok(out)
}

/// abstract description of a data set for fingerprints: kinds of content
fn shape(ds: &Value) -> String {
    fn walk(ds: &Value, depth: usize, s: &mut (usize, bool, bool, bool, bool, Vec<String>)) {
        s.0 = s.0.max(depth);
        for e in j_arr(ds) {
            match j_str(&e["k"]) {
                "S" => {
                    if j_arr(&e["items"]).is_empty() {
                        s.1 = true;
                    }
                    if e["lm"] == "E" {
                        s.3 = true;
                    }
                    for it in j_arr(&e["items"]) {
                        if j_arr(&it["ds"]).is_empty() {
                            s.2 = true;
                        }
                        if it["lm"] == "E" {
                            s.3 = true;
                        }
                        walk(&it["ds"], depth + 1, s);
                    }
                }
                "X" => s.4 = true,
                _ => {
                    if depth == 0 {
                        s.5.push(j_str(&e["vr"]).to_string());
                    }
                }
            }
        }
    }
    let mut s = (0usize, false, false, false, false, Vec::new());
    walk(ds, 0, &mut s);
    let dss = ds.to_string();
    let extra = if dss.contains("\"typed\"") {
        ", date/time given by components"
    } else if dss.contains("\"cp\"") {
        ", non-default character set"
    } else {
        ""
    };
    if s.0 == 0 && !s.4 && s.5.len() == 1 {
        return format!("single {} element{extra}", s.5[0]);
    }
    let mut parts = vec![format!("nesting depth {}", s.0)];
    if s.3 {
        parts.push("explicit lengths".into());
    }
    if s.1 {
        parts.push("empty sequence".into());
    }
    if s.2 {
        parts.push("empty item".into());
    }
    if s.4 {
        parts.push("encapsulated pixel data".into());
    }
    format!("{}{extra}", parts.join(", "))
}

/// first difference between expected and observed read-back, as an abstract phrase
fn diff_phrase(exp: &Value, got: &Value) -> String {
    let (a, b) = (j_arr(exp), j_arr(got));
    if a.len() != b.len() {
        return format!("number of attributes differs ({} expected, {} read)", a.len(), b.len());
    }
    for (x, y) in a.iter().zip(b.iter()) {
        if x == y {
            continue;
        }
        if x["tag"] != y["tag"] {
            return "attribute order/tag differs".into();
        }
        if x["k"] != y["k"] {
            return format!("element kind differs ({} expected, {} read)", j_str(&x["k"]), j_str(&y["k"]));
        }
        match j_str(&x["k"]) {
            "P" => {
                if x["vr"] != y["vr"] {
                    return format!("VR differs ({} expected, {} read)", j_str(&x["vr"]), j_str(&y["vr"]));
                }
                return format!("{} value differs", j_str(&x["vr"]));
            }
            "S" => {
                let (ia, ib) = (j_arr(&x["items"]), j_arr(&y["items"]));
                if ia.len() != ib.len() {
                    return format!("number of items differs ({} expected, {} read)", ia.len(), ib.len());
                }
                for (p, q) in ia.iter().zip(ib.iter()) {
                    if p != q {
                        return format!("in item: {}", diff_phrase(p, q));
                    }
                }
            }
            _ => {
                if x["bot"] != y["bot"] {
                    return "pixel data offset table differs".into();
                }
                if j_arr(&x["frags"]).len() != j_arr(&y["frags"]).len() {
                    return format!(
                        "number of pixel fragments differs ({} expected, {} read)",
                        j_arr(&x["frags"]).len(),
                        j_arr(&y["frags"]).len()
                    );
                }
                if y.get("vr").is_some() {
                    return "encapsulated pixel data VR is not OB".into();
                }
                return "pixel fragment content differs".into();
            }
        }
    }
    "differs".into()
}

struct Ctx {
    rep: Report,
    streams: Vec<Value>,
    seen: HashSet<Vec<u8>>,
    n_writes: u64,
    n_reads: u64,
    n_equal_streams: u64,
    n_logged: u64,
    sample: u64,
    drift: u64,
    drift_first: Option<Value>,
    props: HashSet<String>,
}

impl Ctx {
    fn has(&self, p: &str) -> bool {
        self.props.contains(p)
    }
    fn log_stream(&mut self, src: &str, ts: &str, st: Strat, ds: &Value, bytes: &[u8], equal_to_wire: bool) {
        if !self.has("C04") {
            return;
        }
        let mut key = bytes.to_vec();
        key.extend_from_slice(ts.as_bytes());
        key.extend_from_slice(ds.to_string().as_bytes());
        if !self.seen.insert(key) {
            return;
        }
        if equal_to_wire {
            self.n_equal_streams += 1;
            if self.sample == 0 || self.n_equal_streams % self.sample != 0 {
                return;
            }
        }
        self.n_logged += 1;
        self.streams
            .push(json!({"ev": "stream", "src": src, "ts": ts, "st": st.name(), "ds": ds, "bytes": bytes_json(bytes)}));
    }
}

fn replay_case(cx: &mut Ctx, c: &Value) {
    let ts0 = j_str(&c["ts"]);
    let ds = &c["ds"];
    let rb = &c["rb"];
    let wire_u = j_bytes(&c["wireU"]);
    let wire_k = j_bytes(&c["wireK"]);
    let mem = c["mem"].as_bool().unwrap();
    let allu = c["allu"].as_bool().unwrap();
    let sh = shape(ds);
    let selftest = std::env::var("VERIF_SELFTEST").ok();

    // ---------- C02: canonical stream (from the specification) -> read -> write back
    let canon = read_obj(&wire_k, ts0);
    cx.n_reads += 1;
    match &canon {
        Err(e) => {
            if cx.has("C02") || cx.has("C01") {
                let p = if cx.has("C02") { "C02" } else { "C01" };
                cx.rep.mismatch(json!({"prop": p, "fp": format!("{ts0}: reading a canonical stream fails ({}; {})", sh, &e[..e.len().min(60)]),
                    "case": c, "error": e}));
            }
        }
        Ok(obj) => {
            let got = project_obj(obj);
            if &got != rb && (cx.has("C02") || cx.has("C01")) {
                let p = if cx.has("C02") { "C02" } else { "C01" };
                cx.rep.mismatch(json!({"prop": p, "fp": format!("{ts0}: canonical stream read differs: {} ({})", diff_phrase(rb, &got), sh),
                    "case": c, "got": got}));
            }
            if cx.has("C02") {
                let mut sts = vec![Strat::K];
                if allu {
                    sts.push(Strat::Default);
                    sts.push(Strat::U);
                }
                for st in sts {
                    cx.n_writes += 1;
                    match write_obj(obj, ts0, st) {
                        Err(e) => cx.rep.mismatch(json!({"prop": "C02", "fp": format!("{ts0}: rewriting a canonical stream fails ({}; strategy {})", sh, st.name()),
                            "case": c, "error": e})),
                        Ok(mut b) => {
                            if selftest.as_deref() == Some("c02-bytes") && b.len() > 40 {
                                b[20] ^= 1;
                            }
                            if b != wire_k {
                                cx.rep.mismatch(json!({"prop": "C02",
                                    "fp": format!("{ts0}: read + rewrite (strategy {}) does not reproduce the canonical stream ({})", st.name(), sh),
                                    "case": c, "got_bytes": bytes_json(&b)}));
                            }
                        }
                    }
                }
            }
        }
    }
    if !(cx.has("C01") || cx.has("C04")) {
        return;
    }

    // ---------- C01 / C04: objects (built in memory, and obtained by reading) -> write -> read
    let mut objs: Vec<(&str, InMemDicomObject)> = Vec::new();
    if mem {
        objs.push(("mem", build_obj(ds, Form::Plain)));
        let dss = ds.to_string();
        if dss.contains("\"P\"") && c["sweep"] == "vr" {
            objs.push(("mem-alt", build_obj(ds, Form::Alt)));
        }
        if dss.contains("\"typed\"") {
            objs.push(("mem-typed", build_obj(ds, Form::Typed)));
        }
    }
    if let Ok(o) = canon {
        objs.push(("read", o));
    }
    let tss: Vec<&str> = if ts0 == "EVRLE" { vec!["EVRLE", "DEFL"] } else { vec![ts0] };
    for (src, obj) in &objs {
        for ts in &tss {
            for st in [Strat::Default, Strat::U, Strat::K] {
                cx.n_writes += 1;
                let label = format!("{src}/{ts}/{}", st.name());
                let raw = match write_obj(obj, ts, st) {
                    Err(e) => {
                        if cx.has("C01") {
                            let what = if e.starts_with("panic") { "panics" } else { "fails" };
                            cx.rep.mismatch(json!({"prop": "C01", "fp": format!("{ts}: writing {what} ({}; strategy {})", sh, st.name()),
                                "case": c, "via": label, "error": e}));
                        }
                        continue;
                    }
                    Ok(b) => b,
                };
                // the stream as PS3.5 syntax: deflated output is inflated first
                let plain = if *ts == "DEFL" {
                    match inflate(&raw) {
                        Ok(p) => p,
                        Err(e) => {
                            if cx.has("C01") {
                                cx.rep.mismatch(json!({"prop": "C01",
                                    "fp": format!("DEFL: written stream is not a deflate stream (strategy {})", st.name()),
                                    "case": c, "via": label, "error": e, "got_bytes": bytes_json(&raw[..raw.len().min(64)])}));
                            }
                            continue;
                        }
                    }
                } else {
                    raw.clone()
                };
                let expect = if st == Strat::K { &wire_k } else { &wire_u };
                let equal = &plain == expect;
                if !equal {
                    cx.drift += 1;
                    if cx.drift_first.is_none() {
                        cx.drift_first = Some(json!({"via": label, "shape": sh, "case": c, "got_bytes": bytes_json(&plain)}));
                    }
                }
                let mut logged = plain.clone();
                if selftest.as_deref() == Some("c04-pad") && logged.last() == Some(&b' ') {
                    let n = logged.len();
                    logged[n - 1] = 0;
                }
                cx.log_stream(&label, if *ts == "DEFL" { "EVRLE" } else { ts }, st, ds, &logged, equal && logged == plain);
                if !cx.has("C01") {
                    continue;
                }
                // read back with the same transfer syntax (through the real adapter for deflate)
                cx.n_reads += 1;
                match read_obj(&raw, ts) {
                    Err(e) => cx.rep.mismatch(json!({"prop": "C01",
                        "fp": format!("{ts}: reading back what was written fails ({}; strategy {})", sh, st.name()),
                        "case": c, "via": label, "error": e, "written": bytes_json(&plain)})),
                    Ok(o2) => {
                        let mut got = project_obj(&o2);
                        if selftest.as_deref() == Some("c01-rb") && got.to_string().contains("\"DS\"") {
                            got = json!([]);
                        }
                        if &got != rb {
                            cx.rep.mismatch(json!({"prop": "C01",
                                "fp": format!("{ts}: round trip differs: {} ({}; strategy {})", diff_phrase(rb, &got), sh, st.name()),
                                "case": c, "via": label, "got": got, "written": bytes_json(&plain)}));
                        }
                    }
                }
            }
        }
    }
}

fn run_replay(a: &std::collections::HashMap<String, String>) {
    let cases = read_ndjson(a.get("cases").expect("--cases"));
    let out = a.get("out").expect("--out");
    std::fs::create_dir_all(out).unwrap();
    let props: HashSet<String> =
        a.get("props").map(|s| s.as_str()).unwrap_or("C01,C02,C04").split(',').map(|s| s.to_string()).collect();
    let sample: u64 = a.get("sample").and_then(|s| s.parse().ok()).unwrap_or(0);
    let nthreads: usize = a.get("threads").and_then(|s| s.parse().ok()).unwrap_or(4).max(1);
    // cases are independent: worker t takes the cases with index = t (mod nthreads)
    let parts: Vec<Ctx> = std::thread::scope(|sc| {
        let hs: Vec<_> = (0..nthreads)
            .map(|t| {
                let cases = &cases;
                let props = props.clone();
                sc.spawn(move || {
                    let mut cx = Ctx {
                        rep: Report::new(),
                        streams: Vec::new(),
                        seen: HashSet::new(),
                        n_writes: 0,
                        n_reads: 0,
                        n_equal_streams: 0,
                        n_logged: 0,
                        sample,
                        drift: 0,
                        drift_first: None,
                        props,
                    };
                    cx.rep.cap = 400;
                    for (i, c) in cases.iter().enumerate() {
                        if i % nthreads != t {
                            continue;
                        }
                        cx.rep.cases += 1;
                        replay_case(&mut cx, c);
                    }
                    cx
                })
            })
            .collect();
        hs.into_iter().map(|h| h.join().expect("worker thread")).collect()
    });
    let mut rep = Report::new();
    rep.cap = 400;
    let mut w = NdjsonWriter::create(&format!("{out}/streams.ndjson"));
    let (mut n_writes, mut n_reads, mut n_equal_streams, mut n_logged, mut drift) = (0u64, 0u64, 0u64, 0u64, 0u64);
    let mut drift_first: Option<Value> = None;
    for cx in parts {
        rep.cases += cx.rep.cases;
        rep.mismatch_count += cx.rep.mismatch_count;
        for m in cx.rep.mismatches {
            if rep.mismatches.len() < rep.cap {
                rep.mismatches.push(m);
            }
        }
        for e in &cx.streams {
            w.emit(e);
        }
        n_writes += cx.n_writes;
        n_reads += cx.n_reads;
        n_equal_streams += cx.n_equal_streams;
        n_logged += cx.n_logged;
        drift += cx.drift;
        if drift_first.is_none() {
            drift_first = cx.drift_first;
        }
    }
    w.finish();
    rep.extra.insert("writes".into(), json!(n_writes));
    rep.extra.insert("reads".into(), json!(n_reads));
    rep.extra.insert("streams_equal_to_wire".into(), json!(n_equal_streams));
    rep.extra.insert("streams_logged".into(), json!(n_logged));
    rep.extra.insert("streams_path".into(), json!(format!("{out}/streams.ndjson")));
    rep.extra.insert("drift".into(), json!(drift));
    rep.extra.insert("drift_first".into(), drift_first.unwrap_or(Value::Null));
    rep.print();
}

// ------------------------------------------------------------------ random data sets

const STD_TAGS: &[(&str, u16)] = &[
    ("AE", 0x5E), ("AS", 0x5F), ("AT", 0x60), ("DA", 0x61), ("CS", 0x62), ("DT", 0x63), ("IS", 0x64), ("OB", 0x65),
    ("LO", 0x66), ("OF", 0x67), ("LT", 0x68), ("OW", 0x69), ("PN", 0x6A), ("TM", 0x6B), ("SH", 0x6C), ("UN", 0x6D),
    ("ST", 0x6E), ("UC", 0x6F), ("UT", 0x70), ("UR", 0x71), ("DS", 0x72), ("OD", 0x73), ("FD", 0x74), ("OL", 0x75),
    ("FL", 0x76), ("UL", 0x78), ("US", 0x7A), ("SL", 0x7C), ("SS", 0x7E), ("UI", 0x7F), ("OV", 0x81), ("SV", 0x82),
    ("UV", 0x83),
];
const SQ_TAGS: &[(u16, u16)] = &[(0x0008, 0x1115), (0x0008, 0x1140), (0x0040, 0x0275), (0x0072, 0x0080), (0x0088, 0x0200)];

fn digits(r: &mut Rng, n: usize) -> String {
    (0..n).map(|_| (b'0' + r.below(10) as u8) as char).collect()
}
fn digits_r(r: &mut Rng, lo: usize, hi: usize) -> String {
    let n = r.range(lo as i64, hi as i64) as usize;
    digits(r, n)
}
fn upper(r: &mut Rng, lo: usize, hi: usize) -> String {
    let n = r.range(lo as i64, hi as i64) as usize;
    (0..n).map(|_| (b'A' + r.below(26) as u8) as char).collect()
}

/// random value valid for the VR: (PrimitiveValue, abstract items).  For typed dates /
/// times / numbers the abstract text is the value's own text (the documented
/// "compare by their text" normalisation).
fn random_value(r: &mut Rng, vr: VR) -> (PrimitiveValue, Vec<Vec<u8>>) {
    let mult = if is_text_single(vr) { r.below(2) as usize } else { [0, 1, 1, 2, 3, 5][r.below(6) as usize] };
    if mult == 0 {
        return (PrimitiveValue::Empty, vec![]);
    }
    let typed = r.below(3) == 0;
    if typed {
        match vr {
            VR::DA => {
                let v: C<DicomDate> = (0..mult)
                    .map(|_| match r.below(3) {
                        0 => DicomDate::from_y(1900 + r.below(200) as u16).unwrap(),
                        1 => DicomDate::from_ym(1900 + r.below(200) as u16, 1 + r.below(12) as u8).unwrap(),
                        _ => DicomDate::from_ymd(1900 + r.below(200) as u16, 1 + r.below(12) as u8, 1 + r.below(28) as u8).unwrap(),
                    })
                    .collect();
                let items = v.iter().map(|d| d.to_encoded().into_bytes()).collect();
                return (PrimitiveValue::Date(v), items);
            }
            VR::TM => {
                let v: C<DicomTime> = (0..mult).map(|_| random_time(r)).collect();
                let items = v.iter().map(|d| d.to_encoded().into_bytes()).collect();
                return (PrimitiveValue::Time(v), items);
            }
            VR::DT => {
                let v: C<DicomDateTime> = (0..mult)
                    .map(|_| {
                        let d = DicomDate::from_ymd(1900 + r.below(200) as u16, 1 + r.below(12) as u8, 1 + r.below(28) as u8).unwrap();
                        if r.coin() {
                            DicomDateTime::from_date(d)
                        } else {
                            DicomDateTime::from_date_and_time(d, random_time(r)).unwrap()
                        }
                    })
                    .collect();
                let items = v.iter().map(|d| d.to_encoded().into_bytes()).collect();
                return (PrimitiveValue::DateTime(v), items);
            }
            VR::IS => {
                let v: C<i32> = (0..mult).map(|_| r.range(-99999, 99999) as i32).collect();
                let pv = PrimitiveValue::I32(v);
                let items = pv.to_multi_str().iter().map(|s| s.clone().into_bytes()).collect();
                return (pv, items);
            }
            VR::DS => {
                let v: C<f64> = (0..mult).map(|_| (r.range(-100000, 100000) as f64) / [1.0, 2.0, 4.0, 8.0, 10.0][r.below(5) as usize]).collect();
                let pv = PrimitiveValue::F64(v);
                let items = pv.to_multi_str().iter().map(|s| s.clone().into_bytes()).collect();
                return (pv, items);
            }
            _ => {}
        }
    }
    let items: Vec<Vec<u8>> = (0..mult)
        .map(|_| match vr {
            VR::AE | VR::CS | VR::SH => upper(r, 1, 12).into_bytes(),
            VR::LO | VR::UC => {
                let mut s = upper(r, 1, 10);
                if r.coin() {
                    s.push(' ');
                    s.push_str(&upper(r, 1, 10));
                }
                s.into_bytes()
            }
            VR::LT | VR::ST | VR::UT => {
                let mut s = upper(r, 1, 20);
                if r.below(4) == 0 {
                    s.push('\\');
                    s.push_str(&upper(r, 1, 5));
                }
                s.into_bytes()
            }
            VR::UR => format!("http://{}.example/{}", upper(r, 1, 6).to_lowercase(), digits_r(r, 0, 4)).into_bytes(),
            VR::AS => format!("{}{}", digits(r, 3), ["D", "W", "M", "Y"][r.below(4) as usize]).into_bytes(),
            VR::DA => format!("{:04}{:02}{:02}", 1900 + r.below(200), 1 + r.below(12), 1 + r.below(28)).into_bytes(),
            VR::TM => {
                let mut s = format!("{:02}", r.below(24));
                if r.coin() {
                    s.push_str(&format!("{:02}", r.below(60)));
                    if r.coin() {
                        s.push_str(&format!("{:02}", r.below(60)));
                        if r.coin() {
                            s.push('.');
                            s.push_str(&digits_r(r, 1, 6));
                        }
                    }
                }
                s.into_bytes()
            }
            VR::DT => {
                let mut s = format!("{:04}{:02}{:02}", 1900 + r.below(200), 1 + r.below(12), 1 + r.below(28));
                if r.coin() {
                    s.push_str(&format!("{:02}{:02}{:02}", r.below(24), r.below(60), r.below(60)));
                    if r.coin() {
                        s.push('.');
                        s.push_str(&digits_r(r, 1, 6));
                    }
                    if r.below(3) == 0 {
                        s.push_str(["+0100", "-0530", "+0000"][r.below(3) as usize]);
                    }
                }
                s.into_bytes()
            }
            VR::DS => {
                let mut s = format!("{}", r.range(-9999, 9999));
                if r.coin() {
                    s.push('.');
                    s.push_str(&digits_r(r, 1, 4));
                }
                s.into_bytes()
            }
            VR::IS => format!("{}", r.range(-999999, 999999)).into_bytes(),
            VR::PN => {
                let mut s = upper(r, 1, 8);
                for _ in 0..r.below(3) {
                    s.push('^');
                    s.push_str(&upper(r, 0, 6));
                }
                // a trailing component separator is not padding, but keep values free of
                // anything a reader may legitimately strip
                while s.ends_with('^') {
                    s.pop();
                }
                s.into_bytes()
            }
            VR::UI => {
                let mut s = format!("1.2.{}", r.below(1000));
                for _ in 0..r.below(5) {
                    s.push_str(&format!(".{}", r.below(100000)));
                }
                s.into_bytes()
            }
            VR::OB | VR::UN => vec![r.next_u64() as u8],
            VR::US | VR::SS | VR::OW => r.bytes(2),
            VR::UL | VR::SL | VR::OL | VR::AT => r.bytes(4),
            VR::FL | VR::OF => {
                // any non-NaN bit pattern
                let mut b = r.bytes(4);
                if b[0] & 0x7F == 0x7F && b[1] & 0x80 != 0 {
                    b[0] &= 0xBF;
                }
                b
            }
            VR::FD | VR::OD => {
                let mut b = r.bytes(8);
                if b[0] & 0x7F == 0x7F && b[1] & 0xF0 == 0xF0 {
                    b[0] &= 0xBF;
                }
                b
            }
            VR::UV | VR::SV | VR::OV => r.bytes(8),
            _ => panic!("no generator for {vr}"),
        })
        .collect();
    // OB/UN: "multiplicity" is the number of bytes; allow longer byte strings
    let items = if matches!(vr, VR::OB | VR::UN) && r.coin() {
        (0..r.below(40) as usize + 1).map(|_| vec![r.next_u64() as u8]).collect()
    } else {
        items
    };
    (build_value(vr, &items, false), items)
}

fn random_time(r: &mut Rng) -> DicomTime {
    match r.below(4) {
        0 => DicomTime::from_h(r.below(24) as u8).unwrap(),
        1 => DicomTime::from_hm(r.below(24) as u8, r.below(60) as u8).unwrap(),
        2 => DicomTime::from_hms(r.below(24) as u8, r.below(60) as u8, r.below(60) as u8).unwrap(),
        _ => DicomTime::from_hms_micro(r.below(24) as u8, r.below(60) as u8, r.below(60) as u8, r.below(1_000_000) as u32).unwrap(),
    }
}

/// random data set: (object, abstract form).  Items and sequences are undefined length
/// (in-memory objects cannot record item lengths); sequences occasionally carry an
/// explicit length, which only TLC can compute, so they stay undefined here.
fn random_ds(r: &mut Rng, depth: usize, top: bool) -> (InMemDicomObject, Value) {
    let n = r.below(if top { 9 } else { 4 }) as usize + if top { 1 } else { 0 };
    let mut used: HashSet<Tag> = HashSet::new();
    let mut elems: Vec<(Tag, InMemElement, Value)> = Vec::new();
    for _ in 0..n {
        let kind = r.below(10);
        if kind < 2 && depth > 0 {
            let t = *r.pick(SQ_TAGS);
            let tag = Tag(t.0, t.1);
            if !used.insert(tag) {
                continue;
            }
            let ni = r.below(4) as usize;
            let mut objs = Vec::new();
            let mut abs = Vec::new();
            for _ in 0..ni {
                let (o, a) = random_ds(r, depth - 1, false);
                objs.push(o);
                abs.push(json!({"lm": "U", "ds": a}));
            }
            let e = DataElement::new(tag, VR::SQ, DValue::Sequence(DataSetSequence::from(objs)));
            elems.push((tag, e, json!({"k": "S", "tag": [tag.0, tag.1], "lm": "U", "items": abs})));
        } else {
            let (vrs, el) = *r.pick(STD_TAGS);
            let vr = VR::from_str(vrs).unwrap();
            // standard tag of that VR, or a private tag (odd group)
            let tag = if r.below(4) == 0 { Tag(0x0009 + 2 * r.below(3) as u16, 0x1000 + r.below(0x100) as u16) } else { Tag(0x0072, el) };
            if !used.insert(tag) {
                continue;
            }
            let (pv, items) = random_value(r, vr);
            let e = DataElement::new(tag, vr, DValue::Primitive(pv));
            let v: Vec<Value> = items.iter().map(|b| bytes_json(b)).collect();
            elems.push((tag, e, json!({"k": "P", "tag": [tag.0, tag.1], "vr": vrs, "v": v})));
        }
    }
    if top && r.below(4) == 0 {
        let tag = Tag(0x7FE0, 0x0010);
        let nf = r.below(4) as usize;
        let frags: Vec<Vec<u8>> = (0..nf).map(|_| { let k = 2 * (1 + r.below(8) as usize); r.bytes(k) }).collect();
        let bot: Vec<u32> = if r.coin() { vec![] } else { (0..r.below(3) + 1).map(|i| (i * 24) as u32).collect() };
        let e = DataElement::new(
            tag,
            VR::OB,
            DValue::PixelSequence(PixelFragmentSequence::new(bot.iter().copied().collect::<C<u32>>(), frags.iter().cloned().collect::<C<Vec<u8>>>())),
        );
        elems.push((
            tag,
            e,
            json!({"k": "X", "tag": [tag.0, tag.1],
                   "bot": bot.iter().map(|o| bytes_json(&o.to_be_bytes())).collect::<Vec<_>>(),
                   "frags": frags.iter().map(|f| bytes_json(f)).collect::<Vec<_>>()}),
        ));
    }
    elems.sort_by_key(|x| x.0);
    let abs: Vec<Value> = elems.iter().map(|x| x.2.clone()).collect();
    let obj = InMemDicomObject::from_element_iter(elems.into_iter().map(|x| x.1));
    (obj, Value::Array(abs))
}

fn run_random(a: &std::collections::HashMap<String, String>) {
    let n: usize = a.get("n").and_then(|s| s.parse().ok()).unwrap_or(100);
    let out = a.get("out").expect("--out");
    std::fs::create_dir_all(out).unwrap();
    let mut r = Rng::new(seed_from_env() ^ 0xC01);
    let mut w = NdjsonWriter::create(&format!("{out}/random.ndjson"));
    let mut rep = Report::new();
    let mut bytes_total = 0usize;
    let selftest = std::env::var("VERIF_SELFTEST").ok();
    for i in 0..n {
        rep.cases += 1;
        let (obj, abs) = random_ds(&mut r, 4, true);
        let ts = ["IVRLE", "EVRLE", "EVRBE", "DEFL"][i % 4];
        let st = [Strat::Default, Strat::U, Strat::K][(i / 4) % 3];
        let lts = if ts == "DEFL" { "EVRLE" } else { ts };
        match write_obj(&obj, ts, st) {
            Err(e) => {
                w.emit(&json!({"ev": "rt", "ts": lts, "real_ts": ts, "st": st.name(), "ds": abs, "write": e}));
            }
            Ok(raw) => {
                let plain = if ts == "DEFL" {
                    match inflate(&raw) {
                        Ok(p) => p,
                        Err(e) => {
                            w.emit(&json!({"ev": "rt", "ts": lts, "real_ts": ts, "st": st.name(), "ds": abs, "write": format!("not deflate: {e}")}));
                            continue;
                        }
                    }
                } else {
                    raw.clone()
                };
                bytes_total += plain.len();
                let mut rb = match read_obj(&raw, ts) {
                    Ok(o) => json!({"ok": project_obj(&o)}),
                    Err(e) => json!({"err": e}),
                };
                if selftest.as_deref() == Some("rt-rb") && i == 7 {
                    rb = json!({"ok": []});
                }
                w.emit(&json!({"ev": "rt", "ts": lts, "real_ts": ts, "st": st.name(), "ds": abs, "write": "ok",
                               "bytes": bytes_json(&plain), "rb": rb}));
            }
        }
    }
    let ev = w.finish();
    rep.extra.insert("events".into(), json!(ev));
    rep.extra.insert("bytes_total".into(), json!(bytes_total));
    rep.extra.insert("path".into(), json!(format!("{out}/random.ndjson")));
    rep.print();
}

// ------------------------------------------------------------------ byte-count accounting

struct CountingWriter {
    data: Vec<u8>,
}
impl std::io::Write for CountingWriter {
    fn write(&mut self, b: &[u8]) -> std::io::Result<usize> {
        self.data.extend_from_slice(b);
        Ok(b.len())
    }
    fn flush(&mut self) -> std::io::Result<()> {
        Ok(())
    }
}

fn run_prims(a: &std::collections::HashMap<String, String>) {
    let cases = read_ndjson(a.get("cases").expect("--cases"));
    let out = a.get("out").expect("--out");
    std::fs::create_dir_all(out).unwrap();
    let mut w = NdjsonWriter::create(&format!("{out}/prims.ndjson"));
    let mut rep = Report::new();
    let mut seen: HashSet<String> = HashSet::new();
    let selftest = std::env::var("VERIF_SELFTEST").ok();
    let mut r = Rng::new(seed_from_env() ^ 0xC04);
    // (ts, vr, items, tag): the VR sweep values from TLC plus random values
    let mut inputs: Vec<(String, VR, Vec<Vec<u8>>, Tag, PrimitiveValue)> = Vec::new();
    for c in &cases {
        let ds = j_arr(&c["ds"]);
        if ds.len() != 1 || ds[0]["k"] != "P" {
            continue;
        }
        let e = &ds[0];
        let key = format!("{}{}{}{}", c["ts"], e["vr"], e["v"], e.get("typed").is_some());
        if !seen.insert(key) {
            continue;
        }
        let vr = VR::from_str(j_str(&e["vr"])).unwrap();
        // typed dates/times in their typed in-memory form, everything else in the plain form
        let pv = build_elem_value(e, vr, if e.get("typed").is_some() { Form::Typed } else { Form::Plain });
        inputs.push((j_str(&c["ts"]).to_string(), vr, items_of(&e["v"]), tag_of(&e["tag"]), pv));
    }
    let nrand: usize = a.get("n").and_then(|s| s.parse().ok()).unwrap_or(300);
    for i in 0..nrand {
        let (vrs, el) = *r.pick(STD_TAGS);
        let vr = VR::from_str(vrs).unwrap();
        let (pv, items) = random_value(&mut r, vr);
        // only forms whose abstract items determine the PrimitiveValue
        // binary numbers in IS/DS are turned into text only by the stateful encoder: their
        // abstract text does not describe what Encode::encode_primitive writes
        if matches!(pv, PrimitiveValue::I32(_) | PrimitiveValue::F64(_)) && is_text(vr) {
            continue;
        }
        inputs.push((["IVRLE", "EVRLE", "EVRBE"][i % 3].to_string(), vr, items, Tag(0x0072, el), pv));
    }
    for (ts, vr, items, tag, pv) in &inputs {
        rep.cases += 1;
        let v: Vec<Value> = items.iter().map(|b| bytes_json(b)).collect();
        // 1. Encode::encode_primitive: reported count vs bytes written
        let res = catch(|| {
            let mut cw = CountingWriter { data: Vec::new() };
            let r = match ts.as_str() {
                "IVRLE" => ImplicitVRLittleEndianEncoder::default().encode_primitive(&mut cw, pv),
                "EVRLE" => ExplicitVRLittleEndianEncoder::default().encode_primitive(&mut cw, pv),
                _ => ExplicitVRBigEndianEncoder::default().encode_primitive(&mut cw, pv),
            };
            (r.map_err(|e| e.to_string()), cw.data)
        });
        match res {
            Err(p) => w.emit(&json!({"ev": "prim", "ts": ts, "vr": vr.to_string(), "v": v, "res": format!("panic: {p}")})),
            Ok((Err(e), _)) => w.emit(&json!({"ev": "prim", "ts": ts, "vr": vr.to_string(), "v": v, "res": format!("err: {e}")})),
            Ok((Ok(n), data)) => {
                let mut reported = n;
                if selftest.as_deref() == Some("prim-count") && *vr == VR::AT && items.len() == 2 {
                    reported += 1;
                }
                w.emit(&json!({"ev": "prim", "ts": ts, "vr": vr.to_string(), "v": v, "res": "ok",
                               "reported": reported, "written": data.len(), "bytes": bytes_json(&data),
                               "calclen": pv.calculate_byte_len()}));
            }
        }
        // 2. StatefulEncoder::encode_primitive_element: bytes_written vs output
        let hdr = dicom_core::DataElementHeader::new(*tag, *vr, pv.length());
        let res = catch(|| {
            let mut data: Vec<u8> = Vec::new();
            let (r, counted) = {
                macro_rules! go {
                    ($enc:expr) => {{
                        let mut se = StatefulEncoder::new(&mut data, EncoderFor::new($enc), SpecificCharacterSet::default());
                        let r = se.encode_primitive_element(&hdr, pv).map_err(|e| e.to_string());
                        (r, se.bytes_written())
                    }};
                }
                match ts.as_str() {
                    "IVRLE" => go!(ImplicitVRLittleEndianEncoder::default()),
                    "EVRLE" => go!(ExplicitVRLittleEndianEncoder::default()),
                    _ => go!(ExplicitVRBigEndianEncoder::default()),
                }
            };
            (r, counted, data)
        });
        match res {
            Err(p) => w.emit(&json!({"ev": "elem", "ts": ts, "tag": [tag.0, tag.1], "vr": vr.to_string(), "v": v, "res": format!("panic: {p}")})),
            Ok((Err(e), _, _)) => w.emit(&json!({"ev": "elem", "ts": ts, "tag": [tag.0, tag.1], "vr": vr.to_string(), "v": v, "res": format!("err: {e}")})),
            Ok((Ok(()), counted, data)) => w.emit(&json!({"ev": "elem", "ts": ts, "tag": [tag.0, tag.1], "vr": vr.to_string(), "v": v, "res": "ok",
                               "counted": counted, "written": data.len(), "bytes": bytes_json(&data)})),
        }
    }
    let ev = w.finish();
    rep.extra.insert("events".into(), json!(ev));
    rep.extra.insert("path".into(), json!(format!("{out}/prims.ndjson")));
    rep.print();
}

// ------------------------------------------------------------------ whole files

fn run_files(a: &std::collections::HashMap<String, String>) {
    let cases = read_ndjson(a.get("cases").expect("--cases"));
    let out = a.get("out").expect("--out");
    let step: usize = a.get("step").and_then(|s| s.parse().ok()).unwrap_or(1);
    std::fs::create_dir_all(out).unwrap();
    let mut w = NdjsonWriter::create(&format!("{out}/files.ndjson"));
    let mut rep = Report::new();
    let selftest = std::env::var("VERIF_SELFTEST").ok();
    for (i, c) in cases.iter().enumerate() {
        if i % step != 0 || !c["mem"].as_bool().unwrap() {
            continue;
        }
        let ts0 = j_str(&c["ts"]);
        // group-0002 style and command elements do not belong in a file's data set
        let tss: Vec<&str> = if ts0 == "EVRLE" && (i / step) % 2 == 0 { vec!["EVRLE", "DEFL"] } else { vec![ts0] };
        for ts in tss {
            rep.cases += 1;
            let obj = build_obj(&c["ds"], Form::Plain);
            let res = catch(|| {
                let fo = obj
                    .with_meta(
                        FileMetaTableBuilder::new()
                            .transfer_syntax(ts_uid(ts))
                            .media_storage_sop_class_uid("1.2.840.10008.5.1.4.1.1.7")
                            .media_storage_sop_instance_uid("1.2.3.4.5"),
                    )
                    .map_err(|e| e.to_string())?;
                let mut out: Vec<u8> = Vec::new();
                fo.write_all(&mut out).map_err(|e| format!("{e}: {e:?}"))?;
                Ok::<_, String>(out)
            });
            let lts = if ts == "DEFL" { "EVRLE" } else { ts };
            match res {
                Err(p) => w.emit(&json!({"ev": "file", "ts": lts, "real_ts": ts, "ds": c["ds"], "res": format!("panic: {p}")})),
                Ok(Err(e)) => w.emit(&json!({"ev": "file", "ts": lts, "real_ts": ts, "ds": c["ds"], "res": format!("err: {e}")})),
                Ok(Ok(mut bytes)) => {
                    if ts == "DEFL" {
                        // locate the end of the meta group from its own group length, then inflate the rest
                        if bytes.len() >= 144 {
                            let gl = u32::from_le_bytes([bytes[140], bytes[141], bytes[142], bytes[143]]) as usize;
                            let cut = 144 + gl;
                            if cut <= bytes.len() {
                                match inflate(&bytes[cut..]) {
                                    Ok(p) => {
                                        bytes.truncate(cut);
                                        bytes.extend_from_slice(&p);
                                    }
                                    Err(e) => {
                                        w.emit(&json!({"ev": "file", "ts": lts, "real_ts": ts, "ds": c["ds"], "res": format!("err: data set is not a deflate stream: {e}")}));
                                        continue;
                                    }
                                }
                            }
                        }
                    }
                    if selftest.as_deref() == Some("file-magic") && rep.cases == 3 {
                        bytes[130] = b'X';
                    }
                    w.emit(&json!({"ev": "file", "ts": lts, "real_ts": ts, "ds": c["ds"], "res": "ok", "bytes": bytes_json(&bytes)}));
                }
            }
        }
    }
    let ev = w.finish();
    rep.extra.insert("events".into(), json!(ev));
    rep.extra.insert("path".into(), json!(format!("{out}/files.ndjson")));
    rep.print();
}

// ------------------------------------------------------------------ token replay (DataSetWriter.tla)

fn len4(v: &Value) -> Length {
    let b = j_bytes(v);
    Length(u32::from_be_bytes([b[0], b[1], b[2], b[3]]))
}

/// abstract tokens of DataSetWriter.tla -> DataToken
fn build_tokens(toks: &Value) -> Vec<DataToken> {
    let a = j_arr(toks);
    let mut out = Vec::new();
    let mut last_vr = VR::UN;
    for (i, t) in a.iter().enumerate() {
        match j_str(&t["t"]) {
            "SeqStart" => out.push(DataToken::SequenceStart { tag: tag_of(&t["tag"]), len: len4(&t["len"]) }),
            "ItemStart" => out.push(DataToken::ItemStart { len: len4(&t["len"]) }),
            "ItemEnd" => out.push(DataToken::ItemEnd),
            "SeqEnd" => out.push(DataToken::SequenceEnd),
            "PixStart" => out.push(DataToken::PixelSequenceStart),
            "Header" => {
                let vr = VR::from_str(j_str(&t["vr"])).unwrap();
                last_vr = vr;
                // the header token carries the in-memory value length, as DataElement::new computes it
                let pv = build_value(vr, &items_of(&a[i + 1]["v"]), false);
                out.push(DataToken::ElementHeader(dicom_core::DataElementHeader::new(tag_of(&t["tag"]), vr, pv.length())));
            }
            "Value" => out.push(DataToken::PrimitiveValue(build_value(last_vr, &items_of(&t["v"]), false))),
            "OffsetTable" => out.push(DataToken::OffsetTable(
                j_arr(&t["bot"])
                    .iter()
                    .map(|b| {
                        let b = j_bytes(b);
                        u32::from_be_bytes([b[0], b[1], b[2], b[3]])
                    })
                    .collect(),
            )),
            "ItemValue" => out.push(DataToken::ItemValue(j_bytes(&t["data"]))),
            k => panic!("bad token kind {k}"),
        }
    }
    out
}

fn run_tokens(a: &std::collections::HashMap<String, String>) {
    let cases = read_ndjson(a.get("cases").expect("--cases"));
    let out = a.get("out").expect("--out");
    std::fs::create_dir_all(out).unwrap();
    let mut w = NdjsonWriter::create(&format!("{out}/tstreams.ndjson"));
    let mut rep = Report::new();
    let mut kinds: std::collections::BTreeMap<String, u64> = Default::default();
    let (mut equal, mut drift, mut drift_kept) = (0u64, 0u64, 0u64);
    let mut drift_first = Value::Null;
    let selftest = std::env::var("VERIF_SELFTEST").ok();
    for c in &cases {
        rep.cases += 1;
        let ts = j_str(&c["ts"]);
        let st = j_str(&c["strat"]);
        for t in j_arr(&c["toks"]) {
            *kinds.entry(j_str(&t["t"]).to_string()).or_insert(0) += 1;
        }
        let tokens = build_tokens(&c["toks"]);
        let res = catch(|| {
            let mut buf: Vec<u8> = Vec::new();
            let o = DataSetWriterOptions::default().explicit_length_sq_item_strategy(if st == "U" {
                ExplicitLengthSqItemStrategy::SetUndefined
            } else {
                ExplicitLengthSqItemStrategy::NoChange
            });
            let r = {
                let mut wr = DataSetWriter::with_ts_options(&mut buf, ts_of(ts), o).map_err(|e| e.to_string())?;
                wr.write_sequence(tokens).map_err(|e| format!("{e}: {e:?}"))
            };
            r.map(|_| buf)
        });
        match res {
            Err(p) => rep.mismatch(json!({"prop": "C01", "fp": format!("{ts}: DataSetWriter panics on an object's token stream (strategy {st})"), "case": c, "error": p})),
            Ok(Err(e)) => rep.mismatch(json!({"prop": "C01", "fp": format!("{ts}: DataSetWriter fails on an object's token stream (strategy {st})"), "case": c, "error": e})),
            Ok(Ok(mut b)) => {
                if selftest.as_deref() == Some("tok-delim") && st == "U" && b.len() > 30 {
                    let n = b.len();
                    b.truncate(n - 8);
                }
                if b == j_bytes(&c["out"]) {
                    equal += 1;
                } else {
                    drift += 1;
                    if c["kept"].as_bool().unwrap() {
                        drift_kept += 1;
                    }
                    if drift_first.is_null() {
                        drift_first = json!({"case": c, "got_bytes": bytes_json(&b)});
                    }
                    // property level: let TLC judge the stream
                    w.emit(&json!({"ev": "stream", "src": format!("tokens/{st}"), "ts": ts, "st": st, "ds": c["ds"], "bytes": bytes_json(&b)}));
                }
            }
        }
    }
    let ev = w.finish();
    rep.extra.insert("equal".into(), json!(equal));
    rep.extra.insert("drift".into(), json!(drift));
    rep.extra.insert("drift_kept".into(), json!(drift_kept));
    rep.extra.insert("drift_first".into(), drift_first);
    rep.extra.insert("token_kinds".into(), json!(kinds));
    rep.extra.insert("streams_logged".into(), json!(ev));
    rep.extra.insert("streams_path".into(), json!(format!("{out}/tstreams.ndjson")));
    rep.print();
}

// ------------------------------------------------------------------ edits of objects read with recorded lengths (ObjectEdit.tla)

const TAG_B: Tag = Tag(0x0008, 0x1115);
const TAG_C: Tag = Tag(0x0028, 0x0010);
const TAG_NEW: Tag = Tag(0x0028, 0x0011);

fn u16s(v: &[u16]) -> PrimitiveValue {
    PrimitiveValue::U16(v.iter().copied().collect())
}

/// nested update_value closures down to the object at `hops`, then `leaf` on it
fn chain(obj: &mut InMemDicomObject, hops: &[(Tag, u32)], leaf: &mut dyn FnMut(&mut InMemDicomObject)) {
    match hops.split_first() {
        None => leaf(obj),
        Some(((tag, item), rest)) => {
            obj.update_value(*tag, |v| {
                let items = v.items_mut().expect("sequence on the path");
                chain(&mut items[*item as usize], rest, leaf);
            });
        }
    }
}

fn apply_edit(obj: &mut InMemDicomObject, hops: &[(Tag, u32)], api: &str, edit: &str) -> Result<(), String> {
    use dicom_core::ops::{ApplyOp, AttributeAction, AttributeOp, AttributeSelector, AttributeSelectorStep};
    let sel = |extra: &[(Tag, u32)], leaf: Tag| {
        let mut steps: Vec<AttributeSelectorStep> =
            hops.iter().chain(extra.iter()).map(|(t, i)| AttributeSelectorStep::Nested { tag: *t, item: *i }).collect();
        steps.push(AttributeSelectorStep::Tag(leaf));
        AttributeSelector::new(steps).expect("selector")
    };
    match (api, edit) {
        ("apply", "set-new") => obj.apply(AttributeOp::new(sel(&[], TAG_NEW), AttributeAction::Set(u16s(&[0x0304])))).map_err(|e| e.to_string()),
        ("apply", "set-longer") => {
            obj.apply(AttributeOp::new(sel(&[], TAG_C), AttributeAction::Set(u16s(&[0x0102, 0x0304])))).map_err(|e| e.to_string())
        }
        ("apply", "remove") => obj.apply(AttributeOp::new(sel(&[], TAG_C), AttributeAction::Remove)).map_err(|e| e.to_string()),
        // the sequence (0008,1115) of every base object holds one item: item index 1 is the next one
        ("apply", "add-item") => obj.apply(AttributeOp::new(sel(&[(TAG_B, 1)], TAG_C), AttributeAction::Set(u16s(&[0x0102])))).map_err(|e| e.to_string()),
        ("apply", "truncate") => obj.apply(AttributeOp::new(sel(&[], TAG_B), AttributeAction::Truncate(0))).map_err(|e| e.to_string()),
        ("at", "set-longer") => obj
            .update_value_at(sel(&[], TAG_C), |v| *v = DValue::Primitive(u16s(&[0x0102, 0x0304])))
            .map_err(|e| e.to_string()),
        ("chain", _) => {
            let mut leaf: Box<dyn FnMut(&mut InMemDicomObject)> = match edit {
                "set-new" => Box::new(|o| {
                    o.put(DataElement::new(TAG_NEW, VR::US, DValue::Primitive(u16s(&[0x0304]))));
                }),
                "set-longer" => Box::new(|o| {
                    o.put(DataElement::new(TAG_C, VR::US, DValue::Primitive(u16s(&[0x0102, 0x0304]))));
                }),
                "remove" => Box::new(|o| {
                    o.remove_element(TAG_C);
                }),
                "add-item" => Box::new(|o| {
                    o.update_value(TAG_B, |v| {
                        v.items_mut().expect("sequence").push(InMemDicomObject::from_element_iter([DataElement::new(
                            TAG_C,
                            VR::US,
                            DValue::Primitive(u16s(&[0x0102])),
                        )]));
                    });
                }),
                "truncate" => Box::new(|o| {
                    o.update_value(TAG_B, |v| v.truncate(0));
                }),
                e => panic!("bad edit {e}"),
            };
            chain(obj, hops, &mut *leaf);
            Ok(())
        }
        (a, e) => panic!("bad api/edit {a}/{e}"),
    }
}

fn run_edits(a: &std::collections::HashMap<String, String>) {
    let cases = read_ndjson(a.get("cases").expect("--cases"));
    let out = a.get("out").expect("--out");
    std::fs::create_dir_all(out).unwrap();
    let mut w = NdjsonWriter::create(&format!("{out}/estreams.ndjson"));
    let mut rep = Report::new();
    let (mut equal, mut drift, mut pred_invalid, mut rb_ok, mut rb_diff, mut rb_fail_invalid, mut rb_ok_invalid) = (0u64, 0u64, 0u64, 0u64, 0u64, 0u64, 0u64);
    let mut drift_first = Value::Null;
    let mut invalid_kinds: std::collections::BTreeMap<String, u64> = Default::default();
    let mut rb_notes: Vec<Value> = Vec::new();
    for c in &cases {
        rep.cases += 1;
        let ts = j_str(&c["ts"]);
        let st = if j_str(&c["strat"]) == "U" { Strat::U } else { Strat::K };
        let (api, edit) = (j_str(&c["api"]), j_str(&c["edit"]));
        let hops: Vec<(Tag, u32)> =
            j_arr(&c["hops"]).iter().map(|h| (tag_of(&h[0]), j_usize(&h[1]) as u32 - 1)).collect();
        let valid = c["valid"].as_bool().unwrap();
        let kind = format!("{api} {edit} at depth {} / strategy {}", hops.len(), st.name());
        let mut obj = match read_obj(&j_bytes(&c["wire"]), ts) {
            Ok(o) => o,
            Err(e) => {
                rep.mismatch(json!({"prop": "edit", "fp": format!("{ts}: reading the base stream fails"), "case": c, "error": e}));
                continue;
            }
        };
        match catch(|| apply_edit(&mut obj, &hops, api, edit)) {
            Err(p) => {
                rep.mismatch(json!({"prop": "edit", "fp": format!("edit panics ({kind})"), "case": c, "error": p}));
                continue;
            }
            Ok(Err(e)) => {
                rep.mismatch(json!({"prop": "edit", "fp": format!("edit fails ({kind})"), "case": c, "error": e}));
                continue;
            }
            Ok(Ok(())) => {}
        }
        // the edited object itself must be what the model says (projection of the in-memory object)
        let mem = project_obj(&obj);
        if mem != c["rb"] {
            rep.mismatch(json!({"prop": "edit", "fp": format!("edited object differs from the model ({kind})"), "case": c, "got": mem}));
            continue;
        }
        match write_obj(&obj, ts, st) {
            Err(e) => {
                // a panic while writing is inside C01; an error is reported as an observation
                let p = if e.starts_with("panic") { "C01" } else { "edit" };
                rep.mismatch(json!({"prop": p, "fp": format!("{ts}: writing an edited object {} ({kind})", if e.starts_with("panic") { "panics" } else { "fails" }), "case": c, "error": e}));
            }
            Ok(bytes) => {
                if !valid {
                    pred_invalid += 1;
                    *invalid_kinds.entry(kind.clone()).or_insert(0) += 1;
                }
                if bytes == j_bytes(&c["out"]) {
                    equal += 1;
                } else {
                    drift += 1;
                    if drift_first.is_null() {
                        drift_first = json!({"kind": kind, "case": c, "got_bytes": bytes_json(&bytes)});
                    }
                    w.emit(&json!({"ev": "stream", "src": format!("edit/{kind}"), "ts": ts, "st": st.name(), "ds": c["after"], "bytes": bytes_json(&bytes)}));
                }
                match read_obj(&bytes, ts) {
                    Ok(o2) => {
                        let same = project_obj(&o2) == c["rb"];
                        if valid {
                            if same {
                                rb_ok += 1
                            } else {
                                rb_diff += 1;
                                if rb_notes.len() < 5 {
                                    rb_notes.push(json!({"kind": kind, "ts": ts}));
                                }
                            }
                        } else if same {
                            rb_ok_invalid += 1
                        } else {
                            rb_fail_invalid += 1
                        }
                    }
                    Err(_) => {
                        if valid {
                            rb_diff += 1;
                            if rb_notes.len() < 5 {
                                rb_notes.push(json!({"kind": kind, "ts": ts, "read": "fails"}));
                            }
                        } else {
                            rb_fail_invalid += 1
                        }
                    }
                }
            }
        }
    }
    let ev = w.finish();
    rep.extra.insert("equal_to_model".into(), json!(equal));
    rep.extra.insert("drift".into(), json!(drift));
    rep.extra.insert("drift_first".into(), drift_first);
    rep.extra.insert("predicted_malformed".into(), json!(pred_invalid));
    rep.extra.insert("malformed_kinds".into(), json!(invalid_kinds));
    rep.extra.insert("valid_read_back_equal".into(), json!(rb_ok));
    rep.extra.insert("valid_read_back_differs".into(), json!(rb_diff));
    rep.extra.insert("valid_read_back_notes".into(), Value::Array(rb_notes));
    rep.extra.insert("malformed_read_back_fails_or_differs".into(), json!(rb_fail_invalid));
    rep.extra.insert("malformed_read_back_equal".into(), json!(rb_ok_invalid));
    rep.extra.insert("streams_logged".into(), json!(ev));
    rep.extra.insert("streams_path".into(), json!(format!("{out}/estreams.ndjson")));
    rep.print();
}

// ------------------------------------------------------------------ dicom_dump as a consumer (Trace_Dump.tla)

/// text dump -> outline: one [indent, [group, element]] per line
fn text_outline(out: &str) -> Result<Vec<Value>, String> {
    let mut v = Vec::new();
    for line in out.lines() {
        if line.trim().is_empty() {
            continue;
        }
        let indent = line.len() - line.trim_start_matches(' ').len();
        let t = line.trim_start_matches(' ');
        let b = t.as_bytes();
        if b.len() < 11 || b[0] != b'(' || b[5] != b',' || b[10] != b')' {
            return Err(format!("line does not start with a tag: {line:?}"));
        }
        let g = u16::from_str_radix(&t[1..5], 16).map_err(|e| format!("{e}: {line:?}"))?;
        let e = u16::from_str_radix(&t[6..10], 16).map_err(|e| format!("{e}: {line:?}"))?;
        v.push(json!([indent, [g, e]]));
    }
    Ok(v)
}

/// DICOM JSON -> tree of tags
fn json_outline(v: &Value) -> Result<Value, String> {
    let m = v.as_object().ok_or("data set is not a JSON object")?;
    let mut out = Vec::new();
    for (k, e) in m {
        if k.len() != 8 {
            return Err(format!("bad attribute key {k}"));
        }
        let g = u16::from_str_radix(&k[0..4], 16).map_err(|e| e.to_string())?;
        let el = u16::from_str_radix(&k[4..8], 16).map_err(|e| e.to_string())?;
        let mut items = Vec::new();
        if e["vr"] == "SQ" {
            if let Some(a) = e.get("Value").and_then(|x| x.as_array()) {
                for it in a {
                    items.push(json_outline(it)?);
                }
            }
        }
        out.push(json!({"tag": [g, el], "items": items}));
    }
    Ok(Value::Array(out))
}

fn run_dump(a: &std::collections::HashMap<String, String>) {
    use dicom_dump::{ColorMode, DumpFormat, DumpOptions};
    let cases = read_ndjson(a.get("cases").expect("--cases"));
    let out = a.get("out").expect("--out");
    let only_ts = a.get("ts").cloned().unwrap_or_else(|| "EVRLE".to_string());
    std::fs::create_dir_all(out).unwrap();
    let mut wp = NdjsonWriter::create(&format!("{out}/dump_property.ndjson"));
    let mut wm = NdjsonWriter::create(&format!("{out}/dump_model.ndjson"));
    let mut rep = Report::new();
    let (mut dumps, mut json_err, mut variants_differ) = (0u64, 0u64, 0u64);
    let mut json_err_first = Value::Null;
    for c in &cases {
        if j_str(&c["ts"]) != only_ts {
            continue;
        }
        rep.cases += 1;
        let ds = &c["ds"];
        let obj = if c["mem"].as_bool().unwrap() {
            build_obj(ds, Form::Plain)
        } else {
            match read_obj(&j_bytes(&c["wireK"]), &only_ts) {
                Ok(o) => o,
                Err(_) => continue,
            }
        };
        // text, default options
        let run_text = |opts: &DumpOptions| -> Result<String, String> {
            match catch(|| {
                let mut buf: Vec<u8> = Vec::new();
                opts.dump_object_to(&mut buf, &obj).map(|_| buf).map_err(|e| e.to_string())
            }) {
                Err(p) => Err(format!("panic: {p}")),
                Ok(Err(e)) => Err(format!("err: {e}")),
                Ok(Ok(b)) => String::from_utf8(b).map_err(|e| format!("err: output is not UTF-8: {e}")),
            }
        };
        let mut base = DumpOptions::new();
        base.color_mode(ColorMode::Never);
        dumps += 1;
        let text = match run_text(&base).and_then(|t| text_outline(&t)) {
            Ok(o) => o,
            Err(e) => {
                let p = if e.starts_with("panic") { "C01" } else { "dump" };
                rep.mismatch(json!({"prop": p, "fp": format!("dicom_dump text format {} ({})", if e.starts_with("panic") { "panics" } else { "fails" }, shape(ds)), "case": c, "error": e}));
                for w in [&mut wp, &mut wm] {
                    w.emit(&json!({"ev": "dump", "level": "x", "ds": ds, "res": e}));
                }
                continue;
            }
        };
        // every other option combination must give the same outline
        let mut same = true;
        for width in [0u32, 1, 40, 120, 500] {
            for (ntl, nl) in [(false, false), (true, false), (false, true), (true, true)] {
                let mut o = DumpOptions::new();
                o.color_mode(ColorMode::Never).width(width).no_text_limit(ntl).no_limit(nl);
                dumps += 1;
                match run_text(&o).and_then(|t| text_outline(&t)) {
                    Ok(x) if x == text => {}
                    Ok(_) => same = false,
                    Err(e) => {
                        same = false;
                        if e.starts_with("panic") {
                            rep.mismatch(json!({"prop": "C01", "fp": format!("dicom_dump text format panics with width {width} ({})", shape(ds)), "case": c, "error": e}));
                        }
                    }
                }
                // dump_element directly: here the limits really apply
                dumps += 1;
                let r = catch(|| {
                    let mut buf: Vec<u8> = Vec::new();
                    for e in obj.iter() {
                        dicom_dump::dump_element(&mut buf, e, width, 0, ntl, nl).map_err(|e| e.to_string())?;
                    }
                    Ok::<_, String>(buf)
                });
                match r {
                    Err(p) => {
                        same = false;
                        rep.mismatch(json!({"prop": "C01", "fp": format!("dicom_dump::dump_element panics (width {width}, no_text_limit {ntl}, no_limit {nl}; {})", shape(ds)), "case": c, "error": p}));
                    }
                    Ok(Err(_)) => same = false,
                    Ok(Ok(b)) => match String::from_utf8(b).map_err(|e| e.to_string()).and_then(|t| text_outline(&t)) {
                        Ok(x) if x == text => {}
                        _ => same = false,
                    },
                }
            }
        }
        if !same {
            variants_differ += 1;
        }
        // JSON format
        let mut jo = DumpOptions::new();
        jo.format(DumpFormat::Json);
        dumps += 1;
        let (jsonok, json) = match catch(|| {
            let mut buf: Vec<u8> = Vec::new();
            jo.dump_object_to(&mut buf, &obj).map(|_| buf).map_err(|e| e.to_string())
        }) {
            Err(p) => {
                rep.mismatch(json!({"prop": "C01", "fp": format!("dicom_dump JSON format panics ({})", shape(ds)), "case": c, "error": p}));
                (false, json!([]))
            }
            Ok(Err(e)) => {
                json_err += 1;
                if json_err_first.is_null() {
                    json_err_first = json!({"shape": shape(ds), "error": e, "ds": ds});
                }
                (false, json!([]))
            }
            Ok(Ok(b)) => match serde_json::from_slice::<Value>(&b).map_err(|e| e.to_string()).and_then(|v| json_outline(&v)) {
                Ok(o) => (true, o),
                Err(e) => {
                    json_err += 1;
                    if json_err_first.is_null() {
                        json_err_first = json!({"shape": shape(ds), "error": e, "ds": ds});
                    }
                    (false, json!([]))
                }
            },
        };
        for (w, level) in [(&mut wp, "property"), (&mut wm, "model")] {
            w.emit(&json!({"ev": "dump", "level": level, "ds": ds, "res": "ok", "text": text, "same": same, "jsonok": jsonok, "json": json}));
        }
    }
    let n1 = wp.finish();
    wm.finish();
    rep.extra.insert("objects".into(), json!(rep.cases));
    rep.extra.insert("dump_calls".into(), json!(dumps));
    rep.extra.insert("events".into(), json!(n1));
    rep.extra.insert("json_failures".into(), json!(json_err));
    rep.extra.insert("json_failure_first".into(), json_err_first);
    rep.extra.insert("option_variants_differ".into(), json!(variants_differ));
    rep.extra.insert("property_path".into(), json!(format!("{out}/dump_property.ndjson")));
    rep.extra.insert("model_path".into(), json!(format!("{out}/dump_model.ndjson")));
    rep.print();
}

fn main() {
    quiet_panics();
    let a = args_map();
    match a.get("_0").map(|s| s.as_str()) {
        Some("replay") => run_replay(&a),
        Some("random") => run_random(&a),
        Some("prims") => run_prims(&a),
        Some("files") => run_files(&a),
        Some("tokens") => run_tokens(&a),
        Some("edits") => run_edits(&a),
        Some("dump") => run_dump(&a),
        _ => {
            eprintln!("usage: drv_dataset replay|random|prims|files ...");
            std::process::exit(2);
        }
    }
}
