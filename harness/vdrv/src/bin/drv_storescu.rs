//! C33 conformance driver: the real `storescu` binary sends TLC-generated sets of files
//! to a scripted acceptor (PDU level, in this process) whose per-context answers follow
//! the case's policy.  Every C-STORE request received is recorded as one `store` event:
//! the presentation context it came on (abstract syntax / transfer syntax of the
//! A-ASSOCIATE-AC sent, accepted or not), the file it belongs to (by Affected SOP
//! Instance UID) and whether the data set bytes decode, in the transfer syntax of that
//! context, to the file's data set (projection: SOP class/instance UID, patient id,
//! rows, columns, pixel bytes; pixel data encapsulated exactly when the transfer syntax is).  Trace_StoreScu.tla judges the events.
//!
//!   drv_storescu --bin <storescu> --cases <ndjson> --work <dir> --out <trace.ndjson> [--jobs N]

#![allow(deprecated)]
use bytes::BytesMut;
use dicom_core::value::{PrimitiveValue, Value as DValue};
use dicom_core::{dicom_value, DataElement, VR};
use dicom_dictionary_std::{tags, uids};
use dicom_encoding::TransferSyntaxIndex;
use dicom_object::{FileMetaTableBuilder, InMemDicomObject};
use dicom_pixeldata::Transcode;
use dicom_transfer_syntax_registry::TransferSyntaxRegistry;
use dicom_ul::association::read_pdu_from_wire;
use dicom_ul::pdu::{
    write_pdu, AbortRQSource, AssociationAC, AssociationRJ, AssociationRJResult, AssociationRJServiceUserReason,
    AssociationRJSource, PDataValue, PDataValueType, Pdu, PresentationContextResult, PresentationContextResultReason,
    UserVariableItem,
};
use serde_json::{json, Value};
use std::collections::HashMap;
use std::io::Write;
use std::net::{TcpListener, TcpStream};
use std::path::{Path, PathBuf};
use std::process::{Command, Stdio};
use std::sync::atomic::{AtomicUsize, Ordering};
use std::sync::{Arc, Mutex};
use std::time::{Duration, Instant};
use vcommon::*;

const ENCAPS_UID: &str = "1.2.840.10008.1.2.1.98";
const CASE_GUARD: Duration = Duration::from_secs(90);

fn ts_uid(ts: &str) -> &'static str {
    match ts {
        "ivrle" => uids::IMPLICIT_VR_LITTLE_ENDIAN,
        "evrle" => uids::EXPLICIT_VR_LITTLE_ENDIAN,
        "evrbe" => uids::EXPLICIT_VR_BIG_ENDIAN,
        "deflated" => uids::DEFLATED_EXPLICIT_VR_LITTLE_ENDIAN,
        "encaps" => ENCAPS_UID,
        _ => panic!("ts {ts}"),
    }
}
fn ts_short(uid: &str) -> String {
    let u = uid.trim_end_matches(['\0', ' ']);
    for s in ["ivrle", "evrle", "evrbe", "deflated", "encaps"] {
        if ts_uid(s) == u {
            return s.to_string();
        }
    }
    u.to_string()
}
fn cls_uid(c: &str) -> &'static str {
    match c {
        "A" => uids::SECONDARY_CAPTURE_IMAGE_STORAGE,
        "B" => uids::CT_IMAGE_STORAGE,
        _ => panic!("class {c}"),
    }
}
fn cls_short(uid: &str) -> String {
    let u = uid.trim_end_matches(['\0', ' ']);
    for s in ["A", "B"] {
        if cls_uid(s) == u {
            return s.to_string();
        }
    }
    u.to_string()
}

/// What is compared between the file's data set and the data set received.
#[derive(Debug, Clone, PartialEq)]
struct Projection {
    cls: String,
    inst: String,
    pid: String,
    rows: u16,
    cols: u16,
    pixels: Vec<u8>,
    /// pixel data is a fragment sequence (must hold exactly in an encapsulated transfer syntax)
    encapsulated: bool,
}

fn project(obj: &InMemDicomObject) -> Result<Projection, String> {
    let s = |t| -> Result<String, String> {
        Ok(obj
            .element(t)
            .map_err(|e| e.to_string())?
            .to_str()
            .map_err(|e| e.to_string())?
            .trim_end_matches(['\0', ' '])
            .to_string())
    };
    let n = |t| -> Result<u16, String> { obj.element(t).map_err(|e| e.to_string())?.to_int::<u16>().map_err(|e| e.to_string()) };
    let px = obj.element(tags::PIXEL_DATA).map_err(|e| e.to_string())?;
    let (pixels, encapsulated) = match px.value() {
        DValue::PixelSequence(seq) => (seq.fragments().iter().flat_map(|f| f.iter().copied()).collect::<Vec<u8>>(), true),
        DValue::Primitive(p) => (p.to_bytes().to_vec(), false),
        _ => return Err("pixel data is a sequence".into()),
    };
    Ok(Projection {
        cls: s(tags::SOP_CLASS_UID)?,
        inst: s(tags::SOP_INSTANCE_UID)?,
        pid: s(tags::PATIENT_ID)?,
        rows: n(tags::ROWS)?,
        cols: n(tags::COLUMNS)?,
        pixels,
        encapsulated,
    })
}

struct MadeFile {
    cls: String,
    ts: String,
    inst: String,
    proj: Projection,
    path: PathBuf,
}

fn make_file(dir: &Path, case_no: usize, k: usize, cls: &str, ts: &str, side: u16, seed: u64) -> MadeFile {
    let mut rng = Rng::new(seed ^ ((case_no as u64) << 8) ^ k as u64);
    let px = rng.bytes(side as usize * side as usize);
    let inst = format!("1.2.826.0.1.3680043.9.7133.{}.{}", case_no + 1, k + 1);
    let pid = format!("P{}x{}", case_no + 1, k + 1);
    let obj = InMemDicomObject::from_element_iter([
        DataElement::new(tags::SOP_CLASS_UID, VR::UI, cls_uid(cls)),
        DataElement::new(tags::SOP_INSTANCE_UID, VR::UI, inst.as_str()),
        DataElement::new(tags::MODALITY, VR::CS, if cls == "A" { "OT" } else { "CT" }),
        DataElement::new(tags::PATIENT_NAME, VR::PN, "Doe^Jane"),
        DataElement::new(tags::PATIENT_ID, VR::LO, pid.as_str()),
        DataElement::new(tags::SAMPLES_PER_PIXEL, VR::US, PrimitiveValue::from(1u16)),
        DataElement::new(tags::PHOTOMETRIC_INTERPRETATION, VR::CS, "MONOCHROME2"),
        DataElement::new(tags::NUMBER_OF_FRAMES, VR::IS, "1"),
        DataElement::new(tags::ROWS, VR::US, PrimitiveValue::from(side)),
        DataElement::new(tags::COLUMNS, VR::US, PrimitiveValue::from(side)),
        DataElement::new(tags::BITS_ALLOCATED, VR::US, PrimitiveValue::from(8u16)),
        DataElement::new(tags::BITS_STORED, VR::US, PrimitiveValue::from(8u16)),
        DataElement::new(tags::HIGH_BIT, VR::US, PrimitiveValue::from(7u16)),
        DataElement::new(tags::PIXEL_REPRESENTATION, VR::US, PrimitiveValue::from(0u16)),
        DataElement::new(tags::PIXEL_DATA, VR::OB, PrimitiveValue::from(px)),
    ]);
    let proj = project(&obj).expect("projection of the generated object");
    let path = dir.join(format!("f{}.dcm", k + 1));
    if ts == "encaps" {
        let mut fo = obj
            .with_meta(FileMetaTableBuilder::new().transfer_syntax(uids::EXPLICIT_VR_LITTLE_ENDIAN))
            .expect("meta");
        let target = TransferSyntaxRegistry.get(ENCAPS_UID).expect("encapsulated uncompressed TS");
        fo.transcode(target).expect("transcode to encapsulated uncompressed");
        fo.write_to_file(&path).expect("write file");
    } else {
        let fo = obj.with_meta(FileMetaTableBuilder::new().transfer_syntax(ts_uid(ts))).expect("meta");
        fo.write_to_file(&path).expect("write file");
    }
    MadeFile { cls: cls.to_string(), ts: ts.to_string(), inst, proj, path }
}

fn command_bytes(obj: &InMemDicomObject) -> Vec<u8> {
    let ts = dicom_transfer_syntax_registry::entries::IMPLICIT_VR_LITTLE_ENDIAN.erased();
    let mut v = Vec::new();
    obj.write_dataset_with_ts(&mut v, &ts).expect("command encode");
    v
}

fn store_rsp(msgid: u16, cls: &str, inst: &str, status: u16) -> Vec<u8> {
    command_bytes(&InMemDicomObject::command_from_element_iter([
        DataElement::new(tags::AFFECTED_SOP_CLASS_UID, VR::UI, dicom_value!(Str, cls)),
        DataElement::new(tags::COMMAND_FIELD, VR::US, dicom_value!(U16, [0x8001])),
        DataElement::new(tags::MESSAGE_ID_BEING_RESPONDED_TO, VR::US, dicom_value!(U16, [msgid])),
        DataElement::new(tags::COMMAND_DATA_SET_TYPE, VR::US, dicom_value!(U16, [0x0101])),
        DataElement::new(tags::STATUS, VR::US, dicom_value!(U16, [status])),
        DataElement::new(tags::AFFECTED_SOP_INSTANCE_UID, VR::UI, dicom_value!(Str, inst)),
    ]))
}

struct CaseShared {
    files: Vec<MadeFile>,
    policy: Vec<(String, String)>,
    max_len: u32,
    events: Mutex<Vec<Value>>,
    assocs: AtomicUsize,
    multi_ts: AtomicUsize,
    /// misbehaviour of the acceptor: kind at the `script_at`-th request of an association
    script_kind: String,
    script_at: usize,
    /// record wire/DIMSE level events per association
    wire: bool,
    wire_events: Mutex<Vec<(usize, Vec<Value>)>>,
}

#[derive(Default)]
struct Pending {
    cmd: Vec<u8>,
    data: Vec<u8>,
    msgid: u16,
    cls: String,
    inst: String,
    have_cmd: bool,
}

fn judge_data(sh: &CaseShared, file: Option<usize>, ctx_ts_uid: &str, data: &[u8]) -> (bool, String) {
    let Some(k) = file else {
        return (false, "no file with this SOP instance UID".into());
    };
    let Some(ts) = TransferSyntaxRegistry.get(ctx_ts_uid) else {
        return (false, "unknown context transfer syntax".into());
    };
    let dec = catch(|| InMemDicomObject::read_dataset_with_ts(data, ts));
    let obj = match dec {
        Ok(Ok(o)) => o,
        Ok(Err(e)) => return (false, format!("undecodable: {e}")),
        Err(p) => return (false, format!("decoder panic: {p}")),
    };
    match project(&obj) {
        Err(e) => (false, format!("attributes missing: {e}")),
        Ok(mut p) => {
            let o = &sh.files[k].proj; // (projection of the native in-memory object)
            let want_encaps = ts.is_encapsulated_pixel_data();
            if p.encapsulated != want_encaps {
                return (false, format!("pixel data form does not fit the transfer syntax (encapsulated={}, transfer syntax encapsulated={})", p.encapsulated, want_encaps));
            }
            p.encapsulated = o.encapsulated;
            if p == *o {
                (true, String::new())
            } else if p.pixels != o.pixels {
                (false, format!("pixel bytes differ ({} vs {} bytes)", p.pixels.len(), o.pixels.len()))
            } else {
                (false, "identifying attributes differ".into())
            }
        }
    }
}

/// Bytes of the peer already waiting (read buffer + socket) - evidence that the tool sent
/// something before it got the answer it should wait for.
fn pending_bytes(sock: &TcpStream, buf: &BytesMut) -> usize {
    let mut n = buf.len();
    if sock.set_nonblocking(true).is_ok() {
        let mut b = [0u8; 64];
        if let Ok(k) = sock.peek(&mut b) {
            n += k;
        }
        let _ = sock.set_nonblocking(false);
    }
    n
}

/// Read whatever the tool still sends until it ends the connection; tells how it ended.
fn drain(sock: &mut TcpStream, buf: &mut BytesMut) -> (&'static str, usize) {
    let mut pdata = 0usize;
    loop {
        match read_pdu_from_wire(sock, buf, 1 << 20, false) {
            Ok(Pdu::PData { .. }) => pdata += 1,
            Ok(Pdu::ReleaseRQ) => return ("release", pdata),
            Ok(Pdu::AbortRQ { .. }) => return ("abort", pdata),
            Ok(_) => return ("other_pdu", pdata),
            Err(dicom_ul::association::Error::ConnectionClosed { .. }) => return ("eof", pdata),
            Err(_) => return ("error", pdata),
        }
    }
}

fn send_pdu(sock: &mut TcpStream, pdu: &Pdu) -> bool {
    let mut out = Vec::new();
    write_pdu(&mut out, pdu).is_ok() && sock.write_all(&out).is_ok()
}

fn handle_conn(sock: TcpStream, sh: Arc<CaseShared>) {
    let assoc_no = sh.assocs.fetch_add(1, Ordering::SeqCst) + 1;
    let mut wev: Vec<Value> = Vec::new();
    conn_inner(sock, &sh, assoc_no, &mut wev);
    if sh.wire {
        sh.wire_events.lock().unwrap().push((assoc_no, wev));
    }
}

/// wire-level record of the request being received
#[derive(Default)]
struct WireRq {
    pdvs: Vec<Value>,
    pdus: Vec<usize>,
    field: i64,
    msgid: i64,
    dstype: i64,
    prio: i64,
    glen: i64,
    cmd_len: usize,
}

fn conn_inner(mut sock: TcpStream, sh: &Arc<CaseShared>, assoc_no: usize, wev: &mut Vec<Value>) {
    let mut buf = BytesMut::with_capacity(70000);
    let rq = match read_pdu_from_wire(&mut sock, &mut buf, 1 << 20, false) {
        Ok(Pdu::AssociationRQ(rq)) => rq,
        _ => {
            wev.push(json!({"ev":"assoc","assoc":assoc_no,"result":"no_rq","max_len":sh.max_len}));
            wev.push(json!({"ev":"fin","assoc":assoc_no,"how":"error","after_rp":"","pending":false,"drained":0}));
            return;
        }
    };
    let fin = |wev: &mut Vec<Value>, how: &str, after_rp: &str, pending: bool, drained: usize| {
        wev.push(json!({"ev":"fin","assoc":assoc_no,"how":how,"after_rp":after_rp,"pending":pending,"drained":drained}));
    };
    if sh.script_kind == "reject" {
        wev.push(json!({"ev":"assoc","assoc":assoc_no,"result":"rj","max_len":sh.max_len}));
        let rj = Pdu::AssociationRJ(AssociationRJ {
            result: AssociationRJResult::Permanent,
            source: AssociationRJSource::ServiceUser(AssociationRJServiceUserReason::NoReasonGiven),
        });
        let _ = send_pdu(&mut sock, &rj);
        let (how, n) = drain(&mut sock, &mut buf);
        fin(wev, how, "", false, n);
        return;
    }
    // id -> (abstract short, ts short, ts uid, accepted)
    let mut ctxs: HashMap<u8, (String, String, String, bool)> = HashMap::new();
    let mut results = Vec::new();
    for pc in &rq.presentation_contexts {
        let abs = cls_short(&pc.abstract_syntax);
        if pc.transfer_syntaxes.len() != 1 {
            sh.multi_ts.fetch_add(1, Ordering::SeqCst);
        }
        let tsu = pc.transfer_syntaxes.first().cloned().unwrap_or_default();
        let tsu = tsu.trim_end_matches(['\0', ' ']).to_string();
        let ts = ts_short(&tsu);
        let acc = sh.policy.iter().any(|(a, t)| *a == abs && *t == ts);
        let abs_known = sh.policy.iter().any(|(a, _)| *a == abs);
        results.push(PresentationContextResult {
            id: pc.id,
            reason: if acc {
                PresentationContextResultReason::Acceptance
            } else if abs_known {
                PresentationContextResultReason::TransferSyntaxesNotSupported
            } else {
                PresentationContextResultReason::AbstractSyntaxNotSupported
            },
            transfer_syntax: if acc { tsu.clone() } else { uids::IMPLICIT_VR_LITTLE_ENDIAN.to_string() },
        });
        ctxs.insert(pc.id, (abs, ts, tsu, acc));
    }
    let any_acc = ctxs.values().any(|c| c.3);
    wev.push(json!({"ev":"assoc","assoc":assoc_no,"result": if any_acc {"ac"} else {"none_accepted"},"max_len":sh.max_len}));
    let ac = Pdu::AssociationAC(AssociationAC {
        protocol_version: rq.protocol_version,
        calling_ae_title: rq.calling_ae_title.clone(),
        called_ae_title: rq.called_ae_title.clone(),
        application_context_name: rq.application_context_name.clone(),
        presentation_contexts: results,
        user_variables: vec![
            UserVariableItem::MaxLength(sh.max_len),
            UserVariableItem::ImplementationClassUID("1.2.826.0.1.3680043.9.7133.0.1".to_string()),
            UserVariableItem::ImplementationVersionName("VERIF-ACC".to_string()),
        ],
    });
    if !send_pdu(&mut sock, &ac) {
        fin(wev, "error", "", false, 0);
        return;
    }
    let mut pend: HashMap<u8, Pending> = HashMap::new();
    let mut cur = WireRq::default();
    let mut seq = 0usize; // requests seen on this association (complete or cut short by the script)
    loop {
        let pdu = match read_pdu_from_wire(&mut sock, &mut buf, 1 << 20, false) {
            Ok(p) => p,
            Err(dicom_ul::association::Error::ConnectionClosed { .. }) => {
                fin(wev, "eof", "", !cur.pdvs.is_empty(), 0);
                return;
            }
            Err(_) => {
                fin(wev, "error", "", !cur.pdvs.is_empty(), 0);
                return;
            }
        };
        match pdu {
            Pdu::PData { data } => {
                cur.pdus.push(data.iter().map(|v| 6 + v.data.len()).sum());
                for pdv in data {
                    let id = pdv.presentation_context_id;
                    cur.pdvs.push(json!([id, if pdv.value_type == PDataValueType::Command { 0 } else { 1 }, if pdv.is_last { 1 } else { 0 }, pdv.data.len()]));
                    let p = pend.entry(id).or_default();
                    let mut complete = false;
                    match pdv.value_type {
                        PDataValueType::Command => {
                            p.cmd.extend_from_slice(&pdv.data);
                            if pdv.is_last {
                                let its = dicom_transfer_syntax_registry::entries::IMPLICIT_VR_LITTLE_ENDIAN.erased();
                                let cmd = catch(|| InMemDicomObject::read_dataset_with_ts(&p.cmd[..], &its));
                                cur.cmd_len = p.cmd.len();
                                p.cmd.clear();
                                let Ok(Ok(cmd)) = cmd else {
                                    fin(wev, "error", "", true, 0);
                                    return;
                                };
                                let num = |t| cmd.element(t).ok().and_then(|e| e.to_int::<i64>().ok()).unwrap_or(-1);
                                let field = num(tags::COMMAND_FIELD);
                                cur.field = field;
                                cur.msgid = num(tags::MESSAGE_ID);
                                cur.dstype = num(tags::COMMAND_DATA_SET_TYPE);
                                cur.prio = num(tags::PRIORITY);
                                cur.glen = num(tags::COMMAND_GROUP_LENGTH);
                                if field != 0x0001 {
                                    continue; // not a C-STORE-RQ: ignored
                                }
                                p.msgid = cur.msgid.clamp(0, 65535) as u16;
                                let st = |t| {
                                    cmd.element(t)
                                        .ok()
                                        .and_then(|e| e.to_str().ok().map(|s| s.trim_end_matches(['\0', ' ']).to_string()))
                                        .unwrap_or_default()
                                };
                                p.cls = st(tags::AFFECTED_SOP_CLASS_UID);
                                p.inst = st(tags::AFFECTED_SOP_INSTANCE_UID);
                                p.have_cmd = true;
                                p.data.clear();
                                if cur.dstype == 0x0101 {
                                    complete = true; // a C-STORE-RQ without data set
                                }
                                if sh.script_kind == "abort_mid" && sh.script_at == seq + 1 {
                                    // the acceptor aborts while the request is under way
                                    seq += 1;
                                    wev.push(json!({"ev":"rq_part","assoc":assoc_no,"seq":seq,"msgid":cur.msgid}));
                                    wev.push(json!({"ev":"peer","assoc":assoc_no,"seq":seq,"what":"abort"}));
                                    let _ = send_pdu(&mut sock, &Pdu::AbortRQ { source: AbortRQSource::ServiceUser });
                                    let (how, n) = drain(&mut sock, &mut buf);
                                    fin(wev, how, "", true, n);
                                    return;
                                }
                            }
                        }
                        PDataValueType::Data => {
                            p.data.extend_from_slice(&pdv.data);
                            if pdv.is_last {
                                complete = p.have_cmd;
                                if !complete {
                                    p.data.clear();
                                }
                            }
                        }
                    }
                    if complete {
                        seq += 1;
                        let early = pending_bytes(&sock, &buf);
                        let file = sh.files.iter().position(|f| f.inst == p.inst);
                        let (abs, ts, tsu, acc) = ctxs
                            .get(&id)
                            .cloned()
                            .unwrap_or_else(|| ("".into(), "".into(), "".into(), false));
                        let (ok, why) = judge_data(sh, file, &tsu, &p.data);
                        let ev = json!({"ev":"store",
                            "file": file.map(|k| k + 1).unwrap_or(0),
                            "ctx_id": id, "ctx_abs": abs, "ctx_ts": ts, "accepted": acc,
                            "file_cls": file.map(|k| sh.files[k].cls.clone()).unwrap_or_default(),
                            "file_ts": file.map(|k| sh.files[k].ts.clone()).unwrap_or_default(),
                            "data_ok": ok, "why": why, "data_len": p.data.len(),
                            "cmd_cls": cls_short(&p.cls), "assoc": assoc_no});
                        sh.events.lock().unwrap().push(ev);
                        let w = std::mem::take(&mut cur);
                        wev.push(json!({"ev":"rq","assoc":assoc_no,"seq":seq,"file": file.map(|k| k + 1).unwrap_or(0),
                            "ctx": id, "ctx_ok": acc, "field": w.field, "msgid": w.msgid, "dstype": w.dstype, "prio": w.prio,
                            "glen": w.glen, "cmd_len": w.cmd_len, "cmd_cls": cls_short(&p.cls),
                            "pdvs": w.pdvs, "pdus": w.pdus, "early": early}));
                        let kind = if sh.script_at == seq { sh.script_kind.as_str() } else { "ok" };
                        let (status, mid): (u16, u16) = match kind {
                            "fail" => (0xA700, p.msgid),
                            "warn" => (0xB000, p.msgid),
                            "wrong_msgid" => (0x0000, p.msgid.wrapping_add(7)),
                            _ => (0x0000, p.msgid),
                        };
                        p.have_cmd = false;
                        p.data.clear();
                        match kind {
                            "close" => {
                                wev.push(json!({"ev":"peer","assoc":assoc_no,"seq":seq,"what":"close"}));
                                let _ = sock.shutdown(std::net::Shutdown::Write);
                                let (how, n) = drain(&mut sock, &mut buf);
                                fin(wev, how, "", false, n);
                                return;
                            }
                            "abort" => {
                                wev.push(json!({"ev":"peer","assoc":assoc_no,"seq":seq,"what":"abort"}));
                                let _ = send_pdu(&mut sock, &Pdu::AbortRQ { source: AbortRQSource::ServiceUser });
                                let (how, n) = drain(&mut sock, &mut buf);
                                fin(wev, how, "", false, n);
                                return;
                            }
                            _ => {}
                        }
                        let rsp = Pdu::PData {
                            data: vec![PDataValue {
                                presentation_context_id: id,
                                value_type: PDataValueType::Command,
                                is_last: true,
                                data: store_rsp(mid, &p.cls, &p.inst, status),
                            }],
                        };
                        let kind_rec = if kind == "abort_mid" { "ok" } else { kind };
                        wev.push(json!({"ev":"rsp","assoc":assoc_no,"seq":seq,"kind":kind_rec,"status":status,"msgid_resp":mid}));
                        if !send_pdu(&mut sock, &rsp) {
                            fin(wev, "error", "", false, 0);
                            return;
                        }
                    }
                }
            }
            Pdu::ReleaseRQ => {
                let pending = !cur.pdvs.is_empty() || pend.values().any(|p| p.have_cmd);
                let _ = send_pdu(&mut sock, &Pdu::ReleaseRP);
                let after = match read_pdu_from_wire(&mut sock, &mut buf, 1 << 20, false) {
                    Ok(_) => "data",
                    Err(dicom_ul::association::Error::ConnectionClosed { .. }) => "eof",
                    Err(_) => "error",
                };
                fin(wev, "release", after, pending, 0);
                return;
            }
            Pdu::AbortRQ { .. } => {
                fin(wev, "abort", "", !cur.pdvs.is_empty(), 0);
                return;
            }
            _ => {
                fin(wev, "other_pdu", "", !cur.pdvs.is_empty(), 0);
                return;
            }
        }
    }
}

fn run_case(bin: &str, work: &Path, case_no: usize, c: &Value, seed: u64) -> (Vec<Value>, bool) {
    let dir = work.join(format!("c{case_no}"));
    let _ = std::fs::remove_dir_all(&dir);
    std::fs::create_dir_all(&dir).expect("case dir");
    // every fourth case: larger pixel data and a small acceptor PDU length, so that the data set is fragmented
    let big = c.get("big").and_then(|b| b.as_bool()).unwrap_or(case_no % 4 == 3);
    let side: u16 = if big { 64 } else { 16 };
    let files: Vec<MadeFile> = j_arr(&c["files"])
        .iter()
        .enumerate()
        .map(|(k, f)| make_file(&dir, case_no, k, j_str(&f["cls"]), j_str(&f["ts"]), side, seed))
        .collect();
    let policy: Vec<(String, String)> = j_arr(&c["policy"]).iter().map(|p| (j_str(&p["abs"]).to_string(), j_str(&p["ts"]).to_string())).collect();
    let nt = c["nt"].as_bool().unwrap();
    let ign = c["ign"].as_bool().unwrap();
    let conc = j_usize(&c["conc"]);
    let ff = c.get("ff").and_then(|b| b.as_bool()).unwrap_or(false);
    let wire = c.get("wire").and_then(|b| b.as_bool()).unwrap_or(false);
    let script = c.get("script").cloned().unwrap_or_else(|| json!({"kind":"ok","at":0}));
    let sh = Arc::new(CaseShared {
        files,
        policy,
        max_len: if big { 4096 } else { 16384 },
        events: Mutex::new(Vec::new()),
        assocs: AtomicUsize::new(0),
        multi_ts: AtomicUsize::new(0),
        script_kind: j_str(&script["kind"]).to_string(),
        script_at: j_usize(&script["at"]),
        wire,
        wire_events: Mutex::new(Vec::new()),
    });
    let listener = TcpListener::bind("127.0.0.1:0").expect("bind");
    let port = listener.local_addr().unwrap().port();
    listener.set_nonblocking(true).expect("nonblocking");
    let mut cmd = Command::new(bin);
    if nt {
        cmd.arg("--never-transcode");
    }
    if ign {
        cmd.arg("--ignore-sop-class");
    }
    if ff {
        cmd.arg("--fail-first");
    }
    if conc > 0 {
        cmd.arg("--concurrency").arg(conc.to_string());
    }
    cmd.arg(format!("127.0.0.1:{port}"));
    for f in &sh.files {
        cmd.arg(&f.path);
    }
    cmd.stdout(Stdio::null()).stderr(Stdio::null()).stdin(Stdio::null());
    let mut child = cmd.spawn().expect("spawn storescu");
    let t0 = Instant::now();
    let mut handlers = Vec::new();
    let mut timed_out = false;
    let mut exited: Option<i32> = None;
    loop {
        // accept everything pending
        loop {
            match listener.accept() {
                Ok((s, _)) => {
                    let _ = s.set_nonblocking(false);
                    let _ = s.set_nodelay(true);
                    let shc = sh.clone();
                    handlers.push(std::thread::spawn(move || handle_conn(s, shc)));
                }
                Err(_) => break,
            }
        }
        if exited.is_some() {
            break; // one more accept pass was done after the exit was seen
        }
        match child.try_wait() {
            Ok(Some(st)) => {
                exited = Some(st.code().unwrap_or(-999));
                continue;
            }
            Ok(None) => {}
            Err(_) => {
                exited = Some(-998);
                continue;
            }
        }
        if t0.elapsed() > CASE_GUARD {
            timed_out = true;
            let _ = child.kill();
            let _ = child.wait();
            exited = Some(-997);
            continue;
        }
        std::thread::sleep(Duration::from_millis(1)); // poll interval, not a synchronisation point
    }
    drop(listener);
    for h in handlers {
        let _ = h.join();
    }
    let mut evs = Vec::new();
    evs.push(json!({"ev":"case","case":case_no + 1,"files":c["files"],"policy":c["policy"],"nt":nt,"ign":ign,"conc":conc,
        "ff":ff,"script":script,"wire":wire,"expect_x":c.get("expect_x").cloned().unwrap_or(json!({"exact":false,"exit":"","ended":"","nreq":0})),
        "max_len": sh.max_len, "pixel_bytes": side as usize * side as usize}));
    let mut stores = std::mem::take(&mut *sh.events.lock().unwrap());
    stores.sort_by_key(|e| (e["file"].as_u64().unwrap_or(0), e["assoc"].as_u64().unwrap_or(0), e["ctx_id"].as_u64().unwrap_or(0)));
    evs.extend(stores);
    let mut wv = std::mem::take(&mut *sh.wire_events.lock().unwrap());
    wv.sort_by_key(|(n, _)| *n);
    for (_, w) in wv {
        evs.extend(w);
    }
    evs.push(json!({"ev":"end","assocs":sh.assocs.load(Ordering::SeqCst),"exit":exited.unwrap_or(0),"timed_out":timed_out,
        "multi_ts_contexts": sh.multi_ts.load(Ordering::SeqCst)}));
    let _ = std::fs::remove_dir_all(&dir);
    (evs, timed_out)
}

fn main() {
    quiet_panics();
    let args = args_map();
    let bin = args.get("bin").expect("--bin").clone();
    let cases = Arc::new(read_ndjson(args.get("cases").expect("--cases")));
    let work = PathBuf::from(args.get("work").expect("--work"));
    std::fs::create_dir_all(&work).expect("work dir");
    let jobs: usize = args.get("jobs").and_then(|s| s.parse().ok()).unwrap_or(4).max(1);
    let seed = seed_from_env();
    let next = Arc::new(AtomicUsize::new(0));
    let results: Arc<Mutex<Vec<Option<(Vec<Value>, bool)>>>> = Arc::new(Mutex::new((0..cases.len()).map(|_| None).collect()));
    let mut ths = Vec::new();
    for _ in 0..jobs {
        let (cases, next, results, bin, work) = (cases.clone(), next.clone(), results.clone(), bin.clone(), work.clone());
        ths.push(std::thread::spawn(move || loop {
            let n = next.fetch_add(1, Ordering::SeqCst);
            if n >= cases.len() {
                break;
            }
            let r = run_case(&bin, &work, n, &cases[n], seed);
            results.lock().unwrap()[n] = Some(r);
        }));
    }
    let mut worker_panics = 0;
    for t in ths {
        if t.join().is_err() {
            worker_panics += 1;
        }
    }
    let mut tr = NdjsonWriter::create(args.get("out").expect("--out"));
    let mut rep = Report::new();
    let (mut stores, mut timeouts, mut assocs, mut missing) = (0usize, 0usize, 0usize, 0usize);
    for r in results.lock().unwrap().iter() {
        rep.cases += 1;
        match r {
            Some((evs, to)) => {
                for e in evs {
                    if e["ev"] == "store" {
                        stores += 1;
                    }
                    if e["ev"] == "end" {
                        assocs += e["assocs"].as_u64().unwrap_or(0) as usize;
                    }
                    tr.emit(e);
                }
                if *to {
                    timeouts += 1;
                }
            }
            None => missing += 1,
        }
    }
    let n = tr.finish();
    rep.extra.insert("events".into(), json!(n));
    rep.extra.insert("stores".into(), json!(stores));
    rep.extra.insert("timeouts".into(), json!(timeouts));
    rep.extra.insert("assocs".into(), json!(assocs));
    rep.extra.insert("cases_not_run".into(), json!(missing));
    rep.extra.insert("worker_panics".into(), json!(worker_panics));
    rep.print();
}
