//! C03 conformance driver: element / item headers and the VR code table.
//!
//!   drv_header cases --cases <ndjson>      TLC cases (PS35!HeaderBytes / DecodeHeader) -> real codecs
//!   drv_header vrcodes --out <ndjson>      all 65 536 two-byte codes -> trace for Trace_VR.tla
//!
//! The driver only transports: expected bytes and expected decode results come
//! from TLC; a mismatch record carries an abstract fingerprint.

use dicom_core::dictionary::{DataDictionary, DataDictionaryEntry};
use dicom_core::header::{DataElementHeader, Header, Length, SequenceItemHeader};
use dicom_core::{Tag, VR};
use dicom_dictionary_std::StandardDataDictionary;
use dicom_encoding::decode::adaptive_le::StandardAdaptiveVRLittleEndianDecoder;
use dicom_encoding::decode::explicit_be::ExplicitVRBigEndianDecoder;
use dicom_encoding::decode::explicit_le::ExplicitVRLittleEndianDecoder;
use dicom_encoding::decode::implicit_le::StandardImplicitVRLittleEndianDecoder;
use dicom_encoding::decode::Decode;
use dicom_encoding::encode::explicit_be::ExplicitVRBigEndianEncoder;
use dicom_encoding::encode::explicit_le::ExplicitVRLittleEndianEncoder;
use dicom_encoding::encode::implicit_le::ImplicitVRLittleEndianEncoder;
use dicom_encoding::encode::Encode;
use dicom_encoding::transfer_syntax::TransferSyntaxIndex;
use dicom_transfer_syntax_registry::TransferSyntaxRegistry;
use serde_json::{json, Value};
use std::str::FromStr;
use vcommon::*;

fn ts_uid(ts: &str) -> &'static str {
    match ts {
        "IVRLE" => "1.2.840.10008.1.2",
        "EVRLE" => "1.2.840.10008.1.2.1",
        "EVRBE" => "1.2.840.10008.1.2.2",
        _ => panic!("bad ts {ts}"),
    }
}

fn len_of(v: &Value) -> u32 {
    let b = j_bytes(v);
    u32::from_be_bytes([b[0], b[1], b[2], b[3]])
}
fn tag_of(v: &Value) -> Tag {
    let a = j_arr(v);
    Tag(j_usize(&a[0]) as u16, j_usize(&a[1]) as u16)
}

/// Result of an encoding attempt: Ok(bytes, reported count) | Err | Panic
enum Enc {
    Ok(Vec<u8>, Option<usize>),
    Err(String),
    Panic(String),
}

fn enc_header(ts: &str, variant: &str, h: DataElementHeader) -> Enc {
    let r = catch(|| {
        let mut out: Vec<u8> = Vec::new();
        let r = match (ts, variant) {
            ("IVRLE", "concrete") => ImplicitVRLittleEndianEncoder::default()
                .encode_element_header(&mut out, h)
                .map_err(|e| e.to_string()),
            ("EVRLE", "concrete") => ExplicitVRLittleEndianEncoder::default()
                .encode_element_header(&mut out, h)
                .map_err(|e| e.to_string()),
            ("EVRBE", "concrete") => ExplicitVRBigEndianEncoder::default()
                .encode_element_header(&mut out, h)
                .map_err(|e| e.to_string()),
            (_, _) => {
                let tsx = TransferSyntaxRegistry.get(ts_uid(ts)).expect("ts registered");
                let enc = tsx.encoder_for::<Vec<u8>>().expect("encoder");
                enc.encode_element_header(&mut out, h).map_err(|e| e.to_string())
            }
        };
        (out, r)
    });
    match r {
        Err(p) => Enc::Panic(p),
        Ok((_, Err(e))) => Enc::Err(e),
        Ok((out, Ok(n))) => Enc::Ok(out, Some(n)),
    }
}

/// kind: 0 item(len), 1 item delimiter, 2 sequence delimiter
fn enc_item(ts: &str, variant: &str, kind: u8, len: u32) -> Enc {
    let r = catch(|| {
        let mut out: Vec<u8> = Vec::new();
        macro_rules! go {
            ($e:expr) => {{
                let e = $e;
                match kind {
                    0 => e.encode_item_header(&mut out, len).map_err(|e| e.to_string()),
                    1 => e.encode_item_delimiter(&mut out).map_err(|e| e.to_string()),
                    _ => e.encode_sequence_delimiter(&mut out).map_err(|e| e.to_string()),
                }
            }};
        }
        let r = match (ts, variant) {
            ("IVRLE", "concrete") => go!(ImplicitVRLittleEndianEncoder::default()),
            ("EVRLE", "concrete") => go!(ExplicitVRLittleEndianEncoder::default()),
            ("EVRBE", "concrete") => go!(ExplicitVRBigEndianEncoder::default()),
            (_, _) => {
                let tsx = TransferSyntaxRegistry.get(ts_uid(ts)).expect("ts registered");
                let enc = tsx.encoder_for::<Vec<u8>>().expect("encoder");
                match kind {
                    0 => enc.encode_item_header(&mut out, len).map_err(|e| e.to_string()),
                    1 => enc.encode_item_delimiter(&mut out).map_err(|e| e.to_string()),
                    _ => enc.encode_sequence_delimiter(&mut out).map_err(|e| e.to_string()),
                }
            }
        };
        (out, r)
    });
    match r {
        Err(p) => Enc::Panic(p),
        Ok((_, Err(e))) => Enc::Err(e),
        Ok((out, Ok(()))) => Enc::Ok(out, None),
    }
}

/// decode a header with the named decoder; returns (tag, vr, len, reported bytes read, bytes consumed from the source)
fn dec_header(ts: &str, variant: &str, bytes: &[u8]) -> Result<Result<(Tag, VR, u32, usize, usize), String>, String> {
    catch(|| {
        // trailing sentinel bytes make over-reading visible
        let mut src: Vec<u8> = bytes.to_vec();
        src.extend_from_slice(&[0xAA; 16]);
        let total = src.len();
        let mut cur: &[u8] = &src[..];
        let r = match (ts, variant) {
            ("IVRLE", "concrete") => StandardImplicitVRLittleEndianDecoder::default().decode_header(&mut cur),
            ("EVRLE", "concrete") => ExplicitVRLittleEndianDecoder::default().decode_header(&mut cur),
            ("EVRBE", "concrete") => ExplicitVRBigEndianDecoder::default().decode_header(&mut cur),
            (_, "adaptive") => {
                // lock the adaptive decoder first, with a header that is unambiguous:
                // explicit: an unknown (private) tag with a valid VR code;
                // implicit: a length whose low bytes are not a VR code.
                let d = StandardAdaptiveVRLittleEndianDecoder::default();
                let lock: Vec<u8> = if ts == "EVRLE" {
                    vec![0x09, 0x00, 0x01, 0x10, b'L', b'O', 0x02, 0x00]
                } else {
                    vec![0x09, 0x00, 0x01, 0x10, 0x02, 0x00, 0x00, 0x00]
                };
                let mut l: &[u8] = &lock[..];
                d.decode_header(&mut l).expect("lock header decodes");
                d.decode_header(&mut cur)
            }
            (_, _) => {
                let tsx = TransferSyntaxRegistry.get(ts_uid(ts)).expect("ts registered");
                let d = tsx.decoder_for::<&[u8]>().expect("decoder");
                d.decode_header(&mut cur)
            }
        };
        match r {
            Ok((h, n)) => Ok((h.tag(), h.vr(), h.len.0, n, total - cur.len())),
            Err(e) => Err(e.to_string()),
        }
    })
}

fn dec_item(ts: &str, variant: &str, bytes: &[u8]) -> Result<Result<(SequenceItemHeader, usize), String>, String> {
    catch(|| {
        let mut src: Vec<u8> = bytes.to_vec();
        src.extend_from_slice(&[0xAA; 16]);
        let total = src.len();
        let mut cur: &[u8] = &src[..];
        let r = match (ts, variant) {
            ("IVRLE", "concrete") => StandardImplicitVRLittleEndianDecoder::default().decode_item_header(&mut cur),
            ("EVRLE", "concrete") => ExplicitVRLittleEndianDecoder::default().decode_item_header(&mut cur),
            ("EVRBE", "concrete") => ExplicitVRBigEndianDecoder::default().decode_item_header(&mut cur),
            (_, "adaptive") => StandardAdaptiveVRLittleEndianDecoder::default().decode_item_header(&mut cur),
            (_, _) => {
                let tsx = TransferSyntaxRegistry.get(ts_uid(ts)).expect("ts registered");
                let d = tsx.decoder_for::<&[u8]>().expect("decoder");
                d.decode_item_header(&mut cur)
            }
        };
        match r {
            Ok(h) => Ok((h, total - cur.len())),
            Err(e) => Err(e.to_string()),
        }
    })
}

fn run_cases(path: &str) {
    let cases = read_ndjson(path);
    let mut rep = Report::new();
    let mut premise_fail: Vec<Value> = Vec::new();
    let (mut n_enc, mut n_dec, mut n_err) = (0u64, 0u64, 0u64);
    let selftest = std::env::var("VERIF_SELFTEST").ok();
    for c in &cases {
        rep.cases += 1;
        let kind = j_str(&c["kind"]);
        let ts = j_str(&c["ts"]);
        match kind {
            "hdr" => {
                let vr_s = j_str(&c["vr"]);
                let vr = VR::from_str(vr_s).unwrap_or_else(|_| panic!("driver does not know VR {vr_s}"));
                let tag = tag_of(&c["tag"]);
                let len = len_of(&c["len"]);
                let h = DataElementHeader::new(tag, vr, Length(len));
                let form = if ts == "IVRLE" {
                    "implicit"
                } else if c["fits"].as_bool().unwrap() && j_usize(&c["n"]) == 8 || !c["fits"].as_bool().unwrap() {
                    "16-bit"
                } else {
                    "32-bit"
                };
                for variant in ["concrete", "dyn"] {
                    let e = enc_header(ts, variant, h);
                    n_enc += 1;
                    if !c["fits"].as_bool().unwrap() {
                        n_err += 1;
                        match e {
                            Enc::Err(_) => {}
                            Enc::Ok(b, _) => rep.mismatch(json!({
                                "fp": format!("{ts} {vr_s} header: length that does not fit 16 bits is not rejected"),
                                "case": c, "variant": variant, "got_bytes": bytes_json(&b)})),
                            Enc::Panic(p) => rep.mismatch(json!({
                                "fp": format!("{ts} {vr_s} header: encoder panics on a length that does not fit 16 bits"),
                                "case": c, "variant": variant, "panic": p})),
                        }
                        continue;
                    }
                    let mut exp = j_bytes(&c["bytes"]);
                    if selftest.as_deref() == Some("hdr-bytes") && vr_s == "OV" && ts == "EVRBE" {
                        exp[6] ^= 1;
                    }
                    match e {
                        Enc::Ok(b, n) => {
                            if b != exp {
                                rep.mismatch(json!({
                                    "fp": format!("{ts} {vr_s} header ({form} length form): encoded bytes differ from PS3.5 layout"),
                                    "case": c, "variant": variant, "got_bytes": bytes_json(&b)}));
                            } else if n != Some(j_usize(&c["n"])) || n != Some(b.len()) {
                                rep.mismatch(json!({
                                    "fp": format!("{ts} {vr_s} header: reported byte count differs from bytes written"),
                                    "case": c, "variant": variant, "reported": n, "written": b.len()}));
                            }
                        }
                        Enc::Err(er) => rep.mismatch(json!({
                            "fp": format!("{ts} {vr_s} header ({form} length form): encoder refuses a representable header"),
                            "case": c, "variant": variant, "error": er})),
                        Enc::Panic(p) => rep.mismatch(json!({
                            "fp": format!("{ts} {vr_s} header: encoder panics"), "case": c, "variant": variant, "panic": p})),
                    }
                }
                if !c["fits"].as_bool().unwrap() {
                    continue;
                }
                // decoding of the bytes PS3.5 prescribes
                let exp = j_bytes(&c["bytes"]);
                let dtag = tag_of(&c["dtag"]);
                let dvr = VR::from_str(j_str(&c["dvr"])).unwrap();
                let dlen = len_of(&c["dlen"]);
                let dn = j_usize(&c["dn"]);
                if ts == "IVRLE" {
                    // premise: the dictionary fact used by the spec is the shipped dictionary's
                    let real = if tag == Tag(0x7FE0, 0x0010) {
                        VR::OW
                    } else {
                        StandardDataDictionary.by_tag(tag).map(|e| e.vr().relaxed()).unwrap_or(VR::UN)
                    };
                    if real != dvr && premise_fail.len() < 5 {
                        premise_fail.push(json!({"tag": [tag.0, tag.1], "spec": dvr.to_string(), "dictionary": real.to_string()}));
                        continue;
                    }
                }
                let mut variants = vec!["concrete", "dyn"];
                if ts != "EVRBE" {
                    variants.push("adaptive");
                }
                for variant in variants {
                    n_dec += 1;
                    match dec_header(ts, variant, &exp) {
                        Err(p) => rep.mismatch(json!({
                            "fp": format!("{ts} {vr_s} header: decoder panics"), "case": c, "variant": variant, "panic": p})),
                        Ok(Err(e)) => rep.mismatch(json!({
                            "fp": format!("{ts} {vr_s} header ({form} length form): decoder rejects a valid header"),
                            "case": c, "variant": variant, "error": e})),
                        Ok(Ok((t, v, l, n, consumed))) => {
                            if t != dtag || v != dvr || l != dlen {
                                rep.mismatch(json!({
                                    "fp": format!("{ts} {vr_s} header ({form} length form): decoded tag/VR/length differ"),
                                    "case": c, "variant": variant,
                                    "got": {"tag": [t.0, t.1], "vr": v.to_string(), "len": l}}));
                            } else if n != dn || consumed != dn {
                                rep.mismatch(json!({
                                    "fp": format!("{ts} {vr_s} header ({form} length form): bytes read differ from the layout size"),
                                    "case": c, "variant": variant, "reported": n, "consumed": consumed}));
                            }
                        }
                    }
                }
            }
            "item" | "itemdelim" | "seqdelim" => {
                let k = match kind {
                    "item" => 0u8,
                    "itemdelim" => 1,
                    _ => 2,
                };
                let len = if k == 0 { len_of(&c["len"]) } else { 0 };
                let exp = j_bytes(&c["bytes"]);
                for variant in ["concrete", "dyn"] {
                    n_enc += 1;
                    match enc_item(ts, variant, k, len) {
                        Enc::Ok(b, _) => {
                            if b != exp {
                                rep.mismatch(json!({"fp": format!("{ts} {kind} header: encoded bytes differ from PS3.5 layout"),
                                    "case": c, "variant": variant, "got_bytes": bytes_json(&b)}));
                            }
                        }
                        Enc::Err(e) => rep.mismatch(json!({"fp": format!("{ts} {kind} header: encoder error"), "case": c, "variant": variant, "error": e})),
                        Enc::Panic(p) => rep.mismatch(json!({"fp": format!("{ts} {kind} header: encoder panics"), "case": c, "variant": variant, "panic": p})),
                    }
                }
                let mut variants = vec!["concrete", "dyn"];
                if ts != "EVRBE" {
                    variants.push("adaptive");
                }
                for variant in variants {
                    n_dec += 1;
                    match dec_item(ts, variant, &exp) {
                        Err(p) => rep.mismatch(json!({"fp": format!("{ts} {kind} header: decoder panics"), "case": c, "variant": variant, "panic": p})),
                        Ok(Err(e)) => rep.mismatch(json!({"fp": format!("{ts} {kind} header: decoder rejects a valid header"), "case": c, "variant": variant, "error": e})),
                        Ok(Ok((h, consumed))) => {
                            let ok = match (k, h) {
                                (0, SequenceItemHeader::Item { len: l }) => l.0 == len,
                                (1, SequenceItemHeader::ItemDelimiter) => true,
                                (2, SequenceItemHeader::SequenceDelimiter) => true,
                                _ => false,
                            };
                            if !ok {
                                rep.mismatch(json!({"fp": format!("{ts} {kind} header: decoded kind/length differ"), "case": c, "variant": variant, "got": format!("{h:?}")}));
                            } else if consumed != 8 {
                                rep.mismatch(json!({"fp": format!("{ts} {kind} header: bytes read differ from 8"), "case": c, "variant": variant, "consumed": consumed}));
                            }
                        }
                    }
                }
            }
            other => panic!("unknown case kind {other}"),
        }
    }
    rep.extra.insert("encodes".into(), json!(n_enc));
    rep.extra.insert("decodes".into(), json!(n_dec));
    rep.extra.insert("overflow_cases".into(), json!(n_err));
    rep.extra.insert("premise_fail".into(), Value::Array(premise_fail));
    rep.print();
}

fn run_vrcodes(out: &str) {
    let mut w = NdjsonWriter::create(out);
    let selftest = std::env::var("VERIF_SELFTEST").ok();
    let mut calls = 0u64;
    let mut panics = 0u64;
    for a in 0..=255u16 {
        let mut rec: Vec<Value> = Vec::new();
        let mut back: Vec<Value> = Vec::new();
        let mut strs: Vec<Value> = Vec::new();
        for b in 0..=255u16 {
            calls += 1;
            let code = [a as u8, b as u8];
            match catch(|| VR::from_binary(code)) {
                Ok(Some(vr)) => {
                    rec.push(json!(b));
                    if vr.to_bytes() == code {
                        back.push(json!(b));
                    }
                }
                Ok(None) => {}
                Err(_) => panics += 1,
            }
            // the textual entry point, for codes that are valid UTF-8
            if let Ok(s) = std::str::from_utf8(&code) {
                if VR::from_str(s).is_ok() {
                    strs.push(json!(b));
                }
            }
        }
        if selftest.as_deref() == Some("vrcode") && a == b'O' as u16 {
            rec.push(json!(b'X' as u16));
        }
        w.emit(&json!({"ev": "vrrow", "a": a, "rec": rec, "back": back, "strs": strs}));
    }
    let n = w.finish();
    let mut rep = Report::new();
    rep.cases = calls as usize;
    rep.extra.insert("events".into(), json!(n));
    rep.extra.insert("panics".into(), json!(panics));
    rep.print();
}

fn main() {
    quiet_panics();
    let a = args_map();
    match a.get("_0").map(|s| s.as_str()) {
        Some("cases") => run_cases(a.get("cases").expect("--cases")),
        Some("vrcodes") => run_vrcodes(a.get("out").expect("--out")),
        _ => {
            eprintln!("usage: drv_header cases --cases F | vrcodes --out F");
            std::process::exit(2);
        }
    }
}
