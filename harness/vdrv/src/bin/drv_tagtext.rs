//! C14 conformance driver: text syntax of tags and attribute selectors.
//!
//!   drv_tagtext replay --cases <ndjson> --out <dir>
//!        TLC cases {kind:"tag"|"str"|"sel", s:[code points], res: expected, ...} executed on
//!        Tag::from_str / Display / StandardDataDictionary::parse_tag / parse_selector /
//!        AttributeSelector Display; mismatches reported.
//!   drv_tagtext record --n <N> --keywords <ndjson> --out <dir>
//!        seeded random inputs (uniform tags in every form, arbitrary Unicode strings of length
//!        0-16, mutated valid forms, strings of critical UTF-8 byte lengths, every dictionary
//!        keyword, random selectors of depth 1-4) -> trace.ndjson for Trace_TagText.tla.
//!
//! No oracle here: expected values come from TLC (replay) or TLC judges the record.

use dicom_core::dictionary::DataDictionary;
use dicom_core::ops::{AttributeSelector, AttributeSelectorStep};
use dicom_core::Tag;
use dicom_dictionary_std::StandardDataDictionary;
use serde_json::{json, Value};
use vcommon::*;

/// keep at most 3 full mismatch records per distinct fingerprint (all are counted)
trait MismatchFp {
    fn mismatch_fp(&mut self, v: Value);
}
impl MismatchFp for Report {
    fn mismatch_fp(&mut self, v: Value) {
        self.mismatch_count += 1;
        let same = self.mismatches.iter().filter(|m| m["fp"] == v["fp"]).count();
        if same < 3 && self.mismatches.len() < self.cap {
            self.mismatches.push(v);
        }
    }
}

fn cps_json(s: &str) -> Value {
    Value::Array(s.chars().map(|c| Value::from(c as u32)).collect())
}
fn from_cps(v: &Value) -> String {
    j_arr(v)
        .iter()
        .map(|x| char::from_u32(x.as_u64().expect("code point") as u32).expect("valid scalar"))
        .collect()
}
fn digits(n: u32) -> Value {
    Value::Array(n.to_string().bytes().map(|b| Value::from((b - b'0') as u32)).collect())
}
fn from_digits(v: &Value) -> u32 {
    let s: String = j_arr(v).iter().map(|d| char::from(b'0' + j_usize(d) as u8)).collect();
    s.parse::<u32>().expect("item index fits u32")
}
fn tag_json(t: Tag) -> Value {
    json!([t.0, t.1])
}

/// "ok"/"err"/"panic" + tag
fn parse_tag(s: &str) -> (String, Tag) {
    let s2 = s.to_string();
    match catch(move || s2.parse::<Tag>()) {
        Ok(Ok(t)) => ("ok".into(), t),
        Ok(Err(_)) => ("err".into(), Tag(0, 0)),
        Err(_) => ("panic".into(), Tag(0, 0)),
    }
}

fn sel_json(sel: &AttributeSelector) -> Value {
    let mut tags = vec![];
    let mut items = vec![];
    for st in sel.iter() {
        match st {
            AttributeSelectorStep::Tag(t) => tags.push(tag_json(*t)),
            AttributeSelectorStep::Nested { tag, item } => {
                tags.push(tag_json(*tag));
                items.push(digits(*item));
            }
        }
    }
    json!({"ok": true, "tags": tags, "items": items})
}
fn bad_sel() -> Value {
    json!({"ok": false, "tags": [], "items": []})
}

/// (panic, result)
fn parse_selector(s: &str) -> (bool, Value) {
    let s2 = s.to_string();
    match catch(move || StandardDataDictionary.parse_selector(&s2).ok().map(|x| sel_json(&x))) {
        Ok(Some(v)) => (false, v),
        Ok(None) => (false, bad_sel()),
        Err(_) => (true, bad_sel()),
    }
}

fn build_selector(tags: &[Tag], items: &[u32]) -> Option<AttributeSelector> {
    let n = tags.len();
    let steps: Vec<AttributeSelectorStep> = (0..n)
        .map(|k| {
            if k + 1 < n {
                AttributeSelectorStep::Nested { tag: tags[k], item: items[k] }
            } else {
                AttributeSelectorStep::Tag(tags[k])
            }
        })
        .collect();
    AttributeSelector::new(steps)
}

fn sel_equal(a: &Value, b: &Value) -> bool {
    a["ok"] == b["ok"] && (a["ok"] == false || (a["tags"] == b["tags"] && a["items"] == b["items"]))
}

fn replay(cases: &str) {
    let mut rep = Report::new();
    let mut nontrivial = 0usize;
    for case in read_ndjson(cases) {
        rep.cases += 1;
        let kind = j_str(&case["kind"]).to_string();
        let s = from_cps(&case["s"]);
        match kind.as_str() {
            "tag" | "str" => {
                let exp_ok = case["res"]["ok"].as_bool().unwrap();
                let exp_tag = Tag(j_usize(&case["res"]["tag"][0]) as u16, j_usize(&case["res"]["tag"][1]) as u16);
                if !s.is_empty() {
                    nontrivial += 1;
                }
                let (res, tag) = parse_tag(&s);
                let form = if kind == "tag" { "a valid tag form" } else { "a string" };
                if res == "panic" {
                    rep.mismatch_fp(json!({"fp": format!("Tag::from_str panics on {} ({})", form, if s.is_ascii() {"ASCII"} else {"non-ASCII"}),
                        "case": case, "text": s}));
                } else if (res == "ok") != exp_ok {
                    rep.mismatch_fp(json!({"fp": if exp_ok {"Tag::from_str rejects an accepted form".to_string()} else {"Tag::from_str accepts a string that is not a tag form".to_string()},
                        "case": case, "text": s, "got": res, "got_tag": tag_json(tag)}));
                } else if exp_ok && tag != exp_tag {
                    rep.mismatch_fp(json!({"fp": "Tag::from_str yields a different tag", "case": case, "text": s, "got_tag": tag_json(tag)}));
                }
                // the dictionary's tag parser must agree on tag forms
                if exp_ok {
                    let s2 = s.clone();
                    match catch(move || StandardDataDictionary.parse_tag(&s2)) {
                        Ok(Some(t)) if t == exp_tag => {}
                        other => rep.mismatch_fp(json!({"fp": "DataDictionary::parse_tag disagrees on a tag form", "case": case, "text": s,
                            "got": format!("{:?}", other)})),
                    }
                }
                if kind == "tag" {
                    let shown = Tag(j_usize(&case["tag"][0]) as u16, j_usize(&case["tag"][1]) as u16).to_string();
                    if shown != from_cps(&case["show"]) {
                        rep.mismatch_fp(json!({"fp": "Display of Tag differs from (GGGG,EEEE)", "case": case, "got": shown}));
                    }
                }
            }
            "sel" => {
                nontrivial += 1;
                let tags: Vec<Tag> = j_arr(&case["sel"]["tags"]).iter().map(|t| Tag(j_usize(&t[0]) as u16, j_usize(&t[1]) as u16)).collect();
                let items: Vec<u32> = j_arr(&case["sel"]["items"]).iter().map(from_digits).collect();
                let depth = tags.len();
                // printer
                let (t2, i2) = (tags.clone(), items.clone());
                match catch(move || build_selector(&t2, &i2).map(|x| x.to_string())) {
                    Ok(Some(shown)) => {
                        if shown != from_cps(&case["show"]) {
                            rep.mismatch_fp(json!({"fp": format!("Display of AttributeSelector differs from the documented syntax (depth {depth})"),
                                "case": case, "got": shown}));
                        }
                    }
                    other => rep.mismatch_fp(json!({"fp": "AttributeSelector cannot be constructed/printed", "case": case, "got": format!("{:?}", other)})),
                }
                // parser on the text chosen by TLC (canonical or alternative key forms)
                let (panic, got) = parse_selector(&s);
                if panic {
                    rep.mismatch_fp(json!({"fp": "parse_selector panics", "case": case, "text": s}));
                } else if !sel_equal(&got, &case["res"]) {
                    let canonical = s == from_cps(&case["show"]);
                    rep.mismatch_fp(json!({"fp": format!("parse_selector differs on {} (depth {depth})", if canonical {"the Display form"} else {"an alternative key form"}),
                        "case": case, "text": s, "got": got}));
                }
            }
            k => panic!("unknown case kind {k}"),
        }
    }
    rep.extra.insert("nontrivial".into(), Value::from(nontrivial as u64));
    rep.print();
}

// ---------------------------------------------------------------------------------------------

fn rand_tag(rng: &mut Rng) -> Tag {
    match rng.below(8) {
        0 => {
            let b = [0u16, 1, 0x0010, 0x00ff, 0x0100, 0x7fe0, 0xfffe, 0xffff, 0xabcd, 0xa0b1];
            Tag(*rng.pick(&b), *rng.pick(&b))
        }
        _ => Tag(rng.next_u64() as u16, rng.next_u64() as u16),
    }
}

fn hex4(n: u16, style: u64, rng: &mut Rng) -> String {
    match style {
        0 => format!("{:04X}", n),
        1 => format!("{:04x}", n),
        _ => format!("{:04x}", n).chars().map(|c| if rng.coin() { c.to_ascii_uppercase() } else { c }).collect(),
    }
}
fn tag_text(t: Tag, form: u64, rng: &mut Rng) -> String {
    let style = rng.below(3);
    let g = hex4(t.0, style, rng);
    let e = hex4(t.1, style, rng);
    match form {
        0 => format!("({g},{e})"),
        1 => format!("{g},{e}"),
        _ => format!("{g}{e}"),
    }
}

fn rand_scalar(rng: &mut Rng) -> char {
    loop {
        let c = match rng.below(16) {
            0..=4 => *rng.pick(&['0', '1', '7', '9', 'a', 'f', 'A', 'F', 'c', 'E']) as u32,
            5 => *rng.pick(&['(', ')', ',', '.', '[', ']', ' ', '+', '-']) as u32,
            6 => *rng.pick(&['g', 'G', '/', ':', '@', '`', 'x', 'X']) as u32,
            7 => rng.range(0, 0x7f) as u32,
            8 => rng.range(0x80, 0x7ff) as u32,
            9 | 10 => rng.range(0x800, 0xffff) as u32,
            11 => rng.range(0x10000, 0x10ffff) as u32,
            12 => *rng.pick(&[0xff10u32, 0xff11, 0xff21, 0xff41, 0x0660, 0x06f1, 0x20ac, 0xe9]),
            _ => rng.range(0x30, 0x66) as u32,
        };
        if let Some(ch) = char::from_u32(c) {
            return ch;
        }
    }
}

fn arbitrary(rng: &mut Rng) -> String {
    let n = rng.below(17) as usize;
    (0..n).map(|_| rand_scalar(rng)).collect()
}

/// a string whose UTF-8 length is one of the lengths the parser dispatches on
fn critical_len(rng: &mut Rng) -> String {
    let target = *rng.pick(&[8usize, 9, 11]);
    loop {
        let mut s = String::new();
        if target == 11 && rng.coin() {
            s.push('(');
        }
        while s.len() < target {
            let ch = match rng.below(5) {
                0 | 1 => *rng.pick(&['0', 'a', 'F', '9', ',', ')']),
                2 => *rng.pick(&['\u{e9}', '\u{3b1}', '\u{7ff}']),
                3 => *rng.pick(&['\u{20ac}', '\u{ff11}', '\u{4e2d}']),
                _ => *rng.pick(&['\u{1f600}', '\u{10000}']),
            };
            s.push(ch);
        }
        if s.len() == target {
            return s;
        }
    }
}

fn mutate(valid: &str, rng: &mut Rng) -> String {
    let mut v: Vec<char> = valid.chars().collect();
    let k = 1 + rng.below(2);
    for _ in 0..k {
        let op = rng.below(4);
        let pos = rng.below(v.len() as u64 + 1) as usize;
        match op {
            0 if !v.is_empty() => {
                let p = pos.min(v.len() - 1);
                v[p] = rand_scalar(rng);
            }
            1 if !v.is_empty() => {
                v.remove(pos.min(v.len() - 1));
            }
            2 => v.insert(pos, rand_scalar(rng)),
            _ if v.len() > 1 => {
                let p = pos.min(v.len() - 2);
                v.swap(p, p + 1);
            }
            _ => {}
        }
    }
    v.into_iter().collect()
}

struct Kw {
    kw: String,
    row: Value,
}

fn record(n: usize, keywords: &str, out: &str) {
    std::fs::create_dir_all(out).expect("mkdir");
    let path = format!("{out}/trace.ndjson");
    let mut w = NdjsonWriter::create(&path);
    let mut rng = Rng::new(seed_from_env() ^ 0xC14);
    let mut rep = Report::new();
    let kws: Vec<Kw> = read_ndjson(keywords)
        .into_iter()
        .map(|r| Kw { kw: j_str(&r["kw"]).to_string(), row: json!({"kw": cps_json(j_str(&r["kw"])), "kind": r["kind"], "g": r["g"], "e": r["e"]}) })
        .collect();
    let mut panics = 0usize;
    let mut accepted = 0usize;
    let emit_tag = |w: &mut NdjsonWriter, s: &str, class: &str, panics: &mut usize, accepted: &mut usize| {
        let (res, tag) = parse_tag(s);
        if res == "panic" {
            *panics += 1;
        }
        if res == "ok" {
            *accepted += 1;
        }
        w.emit(&json!({"ev": "tag", "class": class, "ascii": s.is_ascii(), "s": cps_json(s), "res": res, "tag": tag_json(tag)}));
    };

    // 1. uniform + boundary tags: Display, and parse of every form/case
    for _ in 0..n {
        let t = rand_tag(&mut rng);
        let shown = t.to_string();
        w.emit(&json!({"ev": "show", "tag": tag_json(t), "s": cps_json(&shown)}));
        emit_tag(&mut w, &shown, "display form", &mut panics, &mut accepted);
        let form = rng.below(3);
        let s = tag_text(t, form, &mut rng);
        emit_tag(&mut w, &s, "valid form", &mut panics, &mut accepted);
        // 2. mutated valid forms
        let m = mutate(&s, &mut rng);
        emit_tag(&mut w, &m, "mutated form", &mut panics, &mut accepted);
    }
    // 3. arbitrary Unicode strings of 0..16 code points and strings of critical byte lengths
    for _ in 0..(2 * n) {
        let s = arbitrary(&mut rng);
        emit_tag(&mut w, &s, "arbitrary string", &mut panics, &mut accepted);
    }
    for _ in 0..n {
        let s = critical_len(&mut rng);
        emit_tag(&mut w, &s, "string of UTF-8 length 8/9/11", &mut panics, &mut accepted);
    }
    // 4. every dictionary keyword: not a tag form; resolves to its tag in a selector
    let mut kw_events = 0usize;
    for (i, k) in kws.iter().enumerate() {
        emit_tag(&mut w, &k.kw, "dictionary keyword", &mut panics, &mut accepted);
        let (panic, res) = parse_selector(&k.kw);
        if panic {
            panics += 1;
        }
        w.emit(&json!({"ev": "selparse", "class": "keyword", "s": cps_json(&k.kw), "dict": [k.row], "panic": panic, "res": res}));
        kw_events += 1;
        // keyword as an intermediate step, with and without item index, followed by another key
        if i % 4 == 0 {
            let other = &kws[rng.below(kws.len() as u64) as usize];
            let item = match rng.below(4) {
                0 => 0u32,
                1 => 1,
                2 => u32::MAX,
                _ => rng.next_u64() as u32,
            };
            let t = rand_tag(&mut rng);
            let form = rng.below(3);
            let tail = if rng.coin() { other.kw.clone() } else { tag_text(t, form, &mut rng) };
            let s = if item == 0 && rng.coin() { format!("{}.{}", k.kw, tail) } else { format!("{}[{}].{}", k.kw, item, tail) };
            let (panic, res) = parse_selector(&s);
            if panic {
                panics += 1;
            }
            w.emit(&json!({"ev": "selparse", "class": "keyword path", "s": cps_json(&s), "dict": [k.row, other.row], "panic": panic, "res": res}));
            kw_events += 1;
        }
    }
    // 5. random selectors of depth 1..4: Display, parse back
    for _ in 0..n {
        let depth = 1 + rng.below(4) as usize;
        let tags: Vec<Tag> = (0..depth).map(|_| rand_tag(&mut rng)).collect();
        let items: Vec<u32> = (0..depth - 1)
            .map(|_| match rng.below(5) {
                0 => 0,
                1 => 1,
                2 => u32::MAX,
                3 => rng.below(100) as u32,
                _ => rng.next_u64() as u32,
            })
            .collect();
        let (t2, i2) = (tags.clone(), items.clone());
        let sel = json!({"tags": tags.iter().map(|t| tag_json(*t)).collect::<Vec<_>>(), "items": items.iter().map(|i| digits(*i)).collect::<Vec<_>>()});
        match catch(move || {
            let x = build_selector(&t2, &i2).expect("non-empty selector ending in a tag step");
            let s = x.to_string();
            let back = StandardDataDictionary.parse_selector(&s).ok().map(|b| sel_json(&b)).unwrap_or_else(bad_sel);
            (s, back)
        }) {
            Ok((s, back)) => w.emit(&json!({"ev": "sel", "depth": depth, "sel": sel, "res": "ok", "s": cps_json(&s), "back": back})),
            Err(msg) => {
                panics += 1;
                w.emit(&json!({"ev": "sel", "depth": depth, "sel": sel, "res": "panic", "msg": msg}))
            }
        }
        // the same selector with keys in random documented forms and "[0]" possibly omitted
        let mut s = String::new();
        for k in 0..depth {
            let form = rng.below(3);
            s.push_str(&tag_text(tags[k], form, &mut rng));
            if k + 1 < depth {
                if !(items[k] == 0 && rng.coin()) {
                    s.push_str(&format!("[{}]", items[k]));
                }
                s.push('.');
            }
        }
        let (panic, res) = parse_selector(&s);
        if panic {
            panics += 1;
        }
        w.emit(&json!({"ev": "selparse", "class": "random forms", "depth": depth, "s": cps_json(&s), "dict": [], "panic": panic, "res": res}));
    }
    let lines = w.finish();
    rep.cases = lines;
    rep.extra.insert("trace".into(), Value::from(path));
    rep.extra.insert("events".into(), Value::from(lines as u64));
    rep.extra.insert("keywords".into(), Value::from(kws.len() as u64));
    rep.extra.insert("keyword_events".into(), Value::from(kw_events as u64));
    rep.extra.insert("panics".into(), Value::from(panics as u64));
    rep.extra.insert("accepted_tag_strings".into(), Value::from(accepted as u64));
    rep.print();
}

fn main() {
    quiet_panics();
    let a = args_map();
    let mode = a.get("_0").map(String::as_str).unwrap_or("");
    let out = a.get("out").cloned().unwrap_or_else(|| "work/C14/out".into());
    match mode {
        "replay" => replay(a.get("cases").expect("--cases")),
        "record" => record(
            a.get("n").and_then(|s| s.parse().ok()).unwrap_or(1000),
            a.get("keywords").expect("--keywords"),
            &out,
        ),
        _ => {
            eprintln!("usage: drv_tagtext replay --cases F | record --n N --keywords F --out D");
            std::process::exit(2);
        }
    }
}
