//! C28 / C29 conformance driver: association negotiation.
//!
//!   drv_negotiate facts                                  registry facts for the TS universe (one JSON line on stdout)
//!   drv_negotiate c28 --cases <ndjson> [--selftest]      TLC cases -> real acceptor over loopback TCP -> compare
//!   drv_negotiate c28random --n <N> --out <ndjson>       seeded larger requests -> observations for Trace_Negotiation
//!   drv_negotiate c29 --cases <ndjson> --out <ndjson>    real requestor vs real acceptor through a recording proxy
//!
//! Python/Rust only transport: the expected answers come from Negotiation.tla
//! (TLC), either inside the case (c28, c29) or by trace validation (c28random, c29).

#[path = "../assoc_common.rs"]
mod assoc_common;
use assoc_common::*;

use dicom_encoding::transfer_syntax::TransferSyntaxIndex;
use dicom_transfer_syntax_registry::TransferSyntaxRegistry;
use dicom_ul::association::client::ClientAssociationOptions;
use dicom_ul::association::server::{AccessControl, DefaultNegotiation, ServerAssociationOptions};
use dicom_ul::association::{read_pdu_from_wire, SyncAssociation};
use dicom_ul::pdu::{
    AssociationRJResult, AssociationRJServiceProviderASCEReason, AssociationRJServiceProviderPresentationReason,
    AssociationRJServiceUserReason, AssociationRJSource, AssociationRQ, PDataValue, PDataValueType,
    PresentationContextNegotiated, PresentationContextProposed, PresentationContextResultReason, UserVariableItem,
    MAXIMUM_PDU_SIZE,
};
use dicom_ul::{write_pdu, Pdu};
use serde_json::{json, Value};
use std::collections::BTreeMap;
use std::io::Write;
use std::net::{TcpListener, TcpStream};
use std::sync::mpsc::{channel, Receiver, Sender};
use std::time::Duration;
use vcommon::*;

const TS_UNIVERSE: &[&str] = &[
    "1.2.840.10008.1.2",
    "1.2.840.10008.1.2.1",
    "1.2.840.10008.1.2.2",
    "1.2.840.10008.1.2.4.999",
    "1.2.840.10008.1.2.4.90",
    "1.2.840.10008.1.2.4.50",
    "1.2.840.10008.1.2.5",
    "1.2.840.10008.1.2.1.99",
];

fn reason_code(r: &PresentationContextResultReason) -> u64 {
    match r {
        PresentationContextResultReason::Acceptance => 0,
        PresentationContextResultReason::UserRejection => 1,
        PresentationContextResultReason::NoReason => 2,
        PresentationContextResultReason::AbstractSyntaxNotSupported => 3,
        PresentationContextResultReason::TransferSyntaxesNotSupported => 4,
    }
}

/// PS3.8 Table 9-21 numbering
fn rj_codes(s: &AssociationRJSource) -> (u64, u64) {
    match s {
        AssociationRJSource::ServiceUser(r) => (
            1,
            match r {
                AssociationRJServiceUserReason::NoReasonGiven => 1,
                AssociationRJServiceUserReason::ApplicationContextNameNotSupported => 2,
                AssociationRJServiceUserReason::CallingAETitleNotRecognized => 3,
                AssociationRJServiceUserReason::CalledAETitleNotRecognized => 7,
                AssociationRJServiceUserReason::Reserved(x) => *x as u64,
            },
        ),
        AssociationRJSource::ServiceProviderASCE(r) => (
            2,
            match r {
                AssociationRJServiceProviderASCEReason::NoReasonGiven => 1,
                AssociationRJServiceProviderASCEReason::ProtocolVersionNotSupported => 2,
            },
        ),
        AssociationRJSource::ServiceProviderPresentation(r) => (
            3,
            match r {
                AssociationRJServiceProviderPresentationReason::TemporaryCongestion => 1,
                AssociationRJServiceProviderPresentationReason::LocalLimitExceeded => 2,
                AssociationRJServiceProviderPresentationReason::Reserved(x) => *x as u64,
            },
        ),
    }
}

fn pcs_json(pcs: &[PresentationContextNegotiated]) -> Value {
    Value::Array(
        pcs.iter()
            .map(|p| json!({"id": p.id, "reason": reason_code(&p.reason), "abs": uid_json(&p.abstract_syntax), "ts": uid_json(&p.transfer_syntax)}))
            .collect(),
    )
}

/// projection of the acceptor's answer as seen on the wire
fn answer_json(pdu: &Pdu) -> Value {
    match pdu {
        Pdu::AssociationAC(ac) => json!({
            "type": "AC",
            "results": ac.presentation_contexts.iter().map(|r| json!({"id": r.id, "reason": reason_code(&r.reason), "ts": uid_json(&r.transfer_syntax)})).collect::<Vec<_>>(),
            "maxlen": ac.user_variables.iter().find_map(|u| match u { UserVariableItem::MaxLength(l) => Some(halves(*l)), _ => None }).unwrap_or(json!([])),
            "pv": ac.protocol_version,
        }),
        Pdu::AssociationRJ(rj) => {
            let (s, r) = rj_codes(&rj.source);
            json!({"type": "RJ", "source": s, "reason": r,
                   "result": match rj.result { AssociationRJResult::Permanent => 1, AssociationRJResult::Transient => 2 }})
        }
        Pdu::AbortRQ { .. } => json!({"type": "Abort"}),
        _ => json!({"type": "Other", "pdu": pdu.short_description().to_string()}),
    }
}

fn build_rq(req: &Value) -> Pdu {
    let mut uv = Vec::new();
    if let Some(m) = u32_of(&req["maxlen"]) {
        uv.push(UserVariableItem::MaxLength(m));
    }
    uv.push(UserVariableItem::ImplementationClassUID("1.2.826.0.1.3680043.9.9999.1".into()));
    uv.push(UserVariableItem::ImplementationVersionName("VERIF".into()));
    Pdu::AssociationRQ(AssociationRQ {
        protocol_version: req["pv"].as_u64().unwrap() as u16,
        calling_ae_title: "VERIF-SCU".into(),
        called_ae_title: j_str(&req["called"]).to_string(),
        application_context_name: j_str(&req["appctx"]).to_string(),
        presentation_contexts: j_arr(&req["pcs"])
            .iter()
            .map(|pc| PresentationContextProposed {
                id: pc["id"].as_u64().unwrap() as u8,
                abstract_syntax: uid_text(&pc["abs"]),
                transfer_syntaxes: j_arr(&pc["tss"]).iter().map(uid_text).collect(),
            })
            .collect(),
        user_variables: uv,
    })
}

fn serve_loop<A>(opts: ServerAssociationOptions<'static, A, DefaultNegotiation>, listener: TcpListener, n: usize, tx: Sender<Value>)
where
    A: AccessControl,
{
    for _ in 0..n {
        let (stream, _) = match listener.accept() {
            Ok(x) => x,
            Err(e) => {
                let _ = tx.send(json!({"est": false, "err": format!("accept: {e}")}));
                continue;
            }
        };
        let _ = stream.set_nodelay(true);
        let r = catch(|| opts.establish(stream));
        let view = match r {
            Ok(Ok(assoc)) => json!({"est": true, "pcs": pcs_json(assoc.presentation_contexts()),
                                     "peermax": halves(assoc.requestor_max_pdu_length()),
                                     "localmax": halves(assoc.acceptor_max_pdu_length())}),
            Ok(Err(e)) => json!({"est": false, "err": format!("{e}")}),
            Err(p) => json!({"est": false, "panic": p}),
        };
        let _ = tx.send(view);
    }
}

/// start a real acceptor with the given configuration that serves `n` connections
fn start_acceptor(cfg: &Value, n: usize, maxpdu: Option<u32>) -> (std::net::SocketAddr, Receiver<Value>, std::thread::JoinHandle<()>) {
    let listener = TcpListener::bind("127.0.0.1:0").expect("bind");
    let addr = listener.local_addr().unwrap();
    let (tx, rx) = channel();
    let mut opts = ServerAssociationOptions::new()
        .ae_title(j_str(&cfg["aet"]).to_string())
        .promiscuous(cfg["promiscuous"].as_bool().unwrap())
        .read_timeout(Duration::from_secs(20));
    // the acceptor's own maximum PDU length: explicit argument, else the case's cfg.maxpdu
    let own = maxpdu.or_else(|| cfg.get("maxpdu").and_then(u32_of));
    if let Some(m) = own {
        opts = opts.max_pdu_length(m);
    }
    for a in j_arr(&cfg["abs"]) {
        opts = opts.with_abstract_syntax(j_str(a).to_string());
    }
    for t in j_arr(&cfg["tss"]) {
        opts = opts.with_transfer_syntax(j_str(t).to_string());
    }
    let called = j_str(&cfg["access"]) == "called";
    let h = std::thread::spawn(move || {
        if called {
            serve_loop(opts.accept_called_ae_title(), listener, n, tx)
        } else {
            serve_loop(opts, listener, n, tx)
        }
    });
    (addr, rx, h)
}

/// send one request to the acceptor at addr; returns (answer projection, acceptor view)
fn exchange(addr: std::net::SocketAddr, req: &Value, rx: &Receiver<Value>) -> (Value, Value) {
    let answer = (|| -> Result<Value, String> {
        let mut s = TcpStream::connect(addr).map_err(|e| format!("connect: {e}"))?;
        let _ = s.set_nodelay(true);
        s.set_read_timeout(Some(Duration::from_secs(20))).ok();
        let mut bytes = Vec::new();
        write_pdu(&mut bytes, &build_rq(req)).map_err(|e| format!("encode rq: {e}"))?;
        s.write_all(&bytes).map_err(|e| format!("send rq: {e}"))?;
        let mut buf = bytes::BytesMut::new();
        let pdu = read_pdu_from_wire(&mut s, &mut buf, MAXIMUM_PDU_SIZE, false).map_err(|e| format!("no answer: {e}"))?;
        Ok(answer_json(&pdu))
    })()
    .unwrap_or_else(|e| json!({"type": "None", "err": e}));
    let view = rx.recv_timeout(Duration::from_secs(30)).unwrap_or(json!({"est": false, "err": "acceptor thread silent"}));
    (answer, view)
}

fn contains(arr: &Value, x: &Value) -> bool {
    j_arr(arr).iter().any(|y| y == x)
}

/// compare an observation with the answer demanded by TLC (equality / membership only)
fn compare(exp: &Value, obs: &Value, view: &Value) -> Option<String> {
    match obs["type"].as_str().unwrap() {
        "RJ" => {
            if !contains(&exp["rj"], &json!([obs["source"], obs["reason"]])) {
                return Some(if j_arr(&exp["rj"]).is_empty() { "rejected a request that must be accepted".into() } else { "A-ASSOCIATE-RJ reason does not match the failing condition".into() });
            }
            if view["est"].as_bool().unwrap() {
                return Some("acceptor established after sending A-ASSOCIATE-RJ".into());
            }
            None
        }
        "AC" => {
            if !exp["acOk"].as_bool().unwrap() {
                return Some("accepted a request that must be rejected".into());
            }
            let er = j_arr(&exp["results"]);
            let or = j_arr(&obs["results"]);
            if er.len() != or.len() {
                return Some("number of presentation context results differs from the number proposed".into());
            }
            for e in er {
                let m: Vec<&Value> = or.iter().filter(|o| o["id"] == e["id"]).collect();
                if m.len() != 1 {
                    return Some("no single result carrying the proposed identifier".into());
                }
                let o = m[0];
                if !contains(&e["reasons"], &o["reason"]) {
                    return Some(format!(
                        "context result {} where {} demanded",
                        o["reason"],
                        if e["ok"].as_bool().unwrap() { "acceptance is".to_string() } else { format!("one of {} is", e["reasons"]) }
                    ));
                }
                if e["ok"].as_bool().unwrap() && o["ts"]["u"] != e["ts"] {
                    return Some("accepted transfer syntax is not the first acceptable proposed one".into());
                }
            }
            // the acceptor's own view
            if !view["est"].as_bool().unwrap() {
                return Some("acceptor sent A-ASSOCIATE-AC but establish failed".into());
            }
            if !contains(&exp["peermax"], &view["peermax"]) {
                return Some("requestor maximum PDU length recorded by the acceptor".into());
            }
            let vp = j_arr(&view["pcs"]);
            if vp.len() != er.len() {
                return Some("presentation_contexts() length differs from the number proposed".into());
            }
            for e in er {
                let ok = vp.iter().any(|o| {
                    o["id"] == e["id"]
                        && contains(&e["reasons"], &o["reason"])
                        && o["abs"]["u"] == e["abs"]
                        && (!e["ok"].as_bool().unwrap() || o["ts"]["u"] == e["ts"])
                });
                if !ok {
                    return Some("presentation_contexts() disagrees with the negotiated result".into());
                }
            }
            None
        }
        t => Some(format!("answer is neither A-ASSOCIATE-AC nor A-ASSOCIATE-RJ ({t})")),
    }
}

fn case_class(c: &Value) -> String {
    let req = &c["req"];
    let pad = j_arr(&req["pcs"]).iter().any(|pc| pc["abs"]["pad"] != 0 || j_arr(&pc["tss"]).iter().any(|t| t["pad"] != 0));
    let ml = if j_str(&c["kind"]) == "maxlen" {
        let m = &req["maxlen"];
        format!(
            " maxlen={} acceptor-own-max={}",
            if j_arr(m).is_empty() { "absent" } else if *m == json!([0, 0]) { "zero" } else { "value" },
            if c["cfg"].get("maxpdu").map(|v| j_arr(v).is_empty()).unwrap_or(true) { "default" } else { "configured" }
        )
    } else {
        String::new()
    };
    format!(
        "{} promiscuous={} cfgts={}{}{}",
        j_str(&c["kind"]),
        c["cfg"]["promiscuous"],
        if j_arr(&c["cfg"]["tss"]).is_empty() { "none" } else { "some" },
        if pad { " padded-uid" } else { "" },
        ml
    )
}

fn run_c28(args: &std::collections::HashMap<String, String>) {
    let cases = read_ndjson(&args["cases"]);
    let selftest = args.contains_key("selftest");
    // group by acceptor configuration
    let mut groups: BTreeMap<String, Vec<usize>> = BTreeMap::new();
    for (i, c) in cases.iter().enumerate() {
        groups.entry(c["cfg"].to_string()).or_default().push(i);
    }
    let mut rep = Report::new();
    let results: Vec<(usize, Value, Value)> = std::thread::scope(|sc| {
        let mut hs = Vec::new();
        for (_k, idxs) in groups.iter() {
            let cases = &cases;
            hs.push(sc.spawn(move || {
                let cfg = &cases[idxs[0]]["cfg"];
                let (addr, rx, h) = start_acceptor(cfg, idxs.len(), None);
                let mut out = Vec::new();
                for &i in idxs {
                    let (obs, view) = exchange(addr, &cases[i]["req"], &rx);
                    out.push((i, obs, view));
                }
                let _ = h.join();
                out
            }));
        }
        hs.into_iter().flat_map(|h| h.join().expect("client thread")).collect()
    });
    let mut padded_ts_echo = 0usize;
    let mut order_drift = 0usize;
    let mut unclear_pv: BTreeMap<String, usize> = BTreeMap::new();
    let mut nontrivial = std::collections::BTreeSet::new();
    for (i, obs, view) in results {
        rep.cases += 1;
        let c = &cases[i];
        let mut exp = c["exp"].clone();
        if selftest && i % 7 == 0 {
            // deliberately wrong expectation: flips the first context's verdict
            let r = &mut exp["results"][0];
            if r["ok"].as_bool().unwrap() {
                r["ok"] = json!(false);
                r["reasons"] = json!([3]);
            } else {
                r["ok"] = json!(true);
                r["reasons"] = json!([0]);
                r["ts"] = json!("1.2.840.10008.1.2");
            }
        }
        nontrivial.insert(format!("{}|{}", c["cfg"], c["req"]["pcs"]));
        if let Some(what) = compare(&exp, &obs, &view) {
            rep.mismatch(json!({"what": what, "class": case_class(c), "case": c, "observed": obs, "acceptor_view": view}));
        }
        // informational drift
        if obs["type"] == "AC" {
            if j_arr(&obs["results"]).iter().any(|r| r["ts"]["pad"] != 0) {
                padded_ts_echo += 1;
            }
            let ids_e: Vec<&Value> = j_arr(&exp["results"]).iter().map(|r| &r["id"]).collect();
            let ids_o: Vec<&Value> = j_arr(&obs["results"]).iter().map(|r| &r["id"]).collect();
            if ids_e != ids_o {
                order_drift += 1;
            }
        }
        if c["req"]["pv"].as_u64().unwrap() % 2 == 1 && c["req"]["pv"] != 1 {
            *unclear_pv.entry(format!("pv={} -> {}", c["req"]["pv"], obs["type"].as_str().unwrap())).or_default() += 1;
        }
    }
    rep.extra.insert("padded_ts_echo".into(), json!(padded_ts_echo));
    rep.extra.insert("order_drift".into(), json!(order_drift));
    rep.extra.insert("unclear_pv".into(), json!(unclear_pv));
    rep.extra.insert("distinct".into(), json!(nontrivial.len()));
    rep.extra.insert("configs".into(), json!(groups.len()));
    rep.print();
}

// ---------------------------------------------------------------------------------- random larger requests

fn run_c28random(args: &std::collections::HashMap<String, String>) {
    let n: usize = args["n"].parse().unwrap();
    let mut rng = Rng::new(seed_from_env() ^ 0x28);
    let abs_pool = ["1.2.840.10008.1.1", "1.2.840.10008.5.1.4.1.1.7", "1.2.840.10008.5.1.4.1.1.2", "1.2.840.10008.5.1.4.1.1.4", "1.2.840.10008.5.1.4.1.2.2.1"];
    let ts_pool = TS_UNIVERSE;
    // a handful of configurations, each serving n/k requests
    let mut cfgs = Vec::new();
    for k in 0..8 {
        let nabs = rng.range(if k % 4 == 3 { 0 } else { 1 }, 3) as usize;
        let mut abs: Vec<&str> = Vec::new();
        while abs.len() < nabs {
            let a = *rng.pick(&abs_pool);
            if !abs.contains(&a) {
                abs.push(a);
            }
        }
        let nts = if k % 2 == 0 { 0 } else { rng.range(1, 3) as usize };
        let mut tss: Vec<&str> = Vec::new();
        while tss.len() < nts {
            let t = *rng.pick(ts_pool);
            if !tss.contains(&t) {
                tss.push(t);
            }
        }
        let prom = nabs == 0 || rng.below(3) == 0;
        let own = match k % 4 {
            0 => json!([]),
            1 => json!([0, 4096]),
            2 => json!([16, 0]),
            _ => halves(1018 + rng.below(200_000) as u32),
        };
        cfgs.push(json!({"abs": abs, "tss": tss, "promiscuous": prom, "aet": "THIS-SCP", "maxpdu": own,
                         "access": if k % 3 == 2 { "called" } else { "any" }, "appctx": "1.2.840.10008.3.1.1.1", "pv": 1}));
    }
    let mut w = NdjsonWriter::create(&args["out"]);
    let mut rep = Report::new();
    let per = n.div_ceil(cfgs.len());
    for cfg in &cfgs {
        let (addr, rx, h) = start_acceptor(cfg, per, None);
        for _ in 0..per {
            let npc = rng.range(1, 24) as usize;
            let mut ids: Vec<u64> = (0..128).map(|i| 2 * i + 1).collect();
            let mut pcs = Vec::new();
            for _ in 0..npc {
                let id = ids.swap_remove(rng.below(ids.len() as u64) as usize);
                let nts = rng.range(1, 6) as usize;
                let tss: Vec<Value> = (0..nts).map(|_| json!({"u": *rng.pick(ts_pool), "pad": if rng.below(5) == 0 { 1 } else { 0 }})).collect();
                pcs.push(json!({"id": id, "abs": {"u": *rng.pick(&abs_pool), "pad": if rng.below(5) == 0 { 1 } else { 0 }}, "tss": tss}));
            }
            let maxlen = match rng.below(6) {
                0 | 5 => json!([]),
                1 => json!([0, 0]),
                2 => halves(u32::MAX - rng.below(9) as u32),
                _ => halves(rng.next_u64() as u32 >> rng.below(20)),
            };
            let req = json!({
                "pv": if rng.below(12) == 0 { *rng.pick(&[0u64, 2, 4, 65534]) } else { 1 },
                "appctx": if rng.below(12) == 0 { "1.2.840.10008.3.1.1.2" } else { "1.2.840.10008.3.1.1.1" },
                "called": if rng.below(4) == 0 { "OTHER-SCP" } else { "THIS-SCP" },
                "pcs": pcs, "maxlen": maxlen});
            let (obs, view) = exchange(addr, &req, &rx);
            let mut view = view;
            if view.get("pcs").is_none() {
                view["pcs"] = json!([]);
                view["peermax"] = json!([0, 0]);
            }
            w.emit(&json!({"ev": "c28", "req": req, "cfg": cfg, "obs": obs, "view": view}));
            rep.cases += 1;
        }
        let _ = h.join();
    }
    let lines = w.finish();
    rep.extra.insert("events".into(), json!(lines));
    rep.print();
}

fn run_facts() {
    let sup: Vec<&str> = TS_UNIVERSE
        .iter()
        .copied()
        .filter(|u| TransferSyntaxRegistry.get(u).map(|ts| ts.can_decode_dataset()).unwrap_or(false))
        .collect();
    let reg: Vec<&str> = TS_UNIVERSE.iter().copied().filter(|u| TransferSyntaxRegistry.get(u).is_some()).collect();
    println!("FACTS {}", json!({"supported": sup, "registered": reg, "universe": TS_UNIVERSE}));
    let mut rep = Report::new();
    rep.cases = TS_UNIVERSE.len();
    rep.extra.insert("facts".into(), json!({"supported": sup, "registered": reg, "universe": TS_UNIVERSE}));
    rep.print();
}

include!("../negotiate_c29.rs");

fn main() {
    quiet_panics();
    let args = args_map();
    match args.get("_0").map(|s| s.as_str()) {
        Some("facts") => run_facts(),
        Some("c28") => run_c28(&args),
        Some("c28random") => run_c28random(&args),
        Some("c29") => run_c29(&args),
        _ => {
            eprintln!("usage: drv_negotiate facts|c28|c28random|c29 ...");
            std::process::exit(2);
        }
    }
}
