//! C26 conformance driver: P-DATA writer (sync + async) and reader.
//!
//!   drv_pdata replay --cases <ndjson> --out <dir>     TLC behaviours -> real code -> traces
//!   drv_pdata random --n <N> --out <dir>              seeded random cases at real sizes -> traces
//!
//! Traces are written as <dir>/trace_<max>.ndjson (one file per Max, many cases
//! per file) and validated by specs/ps38/Trace_PData.tla.  The REPORT line
//! carries "drift": places where the real code did something else than the
//! implementation-shaped model PData.tla predicted (informational; the verdict
//! comes from the property-level trace validation).

use dicom_ul::association::AsyncPDataWriter;
use dicom_ul::association::{PDataReader, PDataWriter};
use serde_json::{json, Value};
use std::cell::RefCell;
use std::collections::{BTreeMap, VecDeque};
use std::future::Future;
use std::io::{Read, Write};
use std::pin::Pin;
use std::rc::Rc;
use std::task::{Context, Poll, Waker};
use tokio::io::{AsyncRead, AsyncWrite, ReadBuf};
use vcommon::*;

fn b(i: usize) -> u8 {
    (i % 251) as u8
}

#[derive(Clone)]
struct SharedSink(Rc<RefCell<Vec<u8>>>);
impl Write for SharedSink {
    fn write(&mut self, buf: &[u8]) -> std::io::Result<usize> {
        self.0.borrow_mut().extend_from_slice(buf);
        Ok(buf.len())
    }
    fn flush(&mut self) -> std::io::Result<()> {
        Ok(())
    }
}

#[derive(Clone, Copy, Debug)]
enum Ans {
    Accept(usize),
    Pending,
    Zero,
    Error,
}

struct ScriptInner {
    answers: VecDeque<Ans>,
    data: Vec<u8>,
    exhausted: bool,
    /// when the script is exhausted: accept everything (true) or stay pending (false)
    drain: bool,
}
#[derive(Clone)]
struct ScriptT(Rc<RefCell<ScriptInner>>);
impl AsyncWrite for ScriptT {
    fn poll_write(self: Pin<&mut Self>, _cx: &mut Context<'_>, buf: &[u8]) -> Poll<std::io::Result<usize>> {
        let mut s = self.0.borrow_mut();
        match s.answers.pop_front() {
            Some(Ans::Accept(k)) => {
                let k = k.min(buf.len());
                s.data.extend_from_slice(&buf[..k]);
                Poll::Ready(Ok(k))
            }
            Some(Ans::Pending) => Poll::Pending,
            Some(Ans::Zero) => Poll::Ready(Ok(0)),
            Some(Ans::Error) => Poll::Ready(Err(std::io::Error::other("injected transport error"))),
            None => {
                s.exhausted = true;
                if s.drain {
                    s.data.extend_from_slice(buf);
                    Poll::Ready(Ok(buf.len()))
                } else {
                    Poll::Pending
                }
            }
        }
    }
    fn poll_flush(self: Pin<&mut Self>, _cx: &mut Context<'_>) -> Poll<std::io::Result<()>> {
        Poll::Ready(Ok(()))
    }
    fn poll_shutdown(self: Pin<&mut Self>, _cx: &mut Context<'_>) -> Poll<std::io::Result<()>> {
        Poll::Ready(Ok(()))
    }
}

/// Independent framing of the bytes the transport holds: complete PDUs from `from`.
/// Returns the events and the new offset.
fn scan_pdus(data: &[u8], from: &mut usize, payload_off: &mut usize, out: &mut Vec<Value>) {
    loop {
        let d = &data[*from..];
        if d.len() < 6 {
            return;
        }
        let pdulen = u32::from_be_bytes([d[2], d[3], d[4], d[5]]) as usize;
        if d.len() < 6 + pdulen {
            return;
        }
        let body = &d[6..6 + pdulen];
        // count PDVs
        let mut npdv = 0;
        let mut p = 0;
        let mut first_pdv: Option<(usize, u8, u8, &[u8])> = None;
        while p + 4 <= body.len() {
            let pl = u32::from_be_bytes([body[p], body[p + 1], body[p + 2], body[p + 3]]) as usize;
            if pl < 2 || p + 4 + pl > body.len() {
                break;
            }
            if first_pdv.is_none() {
                first_pdv = Some((pl, body[p + 4], body[p + 5], &body[p + 6..p + 4 + pl]));
            }
            npdv += 1;
            p += 4 + pl;
        }
        let (pdvlen, ctx, ctrl, vd) = first_pdv.unwrap_or((0, 0, 0xFF, &[]));
        let len = vd.len();
        let mut contig = true;
        for (i, x) in vd.iter().enumerate() {
            if *x != b(*payload_off + i) {
                contig = false;
            }
        }
        out.push(json!({"ev":"pdu","type":d[0],"npdv":npdv,"pdulen":pdulen,"pdvlen":pdvlen,"ctx":ctx,
            "last": ctrl == 0x02, "ctrl": ctrl, "len": len,
            "first": vd.first().copied().unwrap_or(0), "lastb": vd.last().copied().unwrap_or(0),
            "contig": contig && (ctrl == 0x02 || ctrl == 0x00) && p == body.len()}));
        *payload_off += len;
        *from += 6 + pdulen;
    }
}

struct Traces {
    dir: String,
    files: BTreeMap<u32, NdjsonWriter>,
    events: usize,
}
impl Traces {
    fn get(&mut self, max: u32) -> &mut NdjsonWriter {
        let dir = self.dir.clone();
        self.files
            .entry(max)
            .or_insert_with(|| NdjsonWriter::create(&format!("{dir}/trace_{max}.ndjson")))
    }
    fn emit(&mut self, max: u32, v: Value) {
        let mut v = v;
        v["max"] = json!(max);
        self.get(max).emit(&v);
        self.events += 1;
    }
}

#[derive(Debug, Clone)]
enum Step {
    /// caller offers n bytes (sync write / async poll_write); transport script for this call
    Call(usize, Vec<Ans>),
    Finish(Vec<Ans>),
}

struct WriterOutcome {
    stream: Vec<u8>,
    finished_ok: bool,
    rets: Vec<Value>,
    pdus: Vec<(usize, bool)>,
    fed: usize,
}

fn poll_once<F: Future>(f: Pin<&mut F>) -> Poll<F::Output> {
    let w = Waker::noop();
    let mut cx = Context::from_waker(w);
    f.poll(&mut cx)
}

fn run_writer_case(tr: &mut Traces, max: u32, ctx: u8, is_async: bool, steps: &[Step], total_payload: usize) -> WriterOutcome {
    let payload: Vec<u8> = (0..total_payload).map(b).collect();
    tr.emit(max, json!({"ev":"reset","ctx":ctx,"mode": if is_async {"async"} else {"sync"}}));
    let mut fed = 0usize;
    let mut scan_from = 0usize;
    let mut pay_off = 0usize;
    let mut rets = Vec::new();
    let mut finished_ok = false;
    let mut failed = false;
    let mut pdus = Vec::new();
    let stream: Vec<u8>;
    let mut evs: Vec<Value> = Vec::new();

    macro_rules! flush_pdus {
        ($data:expr) => {{
            let mut out = Vec::new();
            scan_pdus($data, &mut scan_from, &mut pay_off, &mut out);
            for e in out {
                pdus.push((e["len"].as_u64().unwrap() as usize, e["last"].as_bool().unwrap()));
                evs.push(e);
            }
        }};
    }

    if !is_async {
        let sink = SharedSink(Rc::new(RefCell::new(Vec::new())));
        let mut w = Some(PDataWriter::new_for_verif(sink.clone(), ctx, max));
        for st in steps {
            match st {
                Step::Call(n, _) => {
                    let n = (*n).min(payload.len() - fed);
                    if n == 0 {
                        continue;
                    }
                    let r = catch(|| w.as_mut().unwrap().write(&payload[fed..fed + n]));
                    match r {
                        Ok(Ok(k)) => {
                            evs.push(json!({"ev":"write","n":n,"res":"ok","ret":k}));
                            rets.push(json!(k));
                            fed += k;
                        }
                        Ok(Err(e)) => {
                            evs.push(json!({"ev":"write","n":n,"res":"err","msg":e.to_string()}));
                            rets.push(json!("Err"));
                            failed = true;
                        }
                        Err(p) => {
                            evs.push(json!({"ev":"write","n":n,"res":"panic","msg":p}));
                            rets.push(json!("Panic"));
                            failed = true;
                        }
                    }
                    flush_pdus!(&sink.0.borrow());
                }
                Step::Finish(_) => {
                    let wr = w.take().unwrap();
                    let r = catch(move || wr.finish());
                    let ok = matches!(r, Ok(Ok(())));
                    flush_pdus!(&sink.0.borrow());
                    evs.push(json!({"ev":"finish","ok":ok}));
                    rets.push(json!(if ok { "Ok" } else { "Err" }));
                    finished_ok = ok;
                    if !ok {
                        failed = true;
                    }
                }
            }
            if failed {
                break;
            }
        }
        if let Some(wr) = w.take() {
            std::mem::forget(wr);
        }
        stream = sink.0.borrow().clone();
    } else {
        let t = ScriptT(Rc::new(RefCell::new(ScriptInner {
            answers: VecDeque::new(),
            data: Vec::new(),
            exhausted: false,
            drain: false,
        })));
        let mut w = Some(AsyncPDataWriter::new_for_verif(t.clone(), ctx, max));
        // the caller keeps offering the same buffer after Pending
        let mut outstanding: Option<usize> = None;
        for st in steps {
            match st {
                Step::Call(n, script) => {
                    let n = match outstanding {
                        Some(o) => o,
                        None => (*n).min(payload.len() - fed),
                    };
                    if n == 0 {
                        continue;
                    }
                    {
                        let mut s = t.0.borrow_mut();
                        s.answers = script.iter().copied().collect();
                        s.exhausted = false;
                    }
                    let r = catch(|| {
                        let wr = w.as_mut().unwrap();
                        let waker = Waker::noop();
                        let mut cx = Context::from_waker(waker);
                        Pin::new(wr).poll_write(&mut cx, &payload[fed..fed + n])
                    });
                    let exhausted = t.0.borrow().exhausted;
                    match r {
                        Ok(Poll::Ready(Ok(k))) => {
                            evs.push(json!({"ev":"write","n":n,"res":"ok","ret":k}));
                            rets.push(json!(k));
                            fed += k;
                            outstanding = None;
                        }
                        Ok(Poll::Pending) => {
                            evs.push(json!({"ev":"write","n":n,"res":"pending","script_exhausted":exhausted}));
                            rets.push(json!(if exhausted { "PendingExhausted" } else { "Pending" }));
                            outstanding = Some(n);
                        }
                        Ok(Poll::Ready(Err(e))) => {
                            evs.push(json!({"ev":"write","n":n,"res":"err","msg":e.to_string()}));
                            rets.push(json!("Err"));
                            failed = true;
                        }
                        Err(p) => {
                            evs.push(json!({"ev":"write","n":n,"res":"panic","msg":p}));
                            rets.push(json!("Panic"));
                            failed = true;
                        }
                    }
                    flush_pdus!(&t.0.borrow().data);
                }
                Step::Finish(script) => {
                    {
                        let mut s = t.0.borrow_mut();
                        s.answers = script.iter().copied().collect();
                        s.exhausted = false;
                        s.drain = true; // a finish that wants more than the model scripted simply proceeds
                    }
                    let wr = w.take().unwrap();
                    let r = catch(move || {
                        let mut fut = Box::pin(wr.finish());
                        let mut polls = 0;
                        loop {
                            match poll_once(fut.as_mut()) {
                                Poll::Ready(r) => return r,
                                Poll::Pending => {
                                    polls += 1;
                                    if polls > 10_000 {
                                        std::mem::forget(fut);
                                        return Err(std::io::Error::other("finish never completes"));
                                    }
                                }
                            }
                        }
                    });
                    let ok = matches!(r, Ok(Ok(())));
                    if ok {
                        // after a failed finish the writer's Drop may write again; nothing is
                        // promised about the stream once an error was reported
                        flush_pdus!(&t.0.borrow().data);
                    }
                    evs.push(json!({"ev":"finish","ok":ok}));
                    rets.push(json!(if ok { "Ok" } else { "Err" }));
                    finished_ok = ok;
                    if !ok {
                        failed = true;
                    }
                }
            }
            if failed {
                break;
            }
        }
        if let Some(wr) = w.take() {
            // do not run Drop's implicit finish on an abandoned writer
            std::mem::forget(wr);
        }
        stream = t.0.borrow().data.clone();
    }
    let stray = stream.len() - scan_from;
    let expect_done = steps.iter().any(|s| matches!(s, Step::Finish(_))) && !failed;
    evs.push(json!({"ev":"wend","stray":stray,"expect_done":expect_done}));
    for e in evs {
        tr.emit(max, e);
    }
    WriterOutcome {
        stream,
        finished_ok,
        rets,
        pdus,
        fed,
    }
}

// ---------------------------------------------------------------- reader

struct RxInner {
    data: Vec<u8>,
    pos: usize,
    segs: VecDeque<usize>,
    log: Vec<Value>,
    pend_every: usize,
    polls: usize,
}
#[derive(Clone)]
struct RxT(Rc<RefCell<RxInner>>);
impl RxT {
    fn deliver(&self, buf_cap: usize) -> Vec<u8> {
        let mut s = self.0.borrow_mut();
        let rem = s.data.len() - s.pos;
        if rem == 0 || buf_cap == 0 {
            return vec![];
        }
        let want = s.segs.pop_front().unwrap_or(rem).max(1);
        let k = want.min(rem).min(buf_cap);
        if k < want && want <= rem {
            // caller's buffer smaller than the scripted segment: keep the rest
            s.segs.push_front(want - k);
        }
        let out = s.data[s.pos..s.pos + k].to_vec();
        s.pos += k;
        s.log.push(json!({"ev":"deliver","k":k}));
        out
    }
}
impl Read for RxT {
    fn read(&mut self, buf: &mut [u8]) -> std::io::Result<usize> {
        let d = self.deliver(buf.len());
        buf[..d.len()].copy_from_slice(&d);
        Ok(d.len())
    }
}
impl AsyncRead for RxT {
    fn poll_read(self: Pin<&mut Self>, _cx: &mut Context<'_>, buf: &mut ReadBuf<'_>) -> Poll<std::io::Result<()>> {
        {
            let mut s = self.0.borrow_mut();
            s.polls += 1;
            if s.pend_every > 0 && s.polls % s.pend_every == 0 {
                return Poll::Pending;
            }
        }
        let d = self.deliver(buf.remaining());
        buf.put_slice(&d);
        Poll::Ready(Ok(()))
    }
}

/// Run the reader over `stream` (message PDUs) + `trail`, with the scripted segmentation.
fn run_reader_case(tr: &mut Traces, max: u32, stream: &[u8], total: usize, trail: usize, rsize: usize, segs: &[usize], is_async: bool) {
    let following: [u8; 10] = [0x05, 0x00, 0x00, 0x00, 0x00, 0x04, 0x00, 0x00, 0x00, 0x00];
    let mut data = stream.to_vec();
    for i in 0..trail {
        data.push(following[i % 10]);
    }
    let t = RxT(Rc::new(RefCell::new(RxInner {
        data: data.clone(),
        pos: 0,
        segs: segs.iter().copied().collect(),
        log: Vec::new(),
        pend_every: if is_async { 3 } else { 0 },
        polls: 0,
    })));
    tr.emit(max, json!({"ev":"rreset","total":total,"pdubytes":stream.len(),"trail":trail,"rsize":rsize,
        "mode": if is_async {"async"} else {"sync"}}));
    let mut rb = bytes::BytesMut::new();
    let mut out = 0usize;
    let mut evs: Vec<Value> = Vec::new();
    {
        let mut reader = PDataReader::new(t.clone(), 16_384, &mut rb);
        let mut buf = vec![0u8; rsize];
        let mut calls = 0;
        loop {
            calls += 1;
            if calls > 4 * (total + 16) + 64 {
                evs.push(json!({"ev":"read","m":rsize,"res":"hang"}));
                break;
            }
            let r = if !is_async {
                catch(|| Read::read(&mut reader, &mut buf))
            } else {
                catch(|| {
                    let mut polls = 0;
                    loop {
                        let mut rbuf = ReadBuf::new(&mut buf);
                        let waker = Waker::noop();
                        let mut cx = Context::from_waker(waker);
                        match Pin::new(&mut reader).poll_read(&mut cx, &mut rbuf) {
                            Poll::Ready(Ok(())) => return Ok(rbuf.filled().len()),
                            Poll::Ready(Err(e)) => return Err(e),
                            Poll::Pending => {
                                polls += 1;
                                if polls > 100_000 {
                                    return Err(std::io::Error::other("poll_read never completes"));
                                }
                            }
                        }
                    }
                })
            };
            // transport deliveries made during this call come first
            for e in t.0.borrow_mut().log.drain(..) {
                evs.push(e);
            }
            match r {
                Ok(Ok(k)) => {
                    let got = &buf[..k];
                    let contig = got.iter().enumerate().all(|(i, x)| *x == b(out + i));
                    evs.push(json!({"ev":"read","m":rsize,"res":"ok","ret":k,
                        "first": got.first().copied().unwrap_or(0), "lastb": got.last().copied().unwrap_or(0),
                        "contig": contig}));
                    out += k;
                    if k == 0 {
                        break;
                    }
                }
                Ok(Err(e)) => {
                    evs.push(json!({"ev":"read","m":rsize,"res":"err","msg":e.to_string()}));
                    break;
                }
                Err(p) => {
                    evs.push(json!({"ev":"read","m":rsize,"res":"panic","msg":p}));
                    break;
                }
            }
        }
    }
    let delivered = t.0.borrow().pos;
    let rest = rb.len();
    let restok = delivered >= rest && rb[..] == data[delivered - rest..delivered];
    evs.push(json!({"ev":"rend","rest":rest,"restok":restok,"delivered":delivered}));
    for e in evs {
        tr.emit(max, e);
    }
}

fn steps_from_history(h: &[Value]) -> Vec<Step> {
    let mut steps: Vec<Step> = Vec::new();
    let mut fault_flip = false;
    for e in h {
        let op = j_str(&e["op"]);
        let arg = j_usize(&e["arg"]);
        match op {
            "write" | "poll" => steps.push(Step::Call(arg, vec![])),
            "finish" => steps.push(Step::Finish(vec![])),
            "accept" | "pending" | "fault" => {
                let a = match op {
                    "accept" => Ans::Accept(arg),
                    "pending" => Ans::Pending,
                    _ => {
                        fault_flip = !fault_flip;
                        if fault_flip {
                            Ans::Zero
                        } else {
                            Ans::Error
                        }
                    }
                };
                match steps.last_mut() {
                    Some(Step::Call(_, s)) | Some(Step::Finish(s)) => s.push(a),
                    None => {}
                }
            }
            _ => panic!("unknown op {op}"),
        }
    }
    steps
}

fn main() {
    quiet_panics();
    let args = args_map();
    let mode = args.get("_0").cloned().unwrap_or_default();
    let out_dir = args.get("out").cloned().expect("--out");
    std::fs::create_dir_all(&out_dir).unwrap();
    let rt = tokio::runtime::Builder::new_multi_thread().worker_threads(1).enable_all().build().unwrap();
    let _g = rt.enter();
    let mut tr = Traces {
        dir: out_dir.clone(),
        files: BTreeMap::new(),
        events: 0,
    };
    let mut rep = Report::new();
    let mut writer_cases = 0usize;
    let mut reader_cases = 0usize;
    let mut drift = 0usize;

    match mode.as_str() {
        "replay" => {
            let cases = read_ndjson(args.get("cases").expect("--cases"));
            for (ci, c) in cases.iter().enumerate() {
                rep.cases += 1;
                if c.get("rx").is_some() {
                    // reader behaviour from Gen_PDataRx
                    let cap = j_usize(&c["cap"]);
                    let total = j_usize(&c["total"]);
                    let trail = j_usize(&c["trail"]);
                    let rsize = j_usize(&c["rsize"]);
                    let segs: Vec<usize> = j_arr(&c["segs"]).iter().map(j_usize).collect();
                    let max = (cap + 6) as u32;
                    // the stream is produced by the real sync writer fed in one go
                    let mut wsteps: Vec<Step> = (0..(total / cap.max(1) + 2)).map(|_| Step::Call(total.max(1), vec![])).collect();
                    wsteps.push(Step::Finish(vec![]));
                    let wout = run_writer_case(&mut tr, max, 1 + (ci % 127) as u8 * 2, false, &wsteps, total);
                    writer_cases += 1;
                    if !wout.finished_ok || wout.fed != total {
                        // cannot build the stream with the real writer: the writer part of the trace will tell
                        continue;
                    }
                    for is_async in [false, true] {
                        run_reader_case(&mut tr, max, &wout.stream, total, trail, rsize, &segs, is_async);
                        reader_cases += 1;
                    }
                } else {
                    let max = j_usize(&c["max"]) as u32;
                    let is_async = j_str(&c["mode"]) == "async";
                    let h = j_arr(&c["h"]);
                    let steps = steps_from_history(h);
                    let total: usize = j_usize(&c["fed"]) + 2 * max as usize + 8;
                    let ctx = 1 + ((ci % 127) as u8) * 2;
                    let o = run_writer_case(&mut tr, max, ctx, is_async, &steps, total);
                    writer_cases += 1;
                    // drift: compare with the model's prediction
                    let exp_rets: Vec<Value> = h
                        .iter()
                        .filter(|e| {
                            let op = j_str(&e["op"]);
                            let ph = j_str(&e["ph"]);
                            // an event after which a public call has returned
                            (op == "write" || op == "finish" || op == "poll" || op == "accept" || op == "pending" || op == "fault")
                                && (ph == "Idle" || ph == "Done" || ph == "Failed")
                        })
                        .map(|e| match j_str(&e["ret"]) {
                            "n" => json!(j_usize(&e["retv"])),
                            x => json!(x),
                        })
                        .collect();
                    let exp_pdus: Vec<(usize, bool)> = j_arr(&c["pdus"])
                        .iter()
                        .map(|p| (j_usize(&p["len"]), p["last"].as_bool().unwrap()))
                        .collect();
                    if exp_rets != o.rets || exp_pdus != o.pdus {
                        drift += 1;
                        rep.mismatch(json!({"case": c, "model_rets": exp_rets, "real_rets": o.rets,
                            "model_pdus": exp_pdus.iter().map(|p| json!([p.0, p.1])).collect::<Vec<_>>(),
                            "real_pdus": o.pdus.iter().map(|p| json!([p.0, p.1])).collect::<Vec<_>>()}));
                    }
                }
            }
        }
        "random" => {
            let n: usize = args.get("n").map(|s| s.parse().unwrap()).unwrap_or(100);
            let mut rng = Rng::new(seed_from_env());
            let bases: [u32; 6] = [1018, 4096, 16_378, 16_384, 32_762, 131_066];
            for ci in 0..n {
                rep.cases += 1;
                // quick tier: fewer distinct maxima (one trace file = one TLC run per maximum)
                let quickmax = args.contains_key("quickmax");
                let base = if quickmax { *rng.pick(&bases[..4]) } else { *rng.pick(&bases) };
                let max = (base as i64 + if quickmax { rng.range(-1, 1) } else { rng.range(-2, 2) }).max(1018) as u32;
                let cap = (max - 6) as usize;
                let npdu = rng.range(0, 4) as usize;
                // payload size near multiples of the capacity
                let total = (npdu * cap) as i64 + *rng.pick(&[-(cap as i64) / 2, -2, -1, 0, 1, 2, 17, (cap as i64) / 3]);
                let total = total.max(0) as usize;
                let is_async = rng.coin();
                // chunking: mix of exact-fill sizes, tiny and huge
                let mut steps = Vec::new();
                let mut planned = 0usize;
                while planned < total {
                    let rem = total - planned;
                    let room = cap - (planned % cap);
                    let c = match rng.below(7) {
                        0 => room,
                        1 => room + 1,
                        2 => room.saturating_sub(1).max(1),
                        3 => 1,
                        4 => rem,
                        5 => cap + cap / 2,
                        _ => rng.range(1, (2 * cap) as i64) as usize,
                    }
                    .min(rem)
                    .max(1);
                    // write_all semantics: the model caller re-offers what was not taken; we plan
                    // for each chunk enough calls; the driver clamps n to what is left.
                    let mut script = Vec::new();
                    if is_async {
                        let k = rng.below(4);
                        for _ in 0..k {
                            match rng.below(3) {
                                0 => script.push(Ans::Pending),
                                1 => script.push(Ans::Accept(rng.range(1, 64) as usize)),
                                _ => script.push(Ans::Accept(rng.range(1, (max + 6) as i64) as usize)),
                            }
                        }
                        script.push(Ans::Accept(usize::MAX / 2));
                    }
                    steps.push((c, script));
                    planned += c;
                }
                // expand to write_all-like call sequences: every chunk is offered until consumed.
                // We cannot know in advance how many calls the writer needs, so offer each chunk up to
                // 4 + c/cap times with the remaining size; the driver clamps at the payload end.
                let mut calls: Vec<Step> = Vec::new();
                for (c, script) in &steps {
                    let reps = 2 + c / cap;
                    for r in 0..reps {
                        let mut s = script.clone();
                        if is_async && r > 0 {
                            s = vec![Ans::Accept(usize::MAX / 2)];
                        }
                        calls.push(Step::Call(*c, s));
                    }
                }
                calls.push(Step::Finish(if is_async {
                    vec![Ans::Pending, Ans::Accept(5), Ans::Pending, Ans::Accept(usize::MAX / 2)]
                } else {
                    vec![]
                }));
                let ctx = 1 + ((ci % 127) as u8) * 2;
                let o = run_writer_case_writeall(&mut tr, max, ctx, is_async, &calls, total);
                writer_cases += 1;
                if o.finished_ok && o.fed == total {
                    let rsize = *rng.pick(&[1usize, 7, 512, 4096, 70_000]);
                    let nseg = rng.below(6) as usize;
                    let mut segs = Vec::new();
                    for _ in 0..nseg {
                        segs.push(match rng.below(4) {
                            0 => 1,
                            1 => rng.range(1, 13) as usize,
                            2 => (max as usize + 6) + rng.range(-1, 1) as usize,
                            _ => rng.range(1, 20_000) as usize,
                        });
                    }
                    // keep the reader case affordable for 1-byte reads
                    let rsize = if total > 20_000 && rsize < 512 { 4096 } else { rsize };
                    let trail = *rng.pick(&[0usize, 1, 5, 10, 16]);
                    run_reader_case(&mut tr, max, &o.stream, total, trail, rsize, &segs, rng.coin());
                    reader_cases += 1;
                }
            }
        }
        _ => panic!("usage: drv_pdata replay|random"),
    }
    let mut files = Vec::new();
    let events = tr.events;
    for (m, w) in tr.files {
        let n = w.finish();
        files.push(json!({"max": m, "path": format!("{out_dir}/trace_{m}.ndjson"), "events": n}));
    }
    rep.extra.insert("trace_files".into(), Value::Array(files));
    rep.extra.insert("events".into(), json!(events));
    rep.extra.insert("writer_cases".into(), json!(writer_cases));
    rep.extra.insert("reader_cases".into(), json!(reader_cases));
    rep.extra.insert("drift".into(), json!(drift));
    rep.print();
}

/// write_all-style caller for random cases: each planned Call(c, script) offers
/// min(c, remaining-of-this-chunk) bytes; chunks are tracked by cumulative plan.
fn run_writer_case_writeall(tr: &mut Traces, max: u32, ctx: u8, is_async: bool, calls: &[Step], total: usize) -> WriterOutcome {
    // Convert the plan into a flat list where a chunk's repeated offers are dropped once
    // the chunk is consumed.  Since consumption is only known at run time, we emulate by
    // giving run_writer_case calls whose n is clamped by the payload end; over-offering
    // within the payload is legal use of the API (a caller may offer any prefix of what
    // it still has), so no clamping per chunk is needed for soundness.
    run_writer_case(tr, max, ctx, is_async, calls, total)
}
