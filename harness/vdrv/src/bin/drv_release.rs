//! C30 conformance driver: release / abort / data / drop after establishment.
//!
//!   drv_release lib --schedules <ndjson> [--random N] --out <trace.ndjson> [--selftest]
//!       real ClientAssociation vs real ServerAssociation (library API, one thread per
//!       peer) through the recording proxy; each schedule is a sequence of API calls
//!       {peer, call} initiated in that order (TLC-generated + seeded random ones).
//!   drv_release scp --bin <storescp> [--non-blocking] --n N --out <trace.ndjson>
//!       the real storescp binary as acceptor against a scripted library requestor.
//!
//! Output: one ndjson trace, cases separated by {"ev":"reset"}, validated by
//! specs/assoc/Trace_AssocImpl.tla.  Ordering never relies on sleeps: the proxy logs a
//! PDU before forwarding it, the orchestrator waits on results / on the proxy log
//! (bounded waits are hang guards and affect only which interleaving is exercised).

#[path = "../assoc_common.rs"]
mod assoc_common;
use assoc_common::*;

use dicom_ul::association::client::ClientAssociationOptions;
use dicom_ul::association::server::ServerAssociationOptions;
use dicom_ul::association::{Error as AssocError, SyncAssociation};
use dicom_ul::pdu::{PDataValue, PDataValueType};
use dicom_ul::Pdu;
use serde_json::json;
use std::io::{BufRead, BufReader};
use std::net::{TcpListener, TcpStream};
use std::process::{Child, Command, Stdio};
use std::sync::mpsc::{channel, Receiver, Sender};
use std::time::{Duration, Instant};
use vcommon::*;

const VERIFICATION: &str = "1.2.840.10008.1.1";
const CT_STORAGE: &str = "1.2.840.10008.5.1.4.1.1.2";
const GUARD: Duration = Duration::from_secs(8);
/// --life: traces start at the TCP connect (establishment PDUs included) for Trace_AssocLife
static LIFE: std::sync::atomic::AtomicBool = std::sync::atomic::AtomicBool::new(false);
fn life() -> bool {
    LIFE.load(std::sync::atomic::Ordering::Relaxed)
}
fn life_kind(t: u8) -> &'static str {
    match t {
        1 => "AssocRQ",
        2 => "AssocAC",
        3 => "AssocRJ",
        4 => "PData",
        5 => "ReleaseRQ",
        6 => "ReleaseRP",
        7 => "Abort",
        _ => "Other",
    }
}

#[derive(Clone, Copy, Debug, PartialEq)]
enum Call {
    Send,
    Recv,
    Release,
    /// release through a public `&mut` route that keeps the association value alive
    /// (the deprecated `client::Release` trait of ClientAssociation<TcpStream>)
    ReleaseMut,
    Abort,
    Drop,
}

fn call_of(s: &str) -> Call {
    match s {
        "send" => Call::Send,
        "recv" => Call::Recv,
        "release" => Call::Release,
        "release_mut" => Call::ReleaseMut,
        "abort" => Call::Abort,
        "drop" => Call::Drop,
        _ => panic!("unknown call {s}"),
    }
}

fn call_name(c: Call) -> &'static str {
    match c {
        Call::Send => "send",
        Call::Recv => "recv",
        Call::Release => "release",
        Call::ReleaseMut => "release_mut",
        Call::Abort => "abort",
        Call::Drop => "drop",
    }
}

fn data_pdu(ctx: u8) -> Pdu {
    Pdu::PData {
        data: vec![PDataValue { presentation_context_id: ctx, value_type: PDataValueType::Data, is_last: false, data: vec![0x56; 16] }],
    }
}

fn err_class(e: &AssocError) -> String {
    match e {
        AssocError::UnexpectedPdu { pdu, .. } => format!("unexpected:{}", pdu.short_description()),
        AssocError::UnknownPdu { .. } => "unknown-pdu".into(),
        AssocError::ConnectionClosed { .. } => "closed".into(),
        AssocError::WireSend { source, .. } => format!("wire-send:{:?}", source.kind()),
        AssocError::WireRead { source, .. } => format!("wire-read:{:?}", source.kind()),
        AssocError::ReceivePdu { source: dicom_ul::pdu::ReadError::ReadPdu { source, .. }, .. } => match source.kind() {
            std::io::ErrorKind::TimedOut | std::io::ErrorKind::WouldBlock => "timeout".into(),
            k => format!("wire-read:{k:?}"),
        },
        AssocError::ReceivePdu { source, .. } => format!("receive-pdu:{source}"),
        AssocError::Close { source, .. } => format!("close:{:?}", source.kind()),
        AssocError::Timeout { .. } => "timeout".into(),
        other => format!("other:{other}"),
    }
}

/// One peer: executes calls in the order received, reports (call, outcome, terminal state).
/// `recv` is one turn of an SCP application loop (as storescp's `inner`).
type ReleaseMutFn<A> = fn(&mut A) -> Result<(), AssocError>;

#[allow(deprecated)]
fn client_release_mut(a: &mut dicom_ul::association::client::ClientAssociation<TcpStream>) -> Result<(), AssocError> {
    dicom_ul::association::client::Release::release(a)
}

fn peer_loop<A: SyncAssociation<TcpStream>>(assoc: A, ctx: u8, rx: Receiver<Call>, tx: Sender<(Call, String, Option<&'static str>)>, release_mut: Option<ReleaseMutFn<A>>) {
    let mut a = Some(assoc);
    // set once a release through a `&mut` route has completed: the value stays alive and
    // the application may (wrongly) go on using it
    let mut released_alive = false;
    while let Ok(c) = rx.recv() {
        let (out, term): (String, Option<&'static str>) = match (c, a.as_mut()) {
            (_, None) => ("gone".into(), None),
            (Call::Drop, Some(_)) if released_alive => {
                a = None;
                ("ok".into(), None)
            }
            (Call::Recv | Call::Release | Call::ReleaseMut | Call::Abort, Some(_)) if released_alive => ("gone".into(), None),
            (Call::ReleaseMut, Some(x)) => match release_mut {
                Some(f) => match f(x) {
                    Ok(()) => {
                        released_alive = true;
                        ("ok".into(), Some("Released"))
                    }
                    Err(e) => {
                        a = None; // the failed association is dropped, as the owning release does
                        (format!("err:{}", err_class(&e)), Some("Failed"))
                    }
                },
                None => match a.take().unwrap().release() {
                    Ok(()) => ("ok".into(), Some("Released")),
                    Err(e) => (format!("err:{}", err_class(&e)), Some("Failed")),
                },
            },
            (Call::Send, Some(x)) => match SyncAssociation::send(x, &data_pdu(ctx)) {
                Ok(()) => ("ok".into(), None),
                Err(e) => (format!("err:{}", err_class(&e)), None),
            },
            (Call::Recv, Some(x)) => match SyncAssociation::receive(x) {
                Ok(Pdu::PData { .. }) => ("data".into(), None),
                Ok(Pdu::ReleaseRQ) => {
                    let r = SyncAssociation::send(x, &Pdu::ReleaseRP);
                    a = None; // the loop ends, the association is dropped
                    (if r.is_ok() { "release-rq:rp-sent".into() } else { "release-rq:rp-failed".into() }, Some("ReleasedByPeer"))
                }
                Ok(Pdu::AbortRQ { .. }) => {
                    a = None;
                    ("abort".into(), Some("PeerAborted"))
                }
                Ok(p) => (format!("ignored:{}", p.short_description()), None),
                Err(e) => {
                    let c = err_class(&e);
                    a = None;
                    // nothing arrived within the hang guard: the application gives up and
                    // drops the association (DropAny); otherwise the peer is gone
                    let st = if c == "timeout" { "Dropped" } else { "PeerClosed" };
                    (format!("err:{c}"), Some(st))
                }
            },
            (Call::Release, Some(_)) => match a.take().unwrap().release() {
                Ok(()) => ("ok".into(), Some("Released")),
                Err(e) => (format!("err:{}", err_class(&e)), Some("Failed")),
            },
            (Call::Abort, Some(_)) => match a.take().unwrap().abort() {
                Ok(()) => ("ok".into(), Some("Aborted")),
                Err(e) => (format!("err:{}", err_class(&e)), Some("Aborted")),
            },
            (Call::Drop, Some(_)) => {
                a = None;
                ("ok".into(), Some("Dropped"))
            }
        };
        if tx.send((c, out, term)).is_err() {
            break;
        }
    }
}

/// The same peer over the async API: the thread owns a current-thread tokio runtime and
/// drives one call at a time to completion.
fn peer_loop_async<A>(rt: &tokio::runtime::Runtime, assoc: A, ctx: u8, rx: Receiver<Call>, tx: Sender<(Call, String, Option<&'static str>)>)
where
    A: dicom_ul::association::AsyncAssociation<tokio::net::TcpStream> + Send,
{
    use dicom_ul::association::AsyncAssociation as AA;
    let mut a = Some(assoc);
    while let Ok(c) = rx.recv() {
        let (out, term): (String, Option<&'static str>) = match (c, a.as_mut()) {
            (_, None) => ("gone".into(), None),
            (Call::Send, Some(x)) => match rt.block_on(AA::send(x, &data_pdu(ctx))) {
                Ok(()) => ("ok".into(), None),
                Err(e) => (format!("err:{}", err_class(&e)), None),
            },
            (Call::Recv, Some(x)) => match rt.block_on(AA::receive(x)) {
                Ok(Pdu::PData { .. }) => ("data".into(), None),
                Ok(Pdu::ReleaseRQ) => {
                    let r = rt.block_on(AA::send(x, &Pdu::ReleaseRP));
                    rt.block_on(async { a = None });
                    (if r.is_ok() { "release-rq:rp-sent".into() } else { "release-rq:rp-failed".into() }, Some("ReleasedByPeer"))
                }
                Ok(Pdu::AbortRQ { .. }) => {
                    rt.block_on(async { a = None });
                    ("abort".into(), Some("PeerAborted"))
                }
                Ok(p) => (format!("ignored:{}", p.short_description()), None),
                Err(e) => {
                    let c = err_class(&e);
                    rt.block_on(async { a = None });
                    let st = if c == "timeout" { "Dropped" } else { "PeerClosed" };
                    (format!("err:{c}"), Some(st))
                }
            },
            (Call::Release | Call::ReleaseMut, Some(_)) => match rt.block_on(AA::release(a.take().unwrap())) {
                Ok(()) => ("ok".into(), Some("Released")),
                Err(e) => (format!("err:{}", err_class(&e)), Some("Failed")),
            },
            (Call::Abort, Some(_)) => match rt.block_on(AA::abort(a.take().unwrap())) {
                Ok(()) => ("ok".into(), Some("Aborted")),
                Err(e) => (format!("err:{}", err_class(&e)), Some("Aborted")),
            },
            (Call::Drop, Some(_)) => {
                rt.block_on(async { a = None });
                ("ok".into(), Some("Dropped"))
            }
        };
        if tx.send((c, out, term)).is_err() {
            break;
        }
    }
    rt.block_on(async { drop(a) });
}

struct PeerHandle {
    name: &'static str,
    tx: Sender<Call>,
    rx: Receiver<(Call, String, Option<&'static str>)>,
    issued: usize,
    results: Vec<(Call, String)>,
    state: Option<&'static str>,
    sends_ok: usize,
}

impl PeerHandle {
    fn issue(&mut self, c: Call) {
        let _ = self.tx.send(c);
        self.issued += 1;
    }
    fn take(&mut self, r: (Call, String, Option<&'static str>)) {
        if r.0 == Call::Send && r.1 == "ok" {
            self.sends_ok += 1;
        }
        if self.state.is_none() {
            self.state = r.2;
        }
        self.results.push((r.0, r.1));
    }
    fn poll(&mut self) {
        while let Ok(r) = self.rx.try_recv() {
            self.take(r);
        }
    }
    /// wait until all issued calls have reported (bounded)
    fn wait_all(&mut self, d: Duration) -> bool {
        let t0 = Instant::now();
        while self.results.len() < self.issued {
            match self.rx.recv_timeout(d.saturating_sub(t0.elapsed()).max(Duration::from_millis(1))) {
                Ok(r) => self.take(r),
                Err(_) => return false,
            }
        }
        true
    }
}

fn wait_log(proxy: &Proxy, pred: impl Fn(&[WireEvent]) -> bool, d: Duration) -> bool {
    let t0 = Instant::now();
    loop {
        {
            let l = proxy.log.lock().unwrap();
            if pred(&l) {
                return true;
            }
        }
        if t0.elapsed() > d {
            return false;
        }
        std::thread::sleep(Duration::from_micros(200));
    }
}

fn count(l: &[WireEvent], from: &str, what: &str, ty: Option<u8>) -> usize {
    l.iter().filter(|e| e.from == from && e.what == what && ty.map(|t| e.pdu_type == t).unwrap_or(true)).count()
}

/// wire events after establishment -> trace events
fn wire_to_trace(log: &[WireEvent], w: &mut Vec<serde_json::Value>, corrupt: bool) -> (usize, Vec<String>) {
    let mut n = 0;
    let mut kinds = Vec::new();
    let mut dropped_rp = false;
    for e in log {
        match e.what {
            "pdu" => {
                if e.pdu_type <= 3 && !life() {
                    continue; // establishment
                }
                let kind = if life() { life_kind(e.pdu_type) } else { pdu_kind(e.pdu_type) };
                if corrupt && kind == "ReleaseRP" && !dropped_rp {
                    dropped_rp = true; // self-test: hide the release reply from the validator
                    continue;
                }
                w.push(json!({"ev": "pdu", "from": e.from, "kind": kind, "len": e.len}));
                kinds.push(format!("{}:{}", e.from, kind));
                n += 1;
            }
            "closed" if e.how == "WouldBlock" || e.how == "TimedOut" => {
                // the proxy's hang guard fired: this end never closed its connection
                w.push(json!({"ev": "stuck", "by": e.from, "how": e.how}));
                kinds.push(format!("{}:stuck", e.from));
                n += 1;
            }
            "closed" => {
                w.push(json!({"ev": "closed", "by": e.from, "how": e.how}));
                kinds.push(format!("{}:closed", e.from));
                n += 1;
            }
            "garbage" => {
                w.push(json!({"ev": "pdu", "from": e.from, "kind": if life() { "Other" } else { "Garbage" }, "len": e.len}));
                n += 1;
            }
            _ => {}
        }
    }
    (n, kinds)
}

fn run_lib_case(sched: &[(usize, Call)], w: &mut Vec<serde_json::Value>, corrupt: bool, interleavings: &mut String, is_async: bool) -> Result<usize, String> {
    // real acceptor
    let listener = TcpListener::bind("127.0.0.1:0").map_err(|e| e.to_string())?;
    let saddr = listener.local_addr().unwrap();
    let proxy = Proxy::start(saddr, 64);
    let paddr = proxy.addr;
    let (ac_ctx, ac_crx) = channel::<Call>();
    let (ac_rtx, ac_rrx) = channel();
    let (est_tx, est_rx) = channel::<Result<(), String>>();
    let est_tx2 = est_tx.clone();
    let ac_thread = std::thread::spawn(move || {
        let (stream, _) = match listener.accept() {
            Ok(x) => x,
            Err(e) => {
                let _ = est_tx.send(Err(format!("accept: {e}")));
                return;
            }
        };
        let _ = stream.set_nodelay(true);
        let opts = ServerAssociationOptions::new().with_abstract_syntax(VERIFICATION).read_timeout(GUARD);
        if is_async {
            let rt = tokio::runtime::Builder::new_current_thread().enable_all().build().expect("runtime");
            let r = rt.block_on(async {
                stream.set_nonblocking(true).map_err(|e| e.to_string())?;
                let ts = tokio::net::TcpStream::from_std(stream).map_err(|e| e.to_string())?;
                opts.establish_async(ts).await.map_err(|e| format!("acceptor establish_async: {e}"))
            });
            match r {
                Ok(assoc) => {
                    let _ = est_tx.send(Ok(()));
                    peer_loop_async(&rt, assoc, 1, ac_crx, ac_rtx)
                }
                Err(e) => {
                    let _ = est_tx.send(Err(e));
                }
            }
            return;
        }
        match opts.establish(stream) {
            Ok(assoc) => {
                let _ = est_tx.send(Ok(()));
                peer_loop(assoc, 1, ac_crx, ac_rtx, None)
            }
            Err(e) => {
                let _ = est_tx.send(Err(format!("acceptor establish: {e}")));
            }
        }
    });
    let (rq_ctx, rq_crx) = channel::<Call>();
    let (rq_rtx, rq_rrx) = channel();
    let rq_thread = std::thread::spawn(move || {
        let opts = ClientAssociationOptions::new().with_abstract_syntax(VERIFICATION).read_timeout(GUARD);
        if is_async {
            let rt = tokio::runtime::Builder::new_current_thread().enable_all().build().expect("runtime");
            match rt.block_on(opts.establish_async(paddr)) {
                Ok(mut assoc) => {
                    let _ = assoc.inner_stream().set_nodelay(true);
                    let _ = est_tx2.send(Ok(()));
                    peer_loop_async(&rt, assoc, 1, rq_crx, rq_rtx)
                }
                Err(e) => {
                    let _ = est_tx2.send(Err(format!("requestor establish_async: {e}")));
                }
            }
            return;
        }
        match opts.establish(paddr) {
            Ok(mut assoc) => {
                let _ = assoc.inner_stream().set_nodelay(true); // latency only (Nagle + delayed ACK)
                let _ = est_tx2.send(Ok(()));
                peer_loop(assoc, 1, rq_crx, rq_rtx, Some(client_release_mut))
            }
            Err(e) => {
                let _ = est_tx2.send(Err(format!("requestor establish: {e}")));
            }
        }
    });
    for _ in 0..2 {
        match est_rx.recv_timeout(GUARD) {
            Ok(Ok(())) => {}
            Ok(Err(e)) => return Err(e),
            Err(_) => return Err("establishment timed out".into()),
        }
    }
    let dbg = std::env::var("VERIF_DEBUG").is_ok();
    let tcase = Instant::now();
    let mut peers = [
        PeerHandle { name: "rq", tx: rq_ctx, rx: rq_rrx, issued: 0, results: vec![], state: None, sends_ok: 0 },
        PeerHandle { name: "ac", tx: ac_ctx, rx: ac_rrx, issued: 0, results: vec![], state: None, sends_ok: 0 },
    ];
    let short = Duration::from_millis(300);
    if dbg { eprintln!("est {:?}", tcase.elapsed()); }
    let mut recvs = [0usize; 2];
    for &(pi, c) in sched {
        if c == Call::Recv {
            // one turn of the receive loop is only started when the proxy has taken a PDU
            // for this peer that no earlier turn accounts for, or the other end is closed
            // (keeps two peers from waiting on each other until the hang guard fires)
            let other = if pi == 0 { "ac" } else { "rq" };
            let (avail, closed) = {
                let l = proxy.log.lock().unwrap();
                (l.iter().filter(|e| e.from == other && e.what == "pdu" && e.pdu_type >= 4).count(), count(&l, other, "closed", None) > 0)
            };
            if !(avail > recvs[pi] || closed) {
                continue;
            }
            recvs[pi] += 1;
        }
        if dbg { eprintln!("  step {:?} {:?} at {:?}", pi, c, tcase.elapsed()); }
        let p = &mut peers[pi];
        p.poll();
        let name = p.name;
        let busy = p.results.len() < p.issued; // still inside an earlier (blocking) call
        p.issue(c);
        if busy {
            continue; // queued behind it; nothing to wait for now
        }
        match c {
            Call::Send => {
                // wait for the call to return, then for the PDU to reach the proxy
                if p.wait_all(short) {
                    let want = p.sends_ok;
                    wait_log(&proxy, |l| count(l, name, "pdu", Some(4)) >= want || count(l, name, "closed", None) > 0, short);
                }
            }
            Call::Abort | Call::Drop => {
                if p.wait_all(short) {
                    wait_log(&proxy, |l| count(l, name, "closed", None) > 0, short);
                }
            }
            Call::Release | Call::ReleaseMut => {
                // blocking call: wait until its request is on the wire (or it has returned)
                let t0 = Instant::now();
                loop {
                    p.poll();
                    if p.results.len() == p.issued {
                        break;
                    }
                    let seen = { let l = proxy.log.lock().unwrap(); count(&l, name, "pdu", Some(5)) > 0 || count(&l, name, "closed", None) > 0 };
                    if seen || t0.elapsed() > short {
                        break;
                    }
                    std::thread::sleep(Duration::from_micros(200));
                }
            }
            Call::Recv => {
                // completes at once when something is there to read; otherwise stays pending
                p.wait_all(Duration::from_millis(30));
            }
        }
    }
    if dbg { eprintln!("wind down at {:?}", tcase.elapsed()); }
    // wind down: whoever is idle and still alive drops its association; a peer blocked
    // in a call is left alone until the call returns
    let t0 = Instant::now();
    let mut drop_issued = [false, false];
    loop {
        let mut done = true;
        for (i, p) in peers.iter_mut().enumerate() {
            p.poll();
            let idle = p.results.len() == p.issued;
            if idle && p.state.is_none() && !drop_issued[i] {
                p.issue(Call::Drop);
                drop_issued[i] = true;
            }
            if !(p.results.len() == p.issued && p.state.is_some()) {
                done = false;
            }
        }
        if done || t0.elapsed() > GUARD * 3 {
            break;
        }
        std::thread::sleep(Duration::from_micros(200));
    }
    let [rq, ac] = peers;
    let (rq_state, ac_state, rq_res, ac_res) = (rq.state, ac.state, rq.results, ac.results);
    drop(rq.tx);
    drop(ac.tx);
    let _ = rq_thread.join();
    let _ = ac_thread.join();
    if dbg { eprintln!("joined at {:?}", tcase.elapsed()); }
    let log = proxy.finish();
    if dbg { eprintln!("proxy done at {:?}", tcase.elapsed()); }
    w.push(json!({"ev": "reset", "scripted": [], "api": if is_async { "async" } else { "sync" }, "sched": sched.iter().map(|(p, c)| format!("{}:{}", if *p == 0 { "rq" } else { "ac" }, call_name(*c))).collect::<Vec<_>>()}));
    let (n, kinds) = wire_to_trace(&log, w, corrupt);
    *interleavings = kinds.join(",");
    let api = |r: &Vec<(Call, String)>| r.iter().enumerate().map(|(i, (c, o))| json!({"seq": i, "call": call_name(*c), "ret": o})).collect::<Vec<_>>();
    w.push(json!({"ev": "end", "peer": "rq", "state": rq_state.unwrap_or("Est"), "api": api(&rq_res)}));
    w.push(json!({"ev": "end", "peer": "ac", "state": ac_state.unwrap_or("Est"), "api": api(&ac_res)}));
    Ok(n + 3)
}

fn run_lib(args: &std::collections::HashMap<String, String>) {
    let mut scheds: Vec<Vec<(usize, Call)>> = Vec::new();
    if let Some(p) = args.get("schedules") {
        for c in read_ndjson(p) {
            scheds.push(j_arr(&c["sched"]).iter().map(|s| (if j_str(&s["peer"]) == "rq" { 0 } else { 1 }, call_of(j_str(&s["call"])))).collect());
        }
    }
    let nrand: usize = args.get("random").map(|s| s.parse().unwrap()).unwrap_or(0);
    let mut rng = Rng::new(seed_from_env() ^ 0x30);
    for _ in 0..nrand {
        let len = rng.range(2, 12) as usize;
        let mut s = Vec::new();
        for _ in 0..len {
            let c = match rng.below(10) {
                0..=3 => Call::Send,
                4..=6 => Call::Recv,
                7 => Call::Release,
                8 => Call::Abort,
                _ => Call::Drop,
            };
            s.push((rng.below(2) as usize, c));
        }
        scheds.push(s);
    }
    let selftest = args.contains_key("selftest");
    let is_async = args.contains_key("async");
    // Every second schedule in which the requestor releases does so through the `&mut`
    // route (association value kept alive) and afterwards TRIES a send on the released
    // association: nothing of it may reach the wire, and the connection must be closed.
    let mut mut_routes = 0usize;
    if !is_async {
        let mut k = 0usize;
        for s in scheds.iter_mut() {
            if let Some(pos) = s.iter().position(|&(p, c)| p == 0 && c == Call::Release) {
                k += 1;
                if k % 2 == 0 {
                    s[pos].1 = Call::ReleaseMut;
                    s.push((0, Call::Send));
                    mut_routes += 1;
                }
            }
        }
    }
    let mut w = NdjsonWriter::create(&args["out"]);
    let mut rep = Report::new();
    let mut inter = std::collections::BTreeSet::new();
    let mut events = 0usize;
    let mut failed = Vec::new();
    // cases are independent (own sockets, own proxy): a few run side by side
    let next = std::sync::atomic::AtomicUsize::new(0);
    let results: std::sync::Mutex<Vec<Option<(Result<usize, String>, Vec<serde_json::Value>, String)>>> =
        std::sync::Mutex::new((0..scheds.len()).map(|_| None).collect());
    let workers: usize = args.get("jobs").map(|s| s.parse().unwrap()).unwrap_or(4);
    std::thread::scope(|sc| {
        for _ in 0..workers {
            sc.spawn(|| loop {
                let i = next.fetch_add(1, std::sync::atomic::Ordering::SeqCst);
                if i >= scheds.len() {
                    break;
                }
                let mut ev = Vec::new();
                let mut il = String::new();
                let r = run_lib_case(&scheds[i], &mut ev, selftest && i % 5 == 0, &mut il, is_async);
                results.lock().unwrap()[i] = Some((r, ev, il));
            });
        }
    });
    for slot in results.into_inner().unwrap() {
        let (r, ev, il) = slot.expect("case result");
        match r {
            Ok(n) => {
                for e in &ev {
                    w.emit(e);
                }
                inter.insert(il);
                events += n;
                rep.cases += 1;
            }
            Err(e) => failed.push(e),
        }
    }
    w.finish();
    rep.extra.insert("events".into(), json!(events));
    rep.extra.insert("distinct_wire_interleavings".into(), json!(inter.len()));
    rep.extra.insert("setup_failures".into(), json!(failed));
    rep.extra.insert("release_by_mut_route".into(), json!(mut_routes));
    rep.print();
}

// ------------------------------------------------------------------------------------- storescp binary

struct Scp {
    child: Child,
    port: u16,
}

impl Drop for Scp {
    fn drop(&mut self) {
        let _ = self.child.kill();
        let _ = self.child.wait();
    }
}

fn start_scp(bin: &str, out_dir: &str, non_blocking: bool) -> Result<Scp, String> {
    for _attempt in 0..20 {
        // find a free port by bind-and-release
        let port = {
            let l = TcpListener::bind("127.0.0.1:0").map_err(|e| e.to_string())?;
            l.local_addr().unwrap().port()
        };
        let mut cmd = Command::new(bin);
        cmd.arg("-p").arg(port.to_string()).arg("-o").arg(out_dir).arg("--promiscuous");
        if non_blocking {
            cmd.arg("--non-blocking");
        }
        cmd.stdout(Stdio::piped()).stderr(Stdio::null()).env("NO_COLOR", "1");
        let mut child = cmd.spawn().map_err(|e| format!("spawn {bin}: {e}"))?;
        // readiness: the tool logs "listening on" after bind
        let out = child.stdout.take().unwrap();
        let (tx, rx) = channel();
        std::thread::spawn(move || {
            let mut ready = false;
            for line in BufReader::new(out).lines() {
                let Ok(line) = line else { break };
                if !ready && line.contains("listening on") {
                    ready = true;
                    let _ = tx.send(true);
                }
            }
            if !ready {
                let _ = tx.send(false);
            }
        });
        match rx.recv_timeout(Duration::from_secs(20)) {
            Ok(true) => return Ok(Scp { child, port }),
            _ => {
                let _ = child.kill();
                let _ = child.wait();
            }
        }
    }
    Err("could not start storescp".into())
}

// ---- DIMSE messages for the scripted requestor, hand-encoded in Implicit VR Little Endian ----
fn ivr_el(g: u16, e: u16, mut val: Vec<u8>, pad: u8) -> Vec<u8> {
    if val.len() % 2 == 1 {
        val.push(pad);
    }
    let mut v = Vec::new();
    v.extend_from_slice(&g.to_le_bytes());
    v.extend_from_slice(&e.to_le_bytes());
    v.extend_from_slice(&(val.len() as u32).to_le_bytes());
    v.extend_from_slice(&val);
    v
}
fn ivr_ui(g: u16, e: u16, s: &str) -> Vec<u8> {
    ivr_el(g, e, s.as_bytes().to_vec(), 0)
}
fn ivr_us(g: u16, e: u16, x: u16) -> Vec<u8> {
    ivr_el(g, e, x.to_le_bytes().to_vec(), 0)
}
/// command set = (0000,0000) group length + the elements
fn command_set(elems: Vec<Vec<u8>>) -> Vec<u8> {
    let body: Vec<u8> = elems.concat();
    let mut v = ivr_el(0, 0, (body.len() as u32).to_le_bytes().to_vec(), 0);
    v.extend_from_slice(&body);
    v
}
fn c_echo_rq(msg_id: u16) -> Vec<u8> {
    command_set(vec![ivr_ui(0, 2, VERIFICATION), ivr_us(0, 0x100, 0x0030), ivr_us(0, 0x110, msg_id), ivr_us(0, 0x800, 0x0101)])
}
const LATE_INSTANCE: &str = "1.2.826.0.1.3680043.9.9999.30.1";
fn c_store_rq(msg_id: u16) -> Vec<u8> {
    command_set(vec![
        ivr_ui(0, 2, CT_STORAGE),
        ivr_us(0, 0x100, 0x0001),
        ivr_us(0, 0x110, msg_id),
        ivr_us(0, 0x700, 0),
        ivr_us(0, 0x800, 0x0000),
        ivr_ui(0, 0x1000, LATE_INSTANCE),
    ])
}
fn small_dataset() -> Vec<u8> {
    [ivr_ui(8, 0x16, CT_STORAGE), ivr_ui(8, 0x18, LATE_INSTANCE), ivr_el(0x10, 0x10, b"LATE^DATA".to_vec(), b' ')].concat()
}
fn pdv(ctx: u8, command: bool, data: Vec<u8>) -> Pdu {
    Pdu::PData {
        data: vec![PDataValue { presentation_context_id: ctx, value_type: if command { PDataValueType::Command } else { PDataValueType::Data }, is_last: true, data }],
    }
}

fn run_scp(args: &std::collections::HashMap<String, String>) {
    let bin = &args["bin"];
    let n: usize = args["n"].parse().unwrap();
    let nb = args.contains_key("non-blocking");
    let out_dir = format!("{}.scpout", args["out"]);
    let _ = std::fs::create_dir_all(&out_dir);
    let mut rep = Report::new();
    let mut w = NdjsonWriter::create(&args["out"]);
    let scp = match start_scp(bin, &out_dir, nb) {
        Ok(s) => s,
        Err(e) => {
            rep.extra.insert("fatal".into(), json!(e));
            rep.print();
            return;
        }
    };
    let mut rng = Rng::new(seed_from_env() ^ 0x3030 ^ nb as u64);
    let mut events = 0usize;
    let mut failed = Vec::new();
    let mut answered = 0usize;
    let mut late_cases = 0usize;
    for i in 0..n {
        let target = format!("127.0.0.1:{}", scp.port).parse().unwrap();
        let proxy = Proxy::start(target, 64);
        let opts = ClientAssociationOptions::new().with_presentation_context(CT_STORAGE, vec!["1.2.840.10008.1.2"]).read_timeout(GUARD);
        let mut assoc = match opts.establish(proxy.addr) {
            Ok(a) => a,
            Err(e) => {
                failed.push(format!("establish: {e}"));
                let _ = proxy.finish();
                continue;
            }
        };
        let _ = assoc.inner_stream().set_nodelay(true);
        let ctx = assoc.presentation_contexts()[0].id;
        // schedule: some data PDUs, then one terminal call (the first cases are fixed).
        // Cases 4, 5 (and a share of the later ones) are a scripted requestor that takes the
        // A-RELEASE-RP but keeps its socket open and goes on with a C-ECHO / a complete C-STORE.
        let late = if i == 4 { 1 } else if i == 5 { 2 } else if i >= 6 && rng.below(4) == 0 { 1 + rng.below(2) as usize } else { 0 };
        let nsend = if i < 4 { i % 3 } else { rng.below(4) as usize };
        let term = if late > 0 { Call::Release } else if i < 4 { [Call::Release, Call::Release, Call::Abort, Call::Drop][i] } else { *rng.pick(&[Call::Release, Call::Release, Call::Release, Call::Abort, Call::Drop]) };
        let mut api = Vec::new();
        for k in 0..nsend {
            let r = assoc.send(&data_pdu(ctx));
            api.push(json!({"seq": k, "call": "send", "ret": if r.is_ok() { "ok".to_string() } else { format!("err:{}", err_class(&r.unwrap_err())) }}));
        }
        let (state, ret) = if late > 0 {
            // A-RELEASE-RQ by hand; the library's release() would close the socket after the reply
            let sent = assoc.send(&Pdu::ReleaseRQ);
            match sent.and_then(|_| assoc.receive()) {
                Ok(Pdu::ReleaseRP) => {
                    let mut outcome = Vec::new();
                    let msgs: Vec<Pdu> = if late == 1 {
                        vec![pdv(ctx, true, c_echo_rq(7))]
                    } else {
                        vec![pdv(ctx, true, c_store_rq(8)), pdv(ctx, false, small_dataset())]
                    };
                    for m in &msgs {
                        outcome.push(match assoc.send(m) {
                            Ok(()) => "sent".to_string(),
                            Err(e) => format!("send-err:{}", err_class(&e)),
                        });
                    }
                    // what comes back on the released association?
                    outcome.push(match assoc.receive() {
                        Ok(p) => format!("got:{}", p.short_description()),
                        Err(e) => format!("nothing:{}", err_class(&e)),
                    });
                    late_cases += 1;
                    drop(assoc);
                    ("ReleasedLate", format!("rp, then {} -> {}", if late == 1 { "C-ECHO-RQ" } else { "C-STORE-RQ + data set" }, outcome.join(",")))
                }
                Ok(p) => {
                    drop(assoc);
                    ("Failed", format!("err:unexpected:{}", p.short_description()))
                }
                Err(e) => {
                    drop(assoc);
                    ("Failed", format!("err:{}", err_class(&e)))
                }
            }
        } else {
            match term {
                Call::Release => match assoc.release() {
                    Ok(()) => ("Released", "ok".to_string()),
                    Err(e) => ("Failed", format!("err:{}", err_class(&e))),
                },
                Call::Abort => {
                    let r = assoc.abort();
                    ("Aborted", if r.is_ok() { "ok".into() } else { "err".into() })
                }
                _ => {
                    drop(assoc);
                    ("Dropped", "ok".to_string())
                }
            }
        };
        api.push(json!({"seq": nsend, "call": if late > 0 { "scripted-release-then-data" } else { call_name(term) }, "ret": ret}));
        let log = proxy.finish();
        let mut ev = Vec::new();
        ev.push(json!({"ev": "reset", "raw": late > 0, "scripted": if late > 0 { vec!["rq"] } else { vec![] }, "acceptor": if nb { "storescp --non-blocking" } else { "storescp" },
                       "sched": format!("send*{nsend},{}{}", call_name(term), match late { 1 => ",keep-open,c-echo", 2 => ",keep-open,c-store", _ => "" })}));
        let (k, kinds) = wire_to_trace(&log, &mut ev, false);
        if kinds.iter().any(|s| s == "ac:ReleaseRP") {
            answered += 1;
        }
        ev.push(json!({"ev": "end", "peer": "rq", "state": state, "api": api}));
        for e in &ev {
            w.emit(e);
        }
        events += k + 2;
        rep.cases += 1;
    }
    drop(scp);
    let _ = std::fs::remove_dir_all(&out_dir);
    w.finish();
    rep.extra.insert("events".into(), json!(events));
    rep.extra.insert("release_answered".into(), json!(answered));
    rep.extra.insert("late_data_cases".into(), json!(late_cases));
    rep.extra.insert("setup_failures".into(), json!(failed));
    rep.print();
}

include!("../release_life.rs");

fn main() {
    quiet_panics();
    let args = args_map();
    if args.contains_key("life") {
        LIFE.store(true, std::sync::atomic::Ordering::Relaxed);
    }
    match args.get("_0").map(|s| s.as_str()) {
        Some("lib") => run_lib(&args),
        Some("scp") => run_scp(&args),
        Some("est") => run_est(&args),
        Some("tools") => run_tools(&args),
        _ => {
            eprintln!("usage: drv_release lib|scp ...");
            std::process::exit(2);
        }
    }
}
