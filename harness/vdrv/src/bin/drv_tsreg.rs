//! C16 driver: dump a snapshot of the transfer syntax registry as ndjson events.
//!
//!   drv_tsreg snapshot --out <file.ndjson> [--features <label>]
//!
//! Events (judged by specs/dict/TsRegistry.tla, nothing is decided here):
//!  {ev:"meta", fs, n}                       first line; every event carries fs = feature set label
//!  {ev:"const", k, ident, uid, name, kind, r, w, a}
//!        the built-in entry definitions `entries::*` in the order in which
//!        lib.rs registers them (codec shape of the *definition*)
//!  {ev:"ts", uid, name, big, kind, r, w, a, pr, pw, q:{...capability answers...},
//!        dec, enc, hdr:[bytes]|[], back:{ok,g,e,vr,len,n}|{ok:false}, adapter_rt:"yes"|"no"|"na"}
//!        one per transfer syntax yielded by TransferSyntaxRegistry.iter()
//!  {ev:"lookup", uid, pad:[code points appended], found:uid|"", name, same:bool}
//!
//! The same source file is compiled a second time by harness/tsreg_variants with
//! other Cargo feature sets of dicom-transfer-syntax-registry.

use dicom_core::header::{DataElementHeader, Length, Tag, VR};
use dicom_encoding::transfer_syntax::{Codec, DataRWAdapter, Endianness, TransferSyntax};
use dicom_encoding::TransferSyntaxIndex;
use dicom_transfer_syntax_registry::{entries, TransferSyntaxRegistry};
use serde_json::{json, Value};
use std::io::{Read, Write};
use vcommon::*;

fn shape<D, R, W>(c: &Codec<D, R, W>) -> (&'static str, bool, bool, bool) {
    match c {
        Codec::None => ("none", false, false, false),
        Codec::EncapsulatedPixelData(r, w) => ("encaps", r.is_some(), w.is_some(), false),
        Codec::Dataset(a) => ("dataset", false, false, a.is_some()),
    }
}

macro_rules! consts {
    ($out:expr, $fs:expr, $k:expr, $($id:ident),* $(,)?) => {
        $(
            {
                let ts = &entries::$id;
                let (kind, r, w, a) = shape(ts.codec());
                $out.emit(&json!({"ev":"const","fs":$fs,"k":$k,"ident":stringify!($id),"uid":ts.uid(),"name":ts.name(),
                                  "kind":kind,"r":r,"w":w,"a":a}));
                $k += 1;
            }
        )*
    };
}

fn adapter_roundtrip(a: &dyn DataRWAdapter) -> bool {
    let payload: Vec<u8> = (0..1000u32).map(|i| (i * 7 % 251) as u8).collect();
    let mut sink: Vec<u8> = Vec::new();
    {
        let mut w = a.adapt_writer(Box::new(&mut sink));
        if w.write_all(&payload).is_err() || w.flush().is_err() {
            return false;
        }
    }
    let mut back = Vec::new();
    let mut r = a.adapt_reader(Box::new(&sink[..]));
    if r.read_to_end(&mut back).is_err() {
        return false;
    }
    back == payload
}

fn describe(ts: &TransferSyntax, fs: &str) -> Value {
    let (kind, r, w, a) = shape(ts.codec());
    let q = json!({
        "fully": ts.is_fully_supported(),
        "codec_free": ts.is_codec_free(),
        "unsupported": ts.is_unsupported(),
        "encaps": ts.is_encapsulated_pixel_data(),
        "unsup_pix": ts.is_unsupported_pixel_encapsulation(),
        "can_all": ts.can_decode_all(),
        "can_ds": ts.can_decode_dataset(),
    });
    // the encoder actually offered: header of (0010,0010) PN, length 4
    let enc = ts.encoder_for::<Vec<u8>>();
    let hdr: Option<Vec<u8>> = enc.as_ref().and_then(|e| {
        let mut v = Vec::new();
        match catch(|| {
            e.encode_element_header(&mut v, DataElementHeader::new(Tag(0x0010, 0x0010), VR::PN, Length(4)))
        }) {
            Ok(Ok(_)) => Some(v),
            _ => None,
        }
    });
    // the decoder actually offered reads that header back
    let dec = ts.decoder_for::<&[u8]>();
    let has_dec = dec.is_some();
    let back: Value = match (&dec, &hdr) {
        (Some(d), Some(h)) => {
            let mut src: &[u8] = &h[..];
            match catch(|| d.decode_header(&mut src)) {
                Ok(Ok((h, n))) => json!({"ok": true, "g": h.tag.0, "e": h.tag.1, "vr": h.vr.to_string(), "len": h.len.0 as u64 & 0xFFFF, "n": n}),
                _ => json!({"ok": false}),
            }
        }
        _ => json!({"ok": false}),
    };
    let adapter_rt: Value = match ts.codec() {
        Codec::Dataset(Some(ad)) => match catch(|| adapter_roundtrip(&**ad)) {
            Ok(true) => Value::from("yes"),
            _ => Value::from("no"),
        },
        _ => Value::from("na"),
    };
    json!({"ev":"ts","fs":fs,"uid":ts.uid(),"name":ts.name(),"big": ts.endianness() == Endianness::Big,
           "kind":kind,"r":r,"w":w,"a":a,
           "pr": ts.pixel_data_reader().is_some(), "pw": ts.pixel_data_writer().is_some(),
           "q": q, "dec": has_dec, "enc": enc.is_some(),
           "hdr": hdr.as_ref().map(|h| bytes_json(h)).unwrap_or(json!([])), "back": back,
           "adapter_rt": adapter_rt})
}

fn main() {
    quiet_panics();
    let args = args_map();
    let out_path = args.get("out").expect("--out");
    let features = args.get("features").cloned().unwrap_or_else(|| "harness".into());
    let mut out = NdjsonWriter::create(out_path);
    let mut all: Vec<&TransferSyntax> = TransferSyntaxRegistry.iter().collect();
    all.sort_by_key(|t| t.uid());
    out.emit(&json!({"ev":"meta","fs":&features,"uid":"","n":all.len()}));

    // built-in entry definitions, in registration order of lib.rs
    let mut k = 1usize;
    consts!(
        out, &features, k,
        IMPLICIT_VR_LITTLE_ENDIAN,
        EXPLICIT_VR_LITTLE_ENDIAN,
        EXPLICIT_VR_BIG_ENDIAN,
        ENCAPSULATED_UNCOMPRESSED_EXPLICIT_VR_LITTLE_ENDIAN,
        DEFLATED_EXPLICIT_VR_LITTLE_ENDIAN,
        JPIP_REFERENCED_DEFLATE,
        JPIP_HTJ2K_REFERENCED_DEFLATE,
        JPEG_BASELINE,
        JPEG_EXTENDED,
        JPEG_LOSSLESS_NON_HIERARCHICAL,
        JPEG_LOSSLESS_NON_HIERARCHICAL_FIRST_ORDER_PREDICTION,
        JPEG_LS_LOSSLESS_IMAGE_COMPRESSION,
        JPEG_LS_LOSSY_IMAGE_COMPRESSION,
        JPEG_2000_IMAGE_COMPRESSION_LOSSLESS_ONLY,
        JPEG_2000_IMAGE_COMPRESSION,
        JPEG_2000_PART2_MULTI_COMPONENT_IMAGE_COMPRESSION_LOSSLESS_ONLY,
        JPEG_2000_PART2_MULTI_COMPONENT_IMAGE_COMPRESSION,
        HIGH_THROUGHPUT_JPEG_2000_IMAGE_COMPRESSION_LOSSLESS_ONLY,
        HIGH_THROUGHPUT_JPEG_2000_WITH_RPCL_OPTIONS_IMAGE_COMPRESSION_LOSSLESS_ONLY,
        HIGH_THROUGHPUT_JPEG_2000_IMAGE_COMPRESSION,
        JPEG_XL_LOSSLESS,
        JPEG_XL_RECOMPRESSION,
        JPEG_XL,
        JPIP_REFERENCED,
        JPIP_HTJ2K_REFERENCED,
        MPEG2_MAIN_PROFILE_MAIN_LEVEL,
        FRAGMENTABLE_MPEG2_MAIN_PROFILE_MAIN_LEVEL,
        MPEG2_MAIN_PROFILE_HIGH_LEVEL,
        FRAGMENTABLE_MPEG2_MAIN_PROFILE_HIGH_LEVEL,
        MPEG4_AVC_H264_HIGH_PROFILE,
        FRAGMENTABLE_MPEG4_AVC_H264_HIGH_PROFILE,
        MPEG4_AVC_H264_BD_COMPATIBLE_HIGH_PROFILE,
        FRAGMENTABLE_MPEG4_AVC_H264_BD_COMPATIBLE_HIGH_PROFILE,
        MPEG4_AVC_H264_HIGH_PROFILE_FOR_2D_VIDEO,
        FRAGMENTABLE_MPEG4_AVC_H264_HIGH_PROFILE_FOR_2D_VIDEO,
        MPEG4_AVC_H264_HIGH_PROFILE_FOR_3D_VIDEO,
        FRAGMENTABLE_MPEG4_AVC_H264_HIGH_PROFILE_FOR_3D_VIDEO,
        MPEG4_AVC_H264_STEREO_HIGH_PROFILE,
        FRAGMENTABLE_MPEG4_AVC_H264_STEREO_HIGH_PROFILE,
        HEVC_H265_MAIN_PROFILE,
        HEVC_H265_MAIN_10_PROFILE,
        RLE_LOSSLESS,
        DEFLATED_IMAGE_FRAME_COMPRESSION,
        SMPTE_ST_2110_20_UNCOMPRESSED_PROGRESSIVE,
        SMPTE_ST_2110_20_UNCOMPRESSED_INTERLACED,
        SMPTE_ST_2110_30_PCM,
    );
    let n_const = k - 1;

    for ts in &all {
        out.emit(&describe(ts, &features));
    }

    // lookups with trailing padding
    let pads: [&[u32]; 8] = [&[], &[0], &[32], &[0, 0], &[32, 32], &[0, 32], &[32, 0], &[32, 0, 32, 0]];
    let mut n_lookup = 0usize;
    for ts in &all {
        for pad in pads {
            let mut s = String::from(ts.uid());
            for c in pad {
                s.push(char::from_u32(*c).unwrap());
            }
            let got = catch(|| TransferSyntaxRegistry.get(&s)).unwrap_or(None);
            out.emit(&json!({"ev":"lookup","fs":&features,"uid":ts.uid(),"pad":pad,
                "found": got.map(|g| g.uid()).unwrap_or(""),
                "name": got.map(|g| g.name()).unwrap_or(""),
                "same": got.map(|g| std::ptr::eq(g, *ts)).unwrap_or(false)}));
            n_lookup += 1;
        }
    }
    let lines = out.finish();
    let mut rep = Report::new();
    rep.cases = lines;
    rep.extra.insert("registered".into(), Value::from(all.len() as u64));
    rep.extra.insert("consts".into(), Value::from(n_const as u64));
    rep.extra.insert("lookups".into(), Value::from(n_lookup as u64));
    rep.extra.insert("features".into(), Value::from(features));
    rep.print();
}
