//! Conformance driver for the token readers, the collector and the adaptive VR
//! decoder (C06, C07, C08).
//!
//!   drv_readers dict  --cases <ndjson>                 dictionary facts of the tags used by the specs
//!   drv_readers c07   --cases <ndjson> --out <dir>     streams with odd lengths -> eager/lazy readers
//!   drv_readers c06   --cases <ndjson> --out <dir>     files x portionings -> open/readers/collector
//!   drv_readers c08   --cases <ndjson>                 flexible VR decoding vs regular decoders
//!
//! All inputs (stream bytes, file meta bytes, expected tokens / positions /
//! objects / call results) come from the TLA+ specifications in
//! specs/readers (printed by TLC).  The driver only transports them into the
//! real API, projects what the code reports into the same abstract shape and
//! compares for equality; for C07 it also records a token-level trace
//! (position reported, bytes consumed) which Trace_Reader.tla validates.

use dicom_core::dictionary::{DataDictionary, DataDictionaryEntry, VirtualVr};
use dicom_core::header::{DataElementHeader, HasLength, Header, Length, SequenceItemHeader};
use dicom_core::value::{PrimitiveValue, Value as DValue};
use dicom_core::{Tag, VR};
use dicom_dictionary_std::StandardDataDictionary;
use dicom_encoding::text::SpecificCharacterSet;
use dicom_encoding::transfer_syntax::TransferSyntaxIndex;
use dicom_object::collector::DicomCollectorOptions;
use dicom_object::file::{OddLengthStrategy, ReadPreamble};
use dicom_object::{FileMetaTable, InMemDicomObject, OpenFileOptions};
use dicom_parser::dataset::lazy_read::{LazyDataSetReader, LazyDataSetReaderOptions};
use dicom_parser::dataset::read::{DataSetReader, DataSetReaderOptions, ValueReadStrategy};
use dicom_parser::dataset::{DataToken, LazyDataToken};
use dicom_parser::stateful::decode::{Result as DecResult, StatefulDecode, StatefulDecoder};
use dicom_transfer_syntax_registry::TransferSyntaxRegistry;
use serde_json::{json, Value};
use std::cell::Cell;
use std::io::{BufReader, Cursor, Read, Seek};
use std::rc::Rc;
use vcommon::*;

// ------------------------------------------------------------------ helpers

/// Mismatches grouped by an abstract class key: count + first examples.
struct Classes {
    map: std::collections::BTreeMap<String, (usize, Vec<Value>)>,
    total: usize,
}
impl Classes {
    fn new() -> Self {
        Classes { map: Default::default(), total: 0 }
    }
    fn add(&mut self, key: String, example: Value) {
        self.total += 1;
        let e = self.map.entry(key).or_insert((0, Vec::new()));
        e.0 += 1;
        if e.1.len() < 2 {
            e.1.push(example);
        }
    }
    fn into_report(self, rep: &mut Report) {
        rep.mismatch_count = self.total;
        for (k, (n, ex)) in self.map {
            rep.mismatches.push(json!({"class": k, "count": n, "examples": ex}));
        }
    }
}

fn ts_uid(ts: &str) -> &'static str {
    match ts {
        "IVRLE" => "1.2.840.10008.1.2",
        "EVRLE" => "1.2.840.10008.1.2.1",
        "EVRBE" => "1.2.840.10008.1.2.2",
        other => panic!("unknown transfer syntax class {other}"),
    }
}

fn odd_of(s: &str) -> OddLengthStrategy {
    match s {
        "Accept" => OddLengthStrategy::Accept,
        "NextEven" => OddLengthStrategy::NextEven,
        "Fail" => OddLengthStrategy::Fail,
        other => panic!("unknown odd length strategy {other}"),
    }
}

fn vrs_of(s: &str) -> ValueReadStrategy {
    match s {
        "Preserved" => ValueReadStrategy::Preserved,
        "Interpreted" => ValueReadStrategy::Interpreted,
        "Raw" => ValueReadStrategy::Raw,
        other => panic!("unknown value read strategy {other}"),
    }
}

fn len_json(l: Length) -> Value {
    match l.get() {
        Some(n) => json!(n),
        None => json!(-1),
    }
}

fn tag_json(t: Tag) -> Value {
    json!([t.0, t.1])
}

/// A `StatefulDecode` that delegates to the real stateful decoder and publishes
/// the position it reports after every call.
struct Rec<D> {
    inner: D,
    pos: Rc<Cell<u64>>,
    calls: Rc<Cell<u64>>,
}

impl<D: StatefulDecode> Rec<D> {
    fn sync(&mut self) {
        self.pos.set(self.inner.position());
        self.calls.set(self.calls.get() + 1);
    }
}

impl<D: StatefulDecode> StatefulDecode for Rec<D> {
    type Reader = D::Reader;

    fn decode_header(&mut self) -> DecResult<DataElementHeader> {
        let r = self.inner.decode_header();
        self.sync();
        r
    }
    fn decode_item_header(&mut self) -> DecResult<SequenceItemHeader> {
        let r = self.inner.decode_item_header();
        self.sync();
        r
    }
    fn read_value(&mut self, header: &DataElementHeader) -> DecResult<PrimitiveValue> {
        let r = self.inner.read_value(header);
        self.sync();
        r
    }
    fn read_value_preserved(&mut self, header: &DataElementHeader) -> DecResult<PrimitiveValue> {
        let r = self.inner.read_value_preserved(header);
        self.sync();
        r
    }
    fn read_value_bytes(&mut self, header: &DataElementHeader) -> DecResult<PrimitiveValue> {
        let r = self.inner.read_value_bytes(header);
        self.sync();
        r
    }
    fn read_to_vec(&mut self, length: u32, vec: &mut Vec<u8>) -> DecResult<()> {
        let r = self.inner.read_to_vec(length, vec);
        self.sync();
        r
    }
    fn read_u32_to_vec(&mut self, length: u32, vec: &mut Vec<u32>) -> DecResult<()> {
        let r = self.inner.read_u32_to_vec(length, vec);
        self.sync();
        r
    }
    fn read_to<W>(&mut self, length: u32, out: W) -> DecResult<()>
    where
        Self: Sized,
        W: std::io::Write,
    {
        let r = self.inner.read_to(length, out);
        self.sync();
        r
    }
    fn skip_bytes(&mut self, length: u32) -> DecResult<()> {
        let r = self.inner.skip_bytes(length);
        self.sync();
        r
    }
    fn seek(&mut self, position: u64) -> DecResult<()>
    where
        Self::Reader: Seek,
    {
        let r = self.inner.seek(position);
        self.sync();
        r
    }
    fn position(&self) -> u64 {
        self.inner.position()
    }
}

/// projection of a token into the abstract shape of Layout!Tok
fn tok_json(t: &DataToken) -> Value {
    match t {
        DataToken::ElementHeader(h) => json!({"t":"EH","tag":tag_json(h.tag),"vr":h.vr.to_string(),"len":len_json(h.len)}),
        DataToken::SequenceStart { tag, len } => json!({"t":"SS","tag":tag_json(*tag),"vr":"","len":len_json(*len)}),
        DataToken::PixelSequenceStart => json!({"t":"PS","tag":[0,0],"vr":"","len":0}),
        DataToken::SequenceEnd => json!({"t":"SE","tag":[0,0],"vr":"","len":0}),
        DataToken::ItemStart { len } => json!({"t":"IS","tag":[0,0],"vr":"","len":len_json(*len)}),
        DataToken::ItemEnd => json!({"t":"IE","tag":[0,0],"vr":"","len":0}),
        DataToken::PrimitiveValue(v) => json!({"t":"PV","tag":[0,0],"vr":"","len":-3, "val": prim_bytes_json(v, false)}),
        DataToken::ItemValue(v) => json!({"t":"IV","tag":[0,0],"vr":"","len":v.len(), "val": bytes_json(v)}),
        DataToken::OffsetTable(v) => json!({"t":"OT","tag":[0,0],"vr":"","len":-3, "ot": v}),
    }
}

/// The wire bytes of a primitive value in the byte order of the transfer
/// syntax (strings joined by a backslash).  Pure re-serialisation, used to
/// compare values with the value bytes the specification put on the wire.
fn prim_bytes(v: &PrimitiveValue, big: bool) -> Vec<u8> {
    macro_rules! num {
        ($xs:expr) => {{
            let mut out = Vec::new();
            for x in $xs.iter() {
                if big {
                    out.extend_from_slice(&x.to_be_bytes());
                } else {
                    out.extend_from_slice(&x.to_le_bytes());
                }
            }
            out
        }};
    }
    match v {
        PrimitiveValue::Empty => vec![],
        PrimitiveValue::Strs(s) => s.join("\\").into_bytes(),
        PrimitiveValue::Str(s) => s.clone().into_bytes(),
        PrimitiveValue::Tags(ts) => {
            let mut out = Vec::new();
            for t in ts.iter() {
                for x in [t.0, t.1] {
                    if big {
                        out.extend_from_slice(&x.to_be_bytes());
                    } else {
                        out.extend_from_slice(&x.to_le_bytes());
                    }
                }
            }
            out
        }
        PrimitiveValue::U8(b) => b.to_vec(),
        PrimitiveValue::I16(x) => num!(x),
        PrimitiveValue::U16(x) => num!(x),
        PrimitiveValue::I32(x) => num!(x),
        PrimitiveValue::U32(x) => num!(x),
        PrimitiveValue::I64(x) => num!(x),
        PrimitiveValue::U64(x) => num!(x),
        PrimitiveValue::F32(x) => num!(x),
        PrimitiveValue::F64(x) => num!(x),
        other => format!("{other:?}").into_bytes(),
    }
}
fn prim_bytes_json(v: &PrimitiveValue, big: bool) -> Value {
    bytes_json(&prim_bytes(v, big))
}

/// projection of an in-memory object into the shape of ObjectBuild!Obj
fn obj_json(obj: &InMemDicomObject, big: bool) -> Value {
    let mut out = Vec::new();
    for e in obj.iter() {
        let h = e.header();
        match e.value() {
            DValue::Primitive(v) => out.push(json!({"k":"P","tag":tag_json(h.tag),"vr":h.vr.to_string(),
                "len":len_json(h.len),"val":prim_bytes_json(v, big)})),
            DValue::Sequence(seq) => {
                let items: Vec<Value> = seq
                    .items()
                    .iter()
                    .map(|it| json!({"len": len_json(it.length()), "els": obj_json(it, big)}))
                    .collect();
                out.push(json!({"k":"S","tag":tag_json(h.tag),"vr":h.vr.to_string(),"len":len_json(h.len),"items":items}));
            }
            DValue::PixelSequence(p) => {
                let frags: Vec<Value> = p.fragments().iter().map(|f| bytes_json(f)).collect();
                out.push(json!({"k":"X","tag":tag_json(h.tag),"vr":h.vr.to_string(),"ot":p.offset_table(),"frags":frags}));
            }
        }
    }
    Value::Array(out)
}

/// compare an observed object projection with the expected one (ObjectBuild!Obj);
/// returns a description of the first difference
fn cmp_obj(exp: &Value, obs: &Value, path: &str) -> Option<String> {
    cmp_obj_opt(exp, obs, path, true, true)
}
/// `pixels`: compare the content of encapsulated pixel data; `item_len`: compare the
/// recorded length of sequence items (not part of InMemDicomObject equality)
fn cmp_obj_opt(exp: &Value, obs: &Value, path: &str, pixels: bool, item_len: bool) -> Option<String> {
    let (ea, oa) = (j_arr(exp), j_arr(obs));
    for (i, e) in ea.iter().enumerate() {
        let p = format!("{path}/{}", e["tag"]);
        let Some(o) = oa.get(i) else {
            return Some(format!("{p}: element missing (observed {} elements, expected {})", oa.len(), ea.len()));
        };
        for f in ["k", "tag", "vr"] {
            if e[f] != o[f] {
                return Some(format!("{p}: {f} expected {} observed {}", e[f], o[f]));
            }
        }
        match j_str(&e["k"]) {
            "P" => {
                if e["len"] != o["len"] {
                    return Some(format!("{p}: len expected {} observed {}", e["len"], o["len"]));
                }
                if e["cmp"].as_bool().unwrap_or(true) && e["val"] != o["val"] {
                    return Some(format!("{p}: value bytes expected {} observed {}", e["val"], o["val"]));
                }
            }
            "S" => {
                if e["len"] != o["len"] {
                    return Some(format!("{p}: len expected {} observed {}", e["len"], o["len"]));
                }
                let (ei, oi) = (j_arr(&e["items"]), j_arr(&o["items"]));
                if ei.len() != oi.len() {
                    return Some(format!("{p}: {} items expected, {} observed", ei.len(), oi.len()));
                }
                for (k, (x, y)) in ei.iter().zip(oi.iter()).enumerate() {
                    if item_len && x["len"] != y["len"] {
                        return Some(format!("{p}/item{k}: len expected {} observed {}", x["len"], y["len"]));
                    }
                    if let Some(d) = cmp_obj_opt(&x["els"], &y["els"], &format!("{p}/item{k}"), pixels, item_len) {
                        return Some(d);
                    }
                }
            }
            "X" if !pixels => {}
            "X" => {
                if e["cmp"].as_bool().unwrap_or(true) && e["ot"] != o["ot"] {
                    return Some(format!("{p}: offset table expected {} observed {}", e["ot"], o["ot"]));
                }
                if e["frags"] != o["frags"] {
                    return Some(format!("{p}: fragments expected {} observed {}", e["frags"], o["frags"]));
                }
            }
            k => panic!("unknown element kind {k}"),
        }
    }
    if oa.len() > ea.len() {
        return Some(format!("{path}: {} unexpected extra element(s), first {}", oa.len() - ea.len(), oa[ea.len()]["tag"]));
    }
    None
}

fn meta_json(m: &FileMetaTable) -> Value {
    let t = |s: &str| bytes_json(s.trim_end_matches(['\0', ' ']).as_bytes());
    json!({"ts": t(&m.transfer_syntax), "sop_class": t(&m.media_storage_sop_class_uid),
           "sop_instance": t(&m.media_storage_sop_instance_uid), "impl_class": t(&m.implementation_class_uid),
           "version": bytes_json(&m.information_version), "group_length": m.information_group_length})
}

// ------------------------------------------------------------------ token readers

struct TokRun {
    /// observed tokens, each with "pos" (reported position) and "cons" (bytes consumed)
    toks: Vec<Value>,
    /// "eof" | "err" | "panic"
    end: String,
    err: String,
    cons: u64,
    pos: u64,
}

/// run the real eager or lazy token reader over `bytes`
fn run_reader(bytes: &[u8], ts: &str, odd: &str, mode: &str, vread: &str, flexible: bool, max_tokens: usize) -> TokRun {
    let tsx = TransferSyntaxRegistry.get(ts_uid(ts)).expect("transfer syntax");
    let count = Rc::new(Cell::new(0u64));
    let pos = Rc::new(Cell::new(0u64));
    let calls = Rc::new(Cell::new(0u64));
    let src = CountingReader {
        inner: Cursor::new(bytes.to_vec()),
        count: count.clone(),
    };
    let mut toks = Vec::new();
    let mut end = "eof".to_string();
    let mut err = String::new();
    let big = ts == "EVRBE";
    let res = catch(|| {
        if flexible {
            // the adaptive decoder can only be selected through the reader's own constructor
            let mut o = DataSetReaderOptions::default();
            o.odd_length = odd_of(odd);
            o.value_read = vrs_of(vread);
            o.flexible_decoding = true;
            let mut rd = DataSetReader::new_with_ts_options(src, tsx, o).expect("reader");
            for _ in 0..max_tokens {
                match rd.next() {
                    None => return,
                    Some(Ok(t)) => {
                        let mut j = tok_json(&t);
                        if let DataToken::PrimitiveValue(v) = &t {
                            j["val"] = prim_bytes_json(v, big);
                        }
                        j["cons"] = json!(count.get());
                        toks.push(j);
                    }
                    Some(Err(e)) => {
                        end = "err".into();
                        err = format!("{e}");
                        return;
                    }
                }
            }
            end = "toomany".into();
            return;
        }
        let dec = StatefulDecoder::new_with(src, tsx, SpecificCharacterSet::default(), 0).expect("decoder");
        let rec = Rec {
            inner: dec,
            pos: pos.clone(),
            calls: calls.clone(),
        };
        if mode == "eager" {
            let mut o = DataSetReaderOptions::default();
            o.odd_length = odd_of(odd);
            o.value_read = vrs_of(vread);
            let mut rd = DataSetReader::new(rec, o);
            for _ in 0..max_tokens {
                match rd.next() {
                    None => return,
                    Some(Ok(t)) => {
                        let mut j = tok_json(&t);
                        if let DataToken::PrimitiveValue(v) = &t {
                            j["val"] = prim_bytes_json(v, big);
                        }
                        j["pos"] = json!(pos.get());
                        j["cons"] = json!(count.get());
                        toks.push(j);
                    }
                    Some(Err(e)) => {
                        end = "err".into();
                        err = format!("{e}");
                        return;
                    }
                }
            }
            end = "toomany".into();
        } else {
            let mut o = LazyDataSetReaderOptions::default();
            o.odd_length = odd_of(odd);
            let mut rd = LazyDataSetReader::new_with_options(rec, o);
            let strategy = vrs_of(vread);
            for _ in 0..max_tokens {
                match rd.advance() {
                    None => return,
                    Some(Ok(t)) => {
                        // values are pulled through the lazy token
                        match t.into_owned_with_strategy(strategy) {
                            Ok(t) => {
                                let mut j = tok_json(&t);
                                if let DataToken::PrimitiveValue(v) = &t {
                                    j["val"] = prim_bytes_json(v, big);
                                }
                                j["pos"] = json!(pos.get());
                                j["cons"] = json!(count.get());
                                toks.push(j);
                            }
                            Err(e) => {
                                end = "err".into();
                                err = format!("value: {e}");
                                return;
                            }
                        }
                    }
                    Some(Err(e)) => {
                        end = "err".into();
                        err = format!("{e}");
                        return;
                    }
                }
            }
            end = "toomany".into();
        }
    });
    if let Err(p) = res {
        end = "panic".into();
        err = p;
    }
    TokRun {
        toks,
        end,
        err,
        cons: count.get(),
        pos: pos.get(),
    }
}

/// first difference between expected tokens (Layout!Toks) and observed ones
fn cmp_toks(exp: &[Value], run: &TokRun, exp_end: &str, total: u64, check_pos: bool, check_val: bool) -> Option<Value> {
    for (i, e) in exp.iter().enumerate() {
        let Some(o) = run.toks.get(i) else {
            return Some(json!({"what":"reader stopped early","at":i,"expected":e,"end":run.end,"err":run.err}));
        };
        let kind = j_str(&e["t"]);
        if e["t"] != o["t"] {
            return Some(json!({"what":"token kind","at":i,"expected":e,"observed":o}));
        }
        if matches!(kind, "EH" | "SS") && (e["tag"] != o["tag"] || e["vr"] != o["vr"]) {
            return Some(json!({"what":"header tag/vr","at":i,"expected":e,"observed":o}));
        }
        if matches!(kind, "EH" | "SS" | "IS" | "IV") && e["len"] != o["len"] {
            return Some(json!({"what":"reported length","at":i,"expected":e,"observed":o}));
        }
        if check_val && e["cmp"].as_bool().unwrap_or(false) {
            let same = match kind {
                "PV" | "IV" => e["val"] == o["val"],
                "OT" => e["val"] == o["ot"],
                _ => true,
            };
            if !same {
                return Some(json!({"what":"value","at":i,"expected":e,"observed":o}));
            }
        }
        if check_pos {
            if o["pos"] != o["cons"] {
                return Some(json!({"what":"position != bytes consumed","at":i,"expected":e,"observed":o}));
            }
            if e["pos"] != o["pos"] {
                return Some(json!({"what":"position","at":i,"expected":e,"observed":o}));
            }
        }
    }
    if run.toks.len() > exp.len() {
        return Some(json!({"what":"extra token","at":exp.len(),"observed":run.toks[exp.len()]}));
    }
    if run.end != exp_end {
        return Some(json!({"what":"outcome","expected_end":exp_end,"end":run.end,"err":run.err}));
    }
    if exp_end == "eof" && run.cons != total {
        return Some(json!({"what":"bytes consumed at the end","expected":total,"observed":run.cons}));
    }
    None
}

/// abstract description of where a case went wrong: the last header before the difference
fn last_header(exp: &[Value], at: usize) -> Value {
    let mut i = at.min(exp.len().saturating_sub(1));
    loop {
        if let Some(e) = exp.get(i) {
            if matches!(j_str(&e["t"]), "EH" | "IS" | "SS" | "PS") && i < at {
                return e.clone();
            }
        }
        if i == 0 {
            return Value::Null;
        }
        i -= 1;
    }
}

/// abstract class of the header a difference follows: kind, value width class, length class
fn after_class(h: &Value) -> String {
    if h.is_null() {
        return "start".into();
    }
    let t = j_str(&h["t"]);
    let len = h["len"].as_i64().unwrap_or(0);
    if t == "EH" {
        let w = match j_str(&h["vr"]) {
            "US" | "SS" | "OW" => 2,
            "UL" | "SL" | "FL" | "OF" | "OL" | "AT" => 4,
            "FD" | "OD" | "UV" | "SV" | "OV" => 8,
            _ => 1,
        };
        let lc = if len % w != 0 { "len%w!=0" } else if len % 2 == 1 { "odd" } else { "even" };
        format!("EH(width{w},{lc})")
    } else {
        let lc = if len < 0 { "undefined" } else if len % 2 == 1 { "odd" } else { "even" };
        format!("{t}({lc})")
    }
}

fn file_bytes(meta: &Value, ts: &str, preamble: Option<&Value>, ds: &[u8]) -> Vec<u8> {
    let mut f = Vec::new();
    if let Some(p) = preamble {
        f.extend(j_bytes(p));
    }
    f.extend(j_bytes(&meta[ts]));
    f.extend_from_slice(ds);
    f
}

// ------------------------------------------------------------------ C07

fn cmd_c07(args: &std::collections::HashMap<String, String>) {
    let cases = read_ndjson(args.get("cases").expect("--cases"));
    let out_dir = args.get("out").cloned().expect("--out");
    std::fs::create_dir_all(&out_dir).unwrap();
    let trace_every: usize = args.get("trace-every").map(|s| s.parse().unwrap()).unwrap_or(1);
    let selftest = args.get("selftest").cloned().unwrap_or_default();
    let mut rep = Report::new();
    let mut cls = Classes::new();
    let mut meta = Value::Null;
    let mut preamble = Value::Null;
    for c in &cases {
        if c.get("meta").is_some() {
            meta = c["meta"].clone();
            preamble = c["preamble"].clone();
        }
    }
    let trace_path = format!("{out_dir}/trace_reader.ndjson");
    let mut tr = NdjsonWriter::create(&trace_path);
    let (mut n_tok_runs, mut n_e2e, mut n_traced, mut n_tokens, mut nontrivial) = (0usize, 0usize, 0usize, 0usize, 0usize);
    let mut idx = 0usize;
    let mut bad_ids: Vec<Value> = Vec::new();
    for c in &cases {
        if c.get("meta").is_some() {
            continue;
        }
        idx += 1;
        rep.cases += 1;
        let ts = j_str(&c["ts"]);
        let odd = j_str(&c["odd"]);
        let mode = j_str(&c["mode"]);
        let bytes = j_bytes(&c["bytes"]);
        let exp = j_arr(&c["toks"]);
        let exp_end = j_str(&c["end"]);
        let total = j_usize(&c["total"]) as u64;

        // (1) token level, with position accounting
        let vreads: Vec<String> = match c.get("vreads") {
            Some(v) => j_arr(v).iter().map(|x| j_str(x).to_string()).collect(),
            None => vec!["Preserved".to_string()],
        };
        for vread in vreads.iter().map(|s| s.as_str()) {
            let mut run = run_reader(&bytes, ts, odd, mode, vread, false, exp.len() + 50);
            if selftest == "pos" && idx % 7 == 0 {
                if let Some(t) = run.toks.last_mut() {
                    t["pos"] = json!(t["pos"].as_u64().unwrap() + 1);
                }
            }
            n_tok_runs += 1;
            n_tokens += run.toks.len();
            if exp.len() > 2 {
                nontrivial += 1;
            }
            let diff = cmp_toks(exp, &run, exp_end, total, true, vread != "Interpreted");
            if let Some(d) = &diff {
                bad_ids.push(json!(idx));
                let at = d.get("at").and_then(|x| x.as_u64()).unwrap_or(exp.len() as u64) as usize;
                let after = last_header(exp, at);
                let key = format!("{mode} reader, {odd}, {vread}: {} after {}", j_str(&d["what"]), after_class(&after));
                cls.add(key, json!({"level":"tokens","ts":ts,"odd":odd,"mode":mode,"vread":vread,"diff":d,
                    "after":after,"case":c, "observed": run.toks, "end": run.end, "err": run.err}));
            }
            // trace for Trace_Reader (every k-th case, and every case that differs)
            if (idx % trace_every == 0 && vread == "Preserved") || diff.is_some() {
                n_traced += 1;
                tr.emit(&json!({"ev":"reset","ts":ts,"odd":odd,"mode":mode,"bytes":c["bytes"],"id":idx,"vread":vread}));
                for t in &run.toks {
                    tr.emit(&json!({"ev":"tok","t":t["t"],"tag":t["tag"],"vr":t["vr"],"len":t["len"],"pos":t["pos"],"cons":t["cons"]}));
                }
                tr.emit(&json!({"ev":"end","res":run.end,"cons":run.cons,"pos":run.pos}));
            }
        }

        // (2) end to end through OpenFileOptions::odd_length_strategy (once per stream: eager cases)
        if c["e2e"].as_bool().unwrap_or(false) && !meta.is_null() {
            n_e2e += 1;
            let with_preamble = idx % 2 == 0;
            let f = file_bytes(&meta, ts, if with_preamble { Some(&preamble) } else { None }, &bytes);
            let r = catch(|| OpenFileOptions::new().odd_length_strategy(odd_of(odd)).from_reader(Cursor::new(f)));
            match r {
                Err(p) => cls.add(format!("open file, {odd}: panic"), json!({"level":"file","ts":ts,"odd":odd,"diff":{"what":"panic","err":p},"case":c})),
                Ok(Err(e)) => {
                    if exp_end != "err" {
                        cls.add(format!("open file, {odd}: error on a readable stream"),
                            json!({"level":"file","ts":ts,"odd":odd,"diff":{"what":"outcome","expected_end":exp_end,"end":"err","err":format!("{e}")}, "case":c}));
                    }
                }
                Ok(Ok(o)) => {
                    if exp_end == "err" {
                        cls.add(format!("open file, {odd}: no error for an odd length"),
                            json!({"level":"file","ts":ts,"odd":odd,"diff":{"what":"outcome","expected_end":"err","end":"ok"},"case":c}));
                    } else {
                        let mut ob = obj_json(&o, ts == "EVRBE");
                        if selftest == "obj" && idx % 11 == 0 {
                            if let Some(a) = ob.as_array_mut() {
                                a.pop();
                            }
                        }
                        // C07 is about alignment: the content of the pixel data element is C06's business
                        if let Some(d) = cmp_obj_opt(&c["obj"], &ob, "", false, true) {
                            cls.add(format!("open file, {odd}: object differs"),
                                json!({"level":"file","ts":ts,"odd":odd,"diff":{"what":"object","detail":d},"case":c,"observed":ob}));
                        }
                    }
                }
            }
        }
    }
    let events = tr.finish();
    cls.into_report(&mut rep);
    rep.extra.insert("token_mismatch_ids".into(), Value::Array(bad_ids));
    rep.extra.insert("token_runs".into(), json!(n_tok_runs));
    rep.extra.insert("file_runs".into(), json!(n_e2e));
    rep.extra.insert("traced_cases".into(), json!(n_traced));
    rep.extra.insert("trace_events".into(), json!(events));
    rep.extra.insert("trace_path".into(), json!(trace_path));
    rep.extra.insert("tokens".into(), json!(n_tokens));
    rep.extra.insert("nontrivial".into(), json!(nontrivial));
    rep.print();
}


// ------------------------------------------------------------------ C06

fn diff_kind(detail: &str) -> &'static str {
    if detail.contains("fragments") {
        "fragments differ"
    } else if detail.contains("offset table") {
        "offset table differs"
    } else if detail.contains("missing") {
        "element missing"
    } else if detail.contains("extra") {
        "unexpected extra element"
    } else {
        "element differs"
    }
}

/// abstract class of the pixel data of a file: none / native / X[bot|frag,frag..] (+trailing element)
fn pix_class(ds: &Value) -> String {
    let mut out = "none".to_string();
    let els = j_arr(ds);
    for (i, n) in els.iter().enumerate() {
        let is_pix = if j_str(&n["k"]) == "X" {
            let fr: Vec<String> = j_arr(&n["frags"]).iter().map(|f| f["dl"].to_string()).collect();
            out = if fr.is_empty() { "X[]".into() } else { format!("X[{}|{}]", fr[0], fr[1..].join(",")) };
            true
        } else if n["tag"] == json!([32736, 16]) {
            out = "native".into();
            true
        } else {
            false
        };
        if is_pix && i + 1 < els.len() {
            out.push_str("+trailing");
        }
    }
    out
}

fn cmd_c06(args: &std::collections::HashMap<String, String>) {
    let cases = read_ndjson(args.get("cases").expect("--cases"));
    let out_dir = args.get("out").cloned().expect("--out");
    std::fs::create_dir_all(&out_dir).unwrap();
    let selftest = args.get("selftest").cloned().unwrap_or_default();
    let mut rep = Report::new();
    let mut cls = Classes::new();
    let mut meta = Value::Null;
    let mut preamble = Value::Null;
    let mut files: std::collections::BTreeMap<u64, &Value> = Default::default();
    for c in &cases {
        if c.get("meta").is_some() && c.get("file").is_none() {
            meta = c["meta"].clone();
            preamble = c["preamble"].clone();
        }
        if c.get("file").is_some() {
            files.insert(c["fid"].as_u64().unwrap(), c);
        }
    }
    let (mut n_files, mut n_whole, mut n_tok, mut n_stop, mut n_beh, mut n_calls, mut n_fragcalls) = (0usize, 0, 0, 0, 0, 0, 0);
    let drift_item_len = Cell::new(0usize);
    let trace_every: usize = args.get("trace-every").map(|s| s.parse().unwrap()).unwrap_or(1);
    let trace_path = format!("{out_dir}/trace_c06.ndjson");
    let mut tr = NdjsonWriter::create(&trace_path);
    let mut traced = 0usize;

    // ---- per file: whole-file reads, eager and lazy tokens, stop rules
    for (fid, f) in &files {
        n_files += 1;
        rep.cases += 1;
        let ts = j_str(&f["ts"]);
        let big = ts == "EVRBE";
        let pre = f["pre"].as_bool().unwrap();
        let ds_bytes = j_bytes(&f["bytes"]);
        let total = j_usize(&f["total"]) as u64;
        let pc = pix_class(&f["ds"]);
        let fb = file_bytes(&meta, ts, if pre { Some(&preamble) } else { None }, &ds_bytes);

        // whole file through from_reader and through open_file (path)
        let path = format!("{out_dir}/f{fid}.dcm");
        std::fs::write(&path, &fb).unwrap();
        for via in ["from_reader", "open_file"] {
            n_whole += 1;
            let r = catch(|| {
                if via == "from_reader" {
                    dicom_object::from_reader(Cursor::new(fb.clone()))
                } else {
                    dicom_object::open_file(&path)
                }
            });
            match r {
                Err(p) => cls.add(format!("{via}: panic [pixel data: {pc}]"), json!({"fid":fid,"err":p})),
                Ok(Err(e)) => cls.add(format!("{via}: error on a conforming file [pixel data: {pc}]"), json!({"fid":fid,"ts":ts,"err":format!("{e}"),"ds":f["ds"]})),
                Ok(Ok(o)) => {
                    let mut ob = obj_json(&o, big);
                    if selftest == "whole" && fid % 5 == 0 {
                        if let Some(a) = ob.as_array_mut() {
                            a.pop();
                        }
                    }
                    if let Some(d) = cmp_obj(&f["whole"], &ob, "") {
                        cls.add(format!("{via}: {} [pixel data: {pc}]", diff_kind(&d)),
                            json!({"fid":fid,"ts":ts,"detail":d,"ds":f["ds"],"observed":ob}));
                    }
                    let m = meta_json(o.meta());
                    if m != f["meta"] {
                        cls.add(format!("{via}: file meta group differs"), json!({"fid":fid,"ts":ts,"expected":f["meta"],"observed":m}));
                    }
                }
            }
        }
        // the collector opened by path: meta group, then the whole data set
        {
            let r = catch(|| -> Result<(Value, Value), String> {
                let mut col = dicom_object::DicomCollector::open_file(&path).map_err(|e| format!("{e}"))?;
                let m = meta_json(col.read_file_meta().map_err(|e| format!("{e}"))?);
                let mut o = InMemDicomObject::new_empty();
                col.read_dataset_to_end(&mut o).map_err(|e| format!("{e}"))?;
                Ok((m, obj_json(&o, big)))
            });
            n_whole += 1;
            match r {
                Err(p) => cls.add(format!("collector open_file: panic [pixel data: {pc}]"), json!({"fid":fid,"err":p})),
                Ok(Err(e)) => cls.add(format!("collector open_file: error on a conforming file [pixel data: {pc}]"), json!({"fid":fid,"ts":ts,"err":e})),
                Ok(Ok((m, ob))) => {
                    if m != f["meta"] {
                        cls.add("collector open_file: file meta group differs".to_string(), json!({"fid":fid,"ts":ts,"expected":f["meta"],"observed":m}));
                    }
                    if let Some(d) = cmp_obj_opt(&f["whole"], &ob, "", true, false) {
                        cls.add(format!("collector open_file + read_dataset_to_end: {} [pixel data: {pc}]", diff_kind(&d)),
                            json!({"fid":fid,"ts":ts,"detail":d,"ds":f["ds"],"observed":ob}));
                    }
                }
            }
        }
        std::fs::remove_file(&path).ok();

        // token readers on the data set
        for mode in ["eager", "lazy"] {
            n_tok += 1;
            let exp = j_arr(&f[mode]);
            let run = run_reader(&ds_bytes, ts, "Accept", mode, "Preserved", false, exp.len() + 50);
            let mut ok = true;
            if let Some(d) = cmp_toks(exp, &run, "eof", total, true, true) {
                ok = false;
                let at = d.get("at").and_then(|x| x.as_u64()).unwrap_or(exp.len() as u64) as usize;
                let after = last_header(exp, at);
                cls.add(format!("{mode} reader: {} after {} [pixel data: {pc}]", j_str(&d["what"]), after_class(&after)),
                    json!({"fid":fid,"ts":ts,"mode":mode,"diff":d,"ds":f["ds"],"observed":run.toks,"end":run.end,"err":run.err}));
            }
            if *fid as usize % trace_every == 0 || !ok {
                traced += 1;
                tr.emit(&json!({"ev":"reset","ts":ts,"odd":"Accept","mode":mode,"bytes":f["bytes"],"id":fid}));
                for t in &run.toks {
                    tr.emit(&json!({"ev":"tok","t":t["t"],"tag":t["tag"],"vr":t["vr"],"len":t["len"],"pos":t["pos"],"cons":t["cons"]}));
                }
                tr.emit(&json!({"ev":"end","res":run.end,"cons":run.cons,"pos":run.pos}));
            }
        }

        // stop rules
        for (rule, key) in [("read_until", "until"), ("read_to", "to")] {
            for st in j_arr(&f[key]) {
                n_stop += 1;
                let tag = Tag(j_usize(&st["tag"][0]) as u16, j_usize(&st["tag"][1]) as u16);
                let r = catch(|| {
                    let o = OpenFileOptions::new();
                    let o = if rule == "read_until" { o.read_until(tag) } else { o.read_to(tag) };
                    o.from_reader(Cursor::new(fb.clone()))
                });
                match r {
                    Err(p) => cls.add(format!("{rule}: panic"), json!({"fid":fid,"err":p})),
                    Ok(Err(e)) => cls.add(format!("{rule}: error on a conforming file [pixel data: {pc}]"), json!({"fid":fid,"ts":ts,"tag":st["tag"],"err":format!("{e}")})),
                    Ok(Ok(o)) => {
                        let ob = obj_json(&o, big);
                        if let Some(d) = cmp_obj(&st["res"], &ob, "") {
                            cls.add(format!("{rule}: {} [pixel data: {pc}]", diff_kind(&d)),
                                json!({"fid":fid,"ts":ts,"tag":st["tag"],"detail":d,"ds":f["ds"],"observed":ob}));
                        }
                    }
                }
            }
        }
    }

    // ---- collector behaviours
    for c in &cases {
        if c.get("beh").is_none() {
            continue;
        }
        rep.cases += 1;
        n_beh += 1;
        let fid = c["fid"].as_u64().unwrap();
        let f = files.get(&fid).expect("file record of behaviour");
        let ts = j_str(&f["ts"]);
        let big = ts == "EVRBE";
        let pre = f["pre"].as_bool().unwrap();
        let pc = pix_class(&f["ds"]);
        let fb = file_bytes(&meta, ts, if pre { Some(&preamble) } else { None }, &j_bytes(&f["bytes"]));
        let calls = j_arr(&c["calls"]);
        let mut bot_fetched = false;
        let mut frag_no = 0usize;
        let mut history: Vec<String> = Vec::new();
        let res = catch(|| {
            let mut col = dicom_object::DicomCollector::new(BufReader::new(Cursor::new(fb.clone())));
            let mut out: Option<(String, Value)> = None;
            for (ci, call) in calls.iter().enumerate() {
                n_calls += 1;
                let kind = j_str(&call["call"]);
                let ctxs = format!("[pixel data: {pc}; offset table fetched separately: {bot_fetched}]");
                let mut fail = |what: String, detail: Value| {
                    out = Some((what, json!({"fid":fid,"ts":ts,"call_index":ci,"call":call,"detail":detail,"calls_before":history.clone(),"ds":f["ds"]})));
                };
                match kind {
                    "pre" => match col.read_preamble() {
                        Ok(p) => {
                            let some = p.is_some();
                            let b = p.map(|a| bytes_json(&a)).unwrap_or(json!([]));
                            if call["some"] != json!(some) || call["bytes"] != b {
                                fail("collector read_preamble: result differs".into(), json!({"some":some}));
                            }
                        }
                        Err(e) => fail("collector read_preamble: error".into(), json!(format!("{e}"))),
                    },
                    "meta" => match col.read_file_meta() {
                        Ok(m) => {
                            let m = meta_json(m);
                            if m != call["res"] {
                                fail("collector read_file_meta: table differs".into(), m);
                            }
                        }
                        Err(e) => fail("collector read_file_meta: error".into(), json!(format!("{e}"))),
                    },
                    "upto" | "toend" => {
                        let mut o = InMemDicomObject::new_empty();
                        let r = if kind == "upto" {
                            let t = Tag(j_usize(&call["tag"][0]) as u16, j_usize(&call["tag"][1]) as u16);
                            col.read_dataset_up_to(t, &mut o)
                        } else {
                            col.read_dataset_to_end(&mut o)
                        };
                        let name = if kind == "upto" { "read_dataset_up_to" } else { "read_dataset_to_end" };
                        match r {
                            Ok(()) => {
                                let mut ob = obj_json(&o, big);
                                if selftest == "portion" && fid % 3 == 0 && kind == "toend" {
                                    if let Some(a) = ob.as_array_mut() {
                                        a.pop();
                                    }
                                }
                                // the recorded length of an item is not part of the equality of
                                // objects; a difference there is reported as drift only
                                if let Some(d) = cmp_obj_opt(&call["res"], &ob, "", true, false) {
                                    fail(format!("collector {name}: {} [pixel data: {pc}]", diff_kind(&d)), json!({"detail":d,"observed":ob}));
                                } else if cmp_obj(&call["res"], &ob, "").is_some() {
                                    drift_item_len.set(drift_item_len.get() + 1);
                                }
                            }
                            Err(e) => fail(format!("collector {name}: error [pixel data: {pc}]"), json!(format!("{e}"))),
                        }
                    }
                    "bot" => {
                        let mut v = Vec::<u32>::new();
                        match col.read_basic_offset_table(&mut v) {
                            Ok(r) => {
                                let some = r.is_some();
                                let ok = call["some"] == json!(some)
                                    && (!some || (call["len"] == json!(r.unwrap()) && call["ot"] == json!(v)));
                                if !ok {
                                    fail(format!("collector read_basic_offset_table: result differs [pixel data: {pc}]"), json!({"ret":r,"ot":v}));
                                }
                                bot_fetched = true;
                            }
                            Err(e) => fail(format!("collector read_basic_offset_table: error [pixel data: {pc}]"), json!(format!("{e}"))),
                        }
                    }
                    "frag" => {
                        n_fragcalls += 1;
                        frag_no += 1;
                        let mut b = Vec::<u8>::new();
                        match col.read_next_fragment(&mut b) {
                            Ok(r) => {
                                let some = r.is_some();
                                let mut bj = bytes_json(&b);
                                if selftest == "frag" && some && fid % 4 == 0 {
                                    bj = json!([9, 9]);
                                }
                                let ok = call["some"] == json!(some) && (!some || (call["len"] == json!(r.unwrap()) && call["bytes"] == bj));
                                if !ok {
                                    let what = if call["some"] == json!(true) && !some {
                                        "ends early"
                                    } else if call["some"] == json!(false) && some {
                                        "returns data after the last fragment"
                                    } else {
                                        "fragment differs"
                                    };
                                    fail(format!("collector read_next_fragment #{frag_no}: {what} {ctxs}"), json!({"ret":r,"bytes":bj}));
                                }
                            }
                            Err(e) => fail(format!("collector read_next_fragment #{frag_no}: error {ctxs}"), json!(format!("{e}"))),
                        }
                    }
                    other => panic!("unknown call {other}"),
                }
                if out.is_some() {
                    break;
                }
                history.push(kind.to_string());
            }
            out
        });
        match res {
            Err(p) => cls.add(format!("collector: panic [pixel data: {pc}]"), json!({"fid":fid,"err":p,"calls":c["calls"]})),
            Ok(Some((k, ex))) => cls.add(k, ex),
            Ok(None) => {}
        }
    }
    let events = tr.finish();
    cls.into_report(&mut rep);
    for (k, v) in [("files", n_files), ("whole_reads", n_whole), ("token_runs", n_tok), ("stop_rule_reads", n_stop),
                   ("behaviours", n_beh), ("collector_calls", n_calls), ("fragment_calls", n_fragcalls),
                   ("traced_cases", traced), ("trace_events", events)] {
        rep.extra.insert(k.into(), json!(v));
    }
    rep.extra.insert("drift_item_len".into(), json!(drift_item_len.get()));
    rep.extra.insert("trace_path".into(), json!(trace_path));
    rep.print();
}

// ------------------------------------------------------------------ C08

/// expand a run-length byte string [[count, byte], ...]
fn unrle(v: &Value) -> Vec<u8> {
    let mut out = Vec::new();
    for p in j_arr(v) {
        let (n, b) = (j_usize(&p[0]), j_usize(&p[1]) as u8);
        out.extend(std::iter::repeat(b).take(n));
    }
    out
}

fn emit_trace(tr: &mut NdjsonWriter, ts: &str, bytes: &[u8], id: usize, run: &TokRun) {
    tr.emit(&json!({"ev":"reset","ts":ts,"odd":"Accept","mode":"eager","bytes":bytes_json(bytes),"id":id}));
    for t in &run.toks {
        tr.emit(&json!({"ev":"tok","t":t["t"],"tag":t["tag"],"vr":t["vr"],"len":t["len"],"pos":t["pos"],"cons":t["cons"]}));
    }
    tr.emit(&json!({"ev":"end","res":run.end,"cons":run.cons,"pos":run.pos}));
}

fn cmd_c08(args: &std::collections::HashMap<String, String>) {
    let cases = read_ndjson(args.get("cases").expect("--cases"));
    let selftest = args.get("selftest").cloned().unwrap_or_default();
    let out_dir = args.get("out").cloned().expect("--out");
    std::fs::create_dir_all(&out_dir).unwrap();
    let trace_path = format!("{out_dir}/trace_c08.ndjson");
    let mut tr = NdjsonWriter::create(&trace_path);
    let mut traced = 0usize;
    let mut rep = Report::new();
    let mut cls = Classes::new();
    let (mut n_runs, mut n_unamb, mut n_amb, mut amb_misread, mut nontrivial) = (0usize, 0usize, 0usize, 0usize, 0usize);
    let mut locks: std::collections::BTreeMap<String, usize> = Default::default();
    for (ci, c) in cases.iter().enumerate() {
        if c.get("enc").is_none() {
            continue;
        }
        rep.cases += 1;
        let enc = j_str(&c["enc"]);
        let amb = c["amb"].as_bool().unwrap();
        let bytes = unrle(&c["rlebytes"]);
        let total = j_usize(&c["total"]) as u64;
        assert_eq!(bytes.len() as u64, total);
        let exp: Vec<Value> = j_arr(&c["toks"])
            .iter()
            .map(|t| {
                let mut t = t.clone();
                if t["rle"].as_bool().unwrap_or(false) {
                    t["val"] = bytes_json(&unrle(&t["val"]));
                }
                t
            })
            .collect();
        let later = if c["fam"] == json!("later") { "; later elements' lengths spell VR codes" } else { "" };
        let ctxs = format!("[first element: dictionary entry {}, length {}, after a stray item delimiter: {}{later}]",
            j_str(&c["entry"]), j_str(&c["lenclass"]), c["stray"]);
        // the regular decoder of the real encoding must report the prescribed tokens (sanity of the expectation)
        let reg = run_reader(&bytes, enc, "Accept", "eager", "Preserved", false, exp.len() + 50);
        n_runs += 1;
        if let Some(d) = cmp_toks(&exp, &reg, "eof", total, true, true) {
            cls.add(format!("regular {enc} decoder: {} {ctxs}", j_str(&d["what"])), json!({"case":ci,"first":c["first"],"diff":d,"end":reg.end,"err":reg.err}));
            continue;
        }
        // token logs of short unambiguous cases go to Trace_Reader: the regular reader under
        // its transfer syntax, the flexible reader under the adaptive lock ("ADAPT")
        let traceable = !amb && total < 600;
        if traceable {
            traced += 1;
            emit_trace(&mut tr, enc, &bytes, ci, &reg);
        }
        if amb {
            n_amb += 1;
        } else {
            n_unamb += 1;
            nontrivial += 1;
            *locks.entry(format!("{enc} {}", j_str(&c["lenclass"]))).or_insert(0) += 1;
            if c["fam"] == json!("later") {
                *locks.entry(format!("{enc} later elements spell VRs")).or_insert(0) += 1;
            }
        }
        // flexible decoding, whatever transfer syntax is declared
        for declared in ["EVRLE", "IVRLE"] {
            let mut run = run_reader(&bytes, declared, "Accept", "eager", "Preserved", true, exp.len() + 50);
            n_runs += 1;
            for t in run.toks.iter_mut() {
                let c = t["cons"].clone();
                t["pos"] = c;
            }
            if selftest == "tok" && ci % 9 == 0 {
                if let Some(t) = run.toks.get_mut(0) {
                    t["len"] = json!(12345);
                }
            }
            let diff = cmp_toks(&exp, &run, "eof", total, true, true);
            if traceable && (declared == "EVRLE" || diff.is_some()) {
                traced += 1;
                run.pos = run.cons;
                emit_trace(&mut tr, "ADAPT", &bytes, ci, &run);
            }
            if amb {
                if diff.is_some() {
                    amb_misread += 1;
                }
                continue;
            }
            if let Some(d) = diff {
                cls.add(format!("flexible decoding (declared {declared}) of {enc} data differs from the {enc} decoder: {} {ctxs}", j_str(&d["what"])),
                    json!({"case":ci,"enc":enc,"declared":declared,"first":c["first"],"diff":d,"end":run.end,"err":run.err,
                           "observed_head": run.toks.iter().take(4).map(|t| { let mut t = t.clone(); t.as_object_mut().unwrap().remove("val"); t }).collect::<Vec<_>>()}));
            }
        }
    }
    cls.into_report(&mut rep);
    rep.extra.insert("reader_runs".into(), json!(n_runs));
    rep.extra.insert("unambiguous_cases".into(), json!(n_unamb));
    rep.extra.insert("ambiguous_cases".into(), json!(n_amb));
    rep.extra.insert("ambiguous_runs_misread".into(), json!(amb_misread));
    rep.extra.insert("nontrivial".into(), json!(nontrivial));
    rep.extra.insert("unambiguous_by_class".into(), json!(locks));
    let events = tr.finish();
    rep.extra.insert("traced_cases".into(), json!(traced));
    rep.extra.insert("trace_events".into(), json!(events));
    rep.extra.insert("trace_path".into(), json!(trace_path));
    rep.print();
}

// ------------------------------------------------------------------ growth: collector protocol

/// Replay every call sequence of the protocol model (legal and illegal calls) on the real
/// DicomCollector.  Deviations are observations (classes), panics are listed separately.
fn cmd_proto(args: &std::collections::HashMap<String, String>) {
    let cases = read_ndjson(args.get("cases").expect("--cases"));
    let mut rep = Report::new();
    let mut cls = Classes::new();
    let mut panics: Vec<Value> = Vec::new();
    let mut meta = Value::Null;
    let mut preamble = Value::Null;
    let mut files: std::collections::BTreeMap<u64, &Value> = Default::default();
    for c in &cases {
        if c.get("meta").is_some() && c.get("pfile").is_none() {
            meta = c["meta"].clone();
            preamble = c["preamble"].clone();
        }
        if c.get("pfile").is_some() {
            files.insert(c["fid"].as_u64().unwrap(), c);
        }
    }
    let (mut n_beh, mut n_calls, mut n_illegal, mut n_illegal_ok) = (0usize, 0usize, 0usize, 0usize);
    for c in &cases {
        if c.get("proto").is_none() {
            continue;
        }
        rep.cases += 1;
        n_beh += 1;
        let fid = c["fid"].as_u64().unwrap();
        let f = files.get(&fid).expect("file record");
        let ts = j_str(&f["ts"]);
        let big = ts == "EVRBE";
        let pre = f["pre"].as_bool().unwrap();
        let fb = file_bytes(&meta, ts, if pre { Some(&preamble) } else { None }, &j_bytes(&f["bytes"]));
        let calls = j_arr(&c["calls"]);
        let mut col = Some(dicom_object::DicomCollector::new(BufReader::new(Cursor::new(fb))));
        let mut before: Vec<String> = Vec::new();
        for call in calls {
            n_calls += 1;
            let kind = j_str(&call["call"]);
            let exp_ok = call["ok"].as_bool().unwrap();
            if !exp_ok {
                n_illegal += 1;
            }
            let st = j_str(&call["st"]);
            let mut c2 = col.take().unwrap();
            let r = catch(move || {
                // Ok(projection of the result) | Err(message)
                let out: Result<Value, String> = match kind {
                    "pre" => c2.read_preamble().map(|p| json!({"some": p.is_some()})).map_err(|e| format!("{e}")),
                    "meta" => c2.read_file_meta().map(|m| json!({"res": meta_json(m)})).map_err(|e| format!("{e}")),
                    "take" => Ok(json!({"some": c2.take_file_meta().is_some()})),
                    "upto" | "toend" => {
                        let mut o = InMemDicomObject::new_empty();
                        let r = if kind == "upto" {
                            let t = call.get("tag").map(|t| Tag(j_usize(&t[0]) as u16, j_usize(&t[1]) as u16)).unwrap_or(Tag(0x7FE0, 0x0010));
                            c2.read_dataset_up_to(t, &mut o)
                        } else {
                            c2.read_dataset_to_end(&mut o)
                        };
                        r.map(|_| json!({"res": o.iter().map(|e| tag_json(e.header().tag)).collect::<Vec<_>>()})).map_err(|e| format!("{e}"))
                    }
                    "bot" => {
                        let mut v = Vec::<u32>::new();
                        c2.read_basic_offset_table(&mut v)
                            .map(|r| json!({"some": r.is_some(), "len": r.unwrap_or(0), "ot": v}))
                            .map_err(|e| format!("{e}"))
                    }
                    "frag" => {
                        let mut b = Vec::<u8>::new();
                        c2.read_next_fragment(&mut b)
                            .map(|r| json!({"some": r.is_some(), "len": r.unwrap_or(0), "bytes": bytes_json(&b)}))
                            .map_err(|e| format!("{e}"))
                    }
                    other => panic!("unknown call {other}"),
                };
                (c2, out)
            });
            let _ = big;
            let example = |obs: &str, detail: Value| json!({"fid":fid,"ts":ts,"pixel_tags":f["tags"],"calls_before":before.clone(),"call":kind,"state":st,"observed":obs,"detail":detail});
            match r {
                Err(p) => {
                    panics.push(example("panic", json!(p)));
                    cls.add(format!("{kind} in state {st}: PANIC"), example("panic", json!("see panics")));
                    break;
                }
                Ok((cback, out)) => {
                    col = Some(cback);
                    match (exp_ok, out) {
                        (false, Err(_)) => {}
                        (false, Ok(v)) => {
                            n_illegal_ok += 1;
                            cls.add(format!("{kind} in state {st}: the model expects an error, the collector returns Ok"), example("ok", v));
                            break;
                        }
                        (true, Err(e)) => {
                            cls.add(format!("{kind} in state {st}: legal call returns an error"), example("error", json!(e)));
                            break;
                        }
                        (true, Ok(v)) => {
                            let same = match kind {
                                "pre" | "take" => v["some"] == call["some"],
                                "meta" => v["res"] == call["res"],
                                "upto" | "toend" => v["res"] == call["res"],
                                "bot" => v["some"] == call["some"] && (call["some"] == json!(false) || (v["len"] == call["len"] && v["ot"] == call["ot"])),
                                "frag" => v["some"] == call["some"] && (call["some"] == json!(false) || (v["len"] == call["len"] && v["bytes"] == call["bytes"])),
                                _ => true,
                            };
                            if !same {
                                cls.add(format!("{kind} in state {st}: result differs from the model"), example("different result", json!({"observed": v, "expected": call})));
                                break;
                            }
                        }
                    }
                }
            }
            before.push(format!("{kind}{}", if exp_ok { "" } else { "!" }));
        }
    }
    cls.into_report(&mut rep);
    rep.extra.insert("behaviours".into(), json!(n_beh));
    rep.extra.insert("calls".into(), json!(n_calls));
    rep.extra.insert("illegal_calls".into(), json!(n_illegal));
    rep.extra.insert("illegal_calls_answered_ok".into(), json!(n_illegal_ok));
    rep.extra.insert("panics".into(), Value::Array(panics));
    rep.print();
}

// ------------------------------------------------------------------ growth: options

fn rp_of(s: &str) -> ReadPreamble {
    match s {
        "Auto" => ReadPreamble::Auto,
        "Never" => ReadPreamble::Never,
        "Always" => ReadPreamble::Always,
        o => panic!("unknown read_preamble {o}"),
    }
}

/// expected pixel data items of the root object (from ObjectBuild!Obj): (offset table, fragments) or None
fn root_pixel(whole: &Value) -> Option<&Value> {
    j_arr(whole).iter().find(|e| e["tag"] == json!([32736, 16]))
}

/// B) DicomCollectorOptions variants and C) DataSetReaderOptions combinations on the C06 files.
/// Every deviation is an observation (class), never a verdict.
fn cmd_opts(args: &std::collections::HashMap<String, String>) {
    use dicom_parser::stateful::decode::CharacterSetOverride;
    let cases = read_ndjson(args.get("cases").expect("--cases"));
    let mut rep = Report::new();
    let mut cls = Classes::new();
    let mut panics: Vec<Value> = Vec::new();
    let mut meta = Value::Null;
    let mut preamble = Value::Null;
    for c in &cases {
        if c.get("meta").is_some() && c.get("file").is_none() {
            meta = c["meta"].clone();
            preamble = c["preamble"].clone();
        }
    }
    let (mut n_col, mut n_bare, mut n_tok) = (0usize, 0usize, 0usize);
    for f in &cases {
        if f.get("file").is_none() {
            continue;
        }
        rep.cases += 1;
        let fid = f["fid"].as_u64().unwrap();
        let ts = j_str(&f["ts"]);
        let big = ts == "EVRBE";
        let pre = f["pre"].as_bool().unwrap();
        let ds_bytes = j_bytes(&f["bytes"]);
        let total = j_usize(&f["total"]) as u64;
        let pc = pix_class(&f["ds"]);
        let fb = file_bytes(&meta, ts, if pre { Some(&preamble) } else { None }, &ds_bytes);
        let px = root_pixel(&f["whole"]);

        // ---- B: collector options
        for odd in ["Accept", "NextEven", "Fail"] {
            for cso in ["None", "AnyVr"] {
                for rp in ["Auto", "Never", "Always"] {
                    n_col += 1;
                    let mismatch_pre = (rp == "Never" && pre) || (rp == "Always" && !pre);
                    let label = format!("collector options read_preamble={rp} (file {} preamble), odd_length={odd}, charset_override={cso}",
                        if pre { "with" } else { "without" });
                    let mk = || {
                        DicomCollectorOptions::new()
                            .odd_length_strategy(odd_of(odd))
                            .charset_override(if cso == "AnyVr" { CharacterSetOverride::AnyVr } else { CharacterSetOverride::None })
                            .read_preamble(rp_of(rp))
                            .from_reader(BufReader::new(Cursor::new(fb.clone())))
                    };
                    let r = catch(|| -> Result<Option<String>, String> {
                        // (1) meta + whole data set
                        let mut col = mk();
                        let m = match col.read_file_meta() {
                            Ok(m) => meta_json(m),
                            Err(e) => {
                                return if mismatch_pre { Ok(None) } else { Err(format!("read_file_meta: {e}")) };
                            }
                        };
                        if mismatch_pre {
                            return Ok(Some("read_file_meta succeeds although the preamble option contradicts the file".into()));
                        }
                        if m != f["meta"] {
                            return Ok(Some("file meta group differs".into()));
                        }
                        let mut o = InMemDicomObject::new_empty();
                        col.read_dataset_to_end(&mut o).map_err(|e| format!("read_dataset_to_end: {e}"))?;
                        if let Some(d) = cmp_obj_opt(&f["whole"], &obj_json(&o, big), "", true, false) {
                            return Ok(Some(format!("whole data set: {}", diff_kind(&d))));
                        }
                        // (2) offset table + fragments
                        let mut col = mk();
                        let mut ot = Vec::<u32>::new();
                        let r = col.read_basic_offset_table(&mut ot).map_err(|e| format!("read_basic_offset_table: {e}"))?;
                        let mut frags: Vec<Value> = Vec::new();
                        loop {
                            let mut b = Vec::new();
                            match col.read_next_fragment(&mut b).map_err(|e| format!("read_next_fragment: {e}"))? {
                                Some(_) => frags.push(bytes_json(&b)),
                                None => break,
                            }
                            if frags.len() > 20 {
                                return Ok(Some("fragments do not end".into()));
                            }
                        }
                        match px {
                            Some(e) if j_str(&e["k"]) == "X" && e["nitems"].as_u64().unwrap() > 0 => {
                                if r.is_none() || json!(ot) != e["ot"] || Value::Array(frags) != e["frags"] {
                                    return Ok(Some("offset table / fragments differ".into()));
                                }
                            }
                            Some(e) if j_str(&e["k"]) == "P" => {
                                if r.is_some() || frags != vec![e["val"].clone()] {
                                    return Ok(Some("native pixel data as single fragment differs".into()));
                                }
                            }
                            _ => {
                                if r.is_some() || !frags.is_empty() {
                                    return Ok(Some("fragments reported without pixel data".into()));
                                }
                            }
                        }
                        Ok(None)
                    });
                    match r {
                        Err(p) => {
                            panics.push(json!({"where":label,"fid":fid,"ts":ts,"err":p,"file_bytes":bytes_json(&fb)}));
                            cls.add(format!("{label}: PANIC"), json!({"fid":fid}));
                        }
                        Ok(Err(e)) => cls.add(format!("{label}: error {} [pixel data: {pc}]", e.split(':').next().unwrap_or("")), json!({"fid":fid,"ts":ts,"err":e})),
                        Ok(Ok(Some(w))) => cls.add(format!("{label}: {w} [pixel data: {pc}]"), json!({"fid":fid,"ts":ts})),
                        Ok(Ok(None)) => {}
                    }
                }
            }
        }
        // bare data set with expected_ts (no meta group in the source)
        for plan in ["toend", "upto_pixel+bot+frags", "frags_only"] {
            n_bare += 1;
            let label = format!("collector on a bare data set (expected_ts, read_preamble=Never), {plan}");
            let r = catch(|| -> Result<Option<String>, String> {
                let mut col = DicomCollectorOptions::new()
                    .expected_ts(ts_uid(ts))
                    .read_preamble(ReadPreamble::Never)
                    .from_reader(BufReader::new(Cursor::new(ds_bytes.clone())));
                if plan == "toend" {
                    let mut o = InMemDicomObject::new_empty();
                    col.read_dataset_to_end(&mut o).map_err(|e| format!("read_dataset_to_end: {e}"))?;
                    if let Some(d) = cmp_obj_opt(&f["whole"], &obj_json(&o, big), "", true, false) {
                        return Ok(Some(format!("whole data set: {}", diff_kind(&d))));
                    }
                    return Ok(None);
                }
                let mut ot = Vec::<u32>::new();
                let mut got_bot = false;
                if plan == "upto_pixel+bot+frags" {
                    let mut o = InMemDicomObject::new_empty();
                    col.read_dataset_up_to_pixeldata(&mut o).map_err(|e| format!("read_dataset_up_to_pixeldata: {e}"))?;
                    got_bot = col.read_basic_offset_table(&mut ot).map_err(|e| format!("read_basic_offset_table: {e}"))?.is_some();
                }
                let mut frags: Vec<Value> = Vec::new();
                loop {
                    let mut b = Vec::new();
                    match col.read_next_fragment(&mut b).map_err(|e| format!("read_next_fragment: {e}"))? {
                        Some(_) => frags.push(bytes_json(&b)),
                        None => break,
                    }
                    if frags.len() > 20 {
                        return Ok(Some("fragments do not end".into()));
                    }
                }
                let expected: Vec<Value> = match px {
                    Some(e) if j_str(&e["k"]) == "X" => {
                        let mut v: Vec<Value> = if got_bot || e["nitems"].as_u64().unwrap() == 0 { vec![] } else { vec![e["otraw"].clone()] };
                        v.extend(j_arr(&e["frags"]).iter().cloned());
                        v
                    }
                    Some(e) => vec![e["val"].clone()],
                    None => vec![],
                };
                if frags != expected {
                    return Ok(Some("fragments differ".into()));
                }
                Ok(None)
            });
            match r {
                Err(p) => {
                    panics.push(json!({"where":label,"fid":fid,"ts":ts,"err":p,"stream":bytes_json(&ds_bytes)}));
                    cls.add(format!("{label}: PANIC"), json!({"fid":fid}));
                }
                Ok(Err(e)) => cls.add(format!("{label}: error {} [pixel data: {pc}]", e.split(':').next().unwrap_or("")), json!({"fid":fid,"ts":ts,"err":e})),
                Ok(Ok(Some(w))) => cls.add(format!("{label}: {w} [pixel data: {pc}]"), json!({"fid":fid,"ts":ts})),
                Ok(Ok(None)) => {}
            }
        }

        // ---- C: reader option combinations on the (conforming) data set: tokens must not change
        for vread in ["Preserved", "Interpreted", "Raw"] {
            for odd in ["Accept", "NextEven", "Fail"] {
                for (mode, flexible) in [("eager", false), ("lazy", false), ("eager", true)] {
                    if flexible && big {
                        continue;
                    }
                    n_tok += 1;
                    let exp = j_arr(&f[mode]);
                    let mut run = run_reader(&ds_bytes, ts, odd, mode, vread, flexible, exp.len() + 50);
                    if flexible {
                        for t in run.toks.iter_mut() {
                            let c = t["cons"].clone();
                            t["pos"] = c;
                        }
                    }
                    if run.end == "panic" {
                        panics.push(json!({"where":"token reader","fid":fid,"ts":ts,"mode":mode,"flexible":flexible,"vread":vread,"odd":odd,"err":run.err,"stream":bytes_json(&ds_bytes)}));
                    }
                    if let Some(d) = cmp_toks(exp, &run, "eof", total, true, vread != "Interpreted") {
                        cls.add(format!("{mode} reader value_read={vread} odd_length={odd} flexible={flexible}: {} [pixel data: {pc}]", j_str(&d["what"])),
                            json!({"fid":fid,"ts":ts,"diff":d,"end":run.end,"err":run.err}));
                    }
                }
            }
        }
    }
    cls.into_report(&mut rep);
    rep.extra.insert("collector_option_runs".into(), json!(n_col));
    rep.extra.insert("bare_dataset_runs".into(), json!(n_bare));
    rep.extra.insert("reader_option_runs".into(), json!(n_tok));
    rep.extra.insert("panics".into(), Value::Array(panics));
    rep.print();
}

/// C07 streams (odd lengths, mixed nesting) through the collector's odd-length option and through
/// flexible decoding.  Observations only.
fn cmd_c07x(args: &std::collections::HashMap<String, String>) {
    let cases = read_ndjson(args.get("cases").expect("--cases"));
    let mut rep = Report::new();
    let mut cls = Classes::new();
    let mut panics: Vec<Value> = Vec::new();
    let (mut n_col, mut n_flex) = (0usize, 0usize);
    for c in &cases {
        if c.get("bytes").is_none() {
            continue;
        }
        rep.cases += 1;
        let ts = j_str(&c["ts"]);
        let odd = j_str(&c["odd"]);
        let mode = j_str(&c["mode"]);
        let bytes = j_bytes(&c["bytes"]);
        let exp = j_arr(&c["toks"]);
        let exp_end = j_str(&c["end"]);
        let total = j_usize(&c["total"]) as u64;
        let big = ts == "EVRBE";
        if c["e2e"].as_bool().unwrap_or(false) {
            n_col += 1;
            let r = catch(|| {
                let mut col = DicomCollectorOptions::new()
                    .expected_ts(ts_uid(ts))
                    .read_preamble(ReadPreamble::Never)
                    .odd_length_strategy(odd_of(odd))
                    .from_reader(BufReader::new(Cursor::new(bytes.clone())));
                let mut o = InMemDicomObject::new_empty();
                col.read_dataset_to_end(&mut o).map(|_| obj_json(&o, big)).map_err(|e| format!("{e}"))
            });
            match r {
                Err(p) => {
                    panics.push(json!({"where":"collector odd_length on a bare data set","ts":ts,"odd":odd,"err":p,"stream":c["bytes"]}));
                }
                Ok(Err(e)) => {
                    if exp_end != "err" {
                        cls.add(format!("collector odd_length={odd} on a bare data set: error on a readable stream"), json!({"ts":ts,"err":e,"ds":c["ds"]}));
                    }
                }
                Ok(Ok(ob)) => {
                    if exp_end == "err" {
                        cls.add(format!("collector odd_length={odd} on a bare data set: no error for an odd length"), json!({"ts":ts,"ds":c["ds"]}));
                    } else if let Some(d) = cmp_obj_opt(&c["obj"], &ob, "", false, false) {
                        cls.add(format!("collector odd_length={odd} on a bare data set: object differs"), json!({"ts":ts,"detail":d,"ds":c["ds"]}));
                    }
                }
            }
        }
        if mode == "eager" && !big {
            n_flex += 1;
            let mut run = run_reader(&bytes, ts, odd, "eager", "Preserved", true, exp.len() + 50);
            for t in run.toks.iter_mut() {
                let cc = t["cons"].clone();
                t["pos"] = cc;
            }
            if run.end == "panic" {
                panics.push(json!({"where":"flexible decoding","ts":ts,"odd":odd,"err":run.err,"stream":c["bytes"]}));
            }
            if let Some(d) = cmp_toks(exp, &run, exp_end, total, true, true) {
                let at = d.get("at").and_then(|x| x.as_u64()).unwrap_or(exp.len() as u64) as usize;
                cls.add(format!("flexible decoding, odd_length={odd}: {} after {}", j_str(&d["what"]), after_class(&last_header(exp, at))),
                    json!({"ts":ts,"diff":d,"end":run.end,"err":run.err,"ds":c["ds"]}));
            }
        }
    }
    cls.into_report(&mut rep);
    rep.extra.insert("collector_runs".into(), json!(n_col));
    rep.extra.insert("flexible_runs".into(), json!(n_flex));
    rep.extra.insert("panics".into(), Value::Array(panics));
    rep.print();
}

// ------------------------------------------------------------------ dictionary facts

fn cmd_dict(args: &std::collections::HashMap<String, String>) {
    let cases = read_ndjson(args.get("cases").expect("--cases"));
    let mut rep = Report::new();
    let mut facts = Vec::new();
    for c in &cases {
        let Some(tags) = c.get("dictfacts") else { continue };
        for f in j_arr(tags) {
            let t = &f[0];
            let tag = Tag(j_usize(&t[0]) as u16, j_usize(&t[1]) as u16);
            let e = StandardDataDictionary.by_tag(tag);
            let v = match e.map(|e| e.vr()) {
                None => "none".to_string(),
                Some(VirtualVr::Exact(vr)) => vr.to_string().to_string(),
                Some(VirtualVr::Xs) => "Xs".into(),
                Some(VirtualVr::Ox) => "Ox".into(),
                Some(VirtualVr::Px) => "Px".into(),
                Some(VirtualVr::Lt) => "Lt".into(),
                Some(other) => format!("{other:?}"),
            };
            rep.cases += 1;
            facts.push(json!({"tag":[tag.0, tag.1],"entry":v,"spec":f[1]}));
        }
    }
    // the VR an implicit VR decoder assigns (dictionary entry relaxed; Pixel Data is OW)
    for c in &cases {
        let Some(tags) = c.get("implicitvr") else { continue };
        for f in j_arr(tags) {
            let t = &f[0];
            let tag = Tag(j_usize(&t[0]) as u16, j_usize(&t[1]) as u16);
            let v = if tag == Tag(0x7FE0, 0x0010) {
                "OW".to_string()
            } else {
                StandardDataDictionary.by_tag(tag).map(|e| e.vr().relaxed().to_string().to_string()).unwrap_or("UN".into())
            };
            rep.cases += 1;
            facts.push(json!({"tag":[tag.0, tag.1],"entry":v,"spec":f[1],"kind":"implicit"}));
        }
    }
    rep.extra.insert("facts".into(), Value::Array(facts));
    rep.print();
}

fn main() {
    quiet_panics();
    let args = args_map();
    let mode = args.get("_0").cloned().unwrap_or_default();
    match mode.as_str() {
        "dict" => cmd_dict(&args),
        "c07" => cmd_c07(&args),
        "c06" => cmd_c06(&args),
        "c08" => cmd_c08(&args),
        "proto" => cmd_proto(&args),
        "opts" => cmd_opts(&args),
        "c07x" => cmd_c07x(&args),
        other => {
            eprintln!("unknown mode {other}");
            std::process::exit(2);
        }
    }
}

// keep otherwise unused imports referenced until the other commands arrive
#[allow(dead_code)]
fn _unused(_: Option<(BufReader<Cursor<Vec<u8>>>, DicomCollectorOptions, ReadPreamble, VR, Box<dyn Read>, Box<dyn Header>)>) {}
#[allow(dead_code)]
fn _unused2(_: Option<LazyDataToken<u8>>) {}
