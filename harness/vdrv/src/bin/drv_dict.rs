//! C15 driver: query the real standard dictionaries and record the answers.
//!
//!   drv_dict record --table <tags.ndjson> --sop <sop.ndjson> --out <dir> --random <N>
//!                   [--all-groups] [--chunk <events per file>]
//!
//! The table files (generated entry tables of dicom-dictionary-std, extracted
//! from the generated sources by lib/checks/_dict.py) are used here ONLY to choose
//! the stratified set of tags / keywords / UIDs to ask for.  The answers are judged
//! by specs/dict/Judge_Dict.tla (Dict!Lookup over the table).
//!
//! Events:
//!  {ev:"tag", g, e, found, kind, bg, be, alias, vr}   StandardDataDictionary.by_tag(Tag(g,e))
//!  {ev:"name", q, row, found, kind, bg, be, alias, vr}    StandardDataDictionary.by_name(q), q = keyword of table row `row`
//!  {ev:"const", cname, kind, g, e}                    a compiled constant of dicom_dictionary_std::tags
//!  {ev:"uid", q, found, uid, alias, name, retired, type}    StandardSopClassDictionary.by_uid(q)
//!  {ev:"kw", q, found, uid, alias, name, retired, type}     StandardSopClassDictionary.by_keyword(q)
//!  kind: "single" | "group100" | "element100" | "group_length" | "private_creator" | "" (not found)

use dicom_core::dictionary::{DataDictionary, DataDictionaryEntryRef, TagRange, UidDictionary, VirtualVr};
use dicom_core::Tag;
use dicom_dictionary_std::{tags, StandardDataDictionary, StandardSopClassDictionary};
use serde_json::{json, Value};
use std::collections::HashSet;
use vcommon::*;

fn vr_str(v: VirtualVr) -> String {
    match v {
        VirtualVr::Exact(vr) => vr.to_string().to_string(),
        VirtualVr::Xs => "xs".into(),
        VirtualVr::Ox => "ox".into(),
        VirtualVr::Px => "px".into(),
        VirtualVr::Lt => "lt".into(),
        _ => "??".into(),
    }
}

fn range_fields(t: TagRange) -> (&'static str, u16, u16) {
    match t {
        TagRange::Single(t) => ("single", t.0, t.1),
        TagRange::Group100(t) => ("group100", t.0, t.1),
        TagRange::Element100(t) => ("element100", t.0, t.1),
        TagRange::GroupLength => ("group_length", 0, 0),
        TagRange::PrivateCreator => ("private_creator", 0, 0),
    }
}

fn entry_fields(m: &mut serde_json::Map<String, Value>, e: Option<&DataDictionaryEntryRef<'static>>) {
    match e {
        Some(e) => {
            let (k, g, el) = range_fields(e.tag);
            m.insert("found".into(), true.into());
            m.insert("kind".into(), k.into());
            m.insert("bg".into(), g.into());
            m.insert("be".into(), el.into());
            m.insert("alias".into(), e.alias.into());
            m.insert("vr".into(), vr_str(e.vr).into());
        }
        None => {
            m.insert("found".into(), false.into());
            m.insert("kind".into(), "".into());
            m.insert("bg".into(), 0.into());
            m.insert("be".into(), 0.into());
            m.insert("alias".into(), "".into());
            m.insert("vr".into(), "".into());
        }
    }
}

struct Out {
    dir: String,
    chunk: usize,
    cur: Option<NdjsonWriter>,
    files: Vec<Value>,
    total: usize,
}
impl Out {
    fn emit(&mut self, v: Value) {
        if self.cur.as_ref().map(|c| c.lines >= self.chunk).unwrap_or(false) {
            self.close();
        }
        if self.cur.is_none() {
            let p = format!("{}/events_{:03}.ndjson", self.dir, self.files.len());
            self.cur = Some(NdjsonWriter::create(&p));
        }
        self.cur.as_mut().unwrap().emit(&v);
        self.total += 1;
    }
    fn close(&mut self) {
        if let Some(c) = self.cur.take() {
            let p = format!("{}/events_{:03}.ndjson", self.dir, self.files.len());
            let n = c.finish();
            self.files.push(json!({"path": p, "events": n}));
        }
    }
}

macro_rules! tag_consts {
    ($out:expr, $($id:ident),* $(,)?) => { $( {
        let t: Tag = tags::$id;
        $out.emit(json!({"ev":"const","cname":stringify!($id),"kind":"single","g":t.0,"e":t.1}));
    } )* };
}
macro_rules! range_consts {
    ($out:expr, $($id:ident),* $(,)?) => { $( {
        let (k, g, e) = range_fields(tags::$id);
        $out.emit(json!({"ev":"const","cname":stringify!($id),"kind":k,"g":g,"e":e}));
    } )* };
}

fn main() {
    quiet_panics();
    let args = args_map();
    let table = read_ndjson(args.get("table").expect("--table"));
    let sop = read_ndjson(args.get("sop").expect("--sop"));
    let dir = args.get("out").expect("--out").clone();
    std::fs::create_dir_all(&dir).unwrap();
    let n_random: usize = args.get("random").map(|s| s.parse().unwrap()).unwrap_or(20000);
    let all_groups = args.contains_key("all-groups");
    let chunk: usize = args.get("chunk").map(|s| s.parse().unwrap()).unwrap_or(150000);
    let mut rng = Rng::new(seed_from_env() ^ 0xC15);
    let mut out = Out { dir, chunk, cur: None, files: vec![], total: 0 };
    let dict = StandardDataDictionary;

    // ---- stratified tag set
    let mut seen: HashSet<u32> = HashSet::new();
    let mut tagset: Vec<(u16, u16)> = Vec::new();
    let mut strata = serde_json::Map::new();
    let mut add = |g: u16, e: u16, seen: &mut HashSet<u32>, tagset: &mut Vec<(u16, u16)>| {
        if seen.insert(((g as u32) << 16) | e as u32) {
            tagset.push((g, e));
        }
    };
    let mut groups: Vec<u16> = Vec::new();
    // (1) every entry's base tag and its +-1 neighbours in group and element
    for r in &table {
        let (g, e) = (j_usize(&r["g"]) as u16, j_usize(&r["e"]) as u16);
        groups.push(g);
        for (dg, de) in [(0i32, 0i32), (1, 0), (-1, 0), (0, 1), (0, -1), (2, 0), (-2, 0)] {
            add(g.wrapping_add(dg as u16), e.wrapping_add(de as u16), &mut seen, &mut tagset);
        }
    }
    strata.insert("entries_and_neighbours".into(), tagset.len().into());
    let mark = tagset.len();
    // (2) all 256 expansions of every repeating entry, plus the tags just outside
    for r in &table {
        let ctor = j_str(&r["ctor"]);
        let (g, e) = (j_usize(&r["g"]) as u16, j_usize(&r["e"]) as u16);
        if ctor == "Group100" {
            for k in 0..256u16 {
                add((g & 0xFF00) | k, e, &mut seen, &mut tagset);
            }
            add((g & 0xFF00).wrapping_sub(1), e, &mut seen, &mut tagset);
            add((g & 0xFF00).wrapping_add(0x100), e, &mut seen, &mut tagset);
        } else if ctor == "Element100" {
            for k in 0..256u16 {
                add(g, (e & 0xFF00) | k, &mut seen, &mut tagset);
            }
            add(g, (e & 0xFF00).wrapping_sub(1), &mut seen, &mut tagset);
            add(g, (e & 0xFF00).wrapping_add(0x100), &mut seen, &mut tagset);
        }
    }
    strata.insert("range_expansions".into(), (tagset.len() - mark).into());
    let mark = tagset.len();
    // (3) private creator window of odd groups and its boundaries
    groups.sort();
    groups.dedup();
    let mut odd: Vec<u16> = Vec::new();
    if all_groups {
        odd.extend((0..=0xFFFFu32).filter(|g| g & 1 == 1).map(|g| g as u16));
    } else {
        for g in &groups {
            odd.push(g | 1);
            odd.push(g.wrapping_sub(1) | 1);
        }
        odd.extend([0x0001, 0x0009, 0x0019, 0x5001, 0x50FF, 0x6001, 0x60FF, 0x7F01, 0x7FE1, 0x7FFF, 0xFFFF]);
        for _ in 0..256 {
            odd.push(rng.below(0x10000) as u16 | 1);
        }
        odd.sort();
        odd.dedup();
    }
    for g in &odd {
        for e in [0x0000u16, 0x0001, 0x000F, 0x0010, 0x0011, 0x007F, 0x00FE, 0x00FF, 0x0100, 0x1000, 0x1010] {
            add(*g, e, &mut seen, &mut tagset);
            // the same elements in the even neighbour: never a private creator
            add(g & 0xFFFE, e, &mut seen, &mut tagset);
        }
        add(*g, rng.range(0x10, 0xFF) as u16, &mut seen, &mut tagset);
    }
    strata.insert("private_creator_window".into(), (tagset.len() - mark).into());
    let mark = tagset.len();
    // (4) element 0000 of groups (incl. groups which have their own group length entry)
    if all_groups {
        for g in 0..=0xFFFFu32 {
            add(g as u16, 0, &mut seen, &mut tagset);
        }
    } else {
        for g in &groups {
            for d in [0i32, 1, -1, 2] {
                add(g.wrapping_add(d as u16), 0, &mut seen, &mut tagset);
            }
        }
        for _ in 0..2048 {
            add(rng.below(0x10000) as u16, 0, &mut seen, &mut tagset);
        }
    }
    strata.insert("group_length".into(), (tagset.len() - mark).into());
    let mark = tagset.len();
    // (5) seeded random tags: uniform, and biased to known groups / low elements
    for i in 0..n_random {
        let (g, e) = match i % 4 {
            0 => (rng.below(0x10000) as u16, rng.below(0x10000) as u16),
            1 => (*rng.pick(&groups), rng.below(0x10000) as u16),
            2 => (*rng.pick(&groups) ^ (rng.below(4) as u16), rng.below(0x2000) as u16),
            _ => (rng.below(0x10000) as u16, rng.below(0x200) as u16),
        };
        add(g, e, &mut seen, &mut tagset);
    }
    strata.insert("random".into(), (tagset.len() - mark).into());

    let mut panics = 0usize;
    let mut n_found = 0usize;
    let mut kinds = std::collections::BTreeMap::<String, usize>::new();
    for (g, e) in &tagset {
        let mut m = serde_json::Map::new();
        m.insert("ev".into(), "tag".into());
        m.insert("g".into(), (*g).into());
        m.insert("e".into(), (*e).into());
        match catch(|| dict.by_tag(Tag(*g, *e))) {
            Ok(r) => {
                if r.is_some() {
                    n_found += 1;
                }
                entry_fields(&mut m, r);
            }
            Err(_) => {
                panics += 1;
                entry_fields(&mut m, None);
                m.insert("kind".into(), "panic".into());
            }
        }
        *kinds.entry(j_str(&m["kind"]).to_string()).or_insert(0) += 1;
        out.emit(Value::Object(m));
    }

    // ---- keywords
    let mut names: Vec<(String, usize)> =
        table.iter().map(|r| (j_str(&r["alias"]).to_string(), j_usize(&r["id"]))).collect();
    names.push(("GenericGroupLength".into(), 0));
    names.push(("PrivateCreator".into(), 0));
    let n_names = names.len();
    for (q, row) in &names {
        let mut m = serde_json::Map::new();
        m.insert("ev".into(), "name".into());
        m.insert("q".into(), q.as_str().into());
        m.insert("row".into(), (*row).into());
        match catch(|| dict.by_name(q)) {
            Ok(r) => entry_fields(&mut m, r),
            Err(_) => {
                panics += 1;
                entry_fields(&mut m, None);
                m.insert("kind".into(), "panic".into());
            }
        }
        out.emit(Value::Object(m));
    }

    // ---- compiled tag constants (a fixed sample named here; the constants referenced by
    // the entries are observed through by_name above)
    tag_consts!(
        out, COMMAND_GROUP_LENGTH, AFFECTED_SOP_CLASS_UID, COMMAND_FIELD, MESSAGE_ID, STATUS,
        FILE_META_INFORMATION_GROUP_LENGTH, FILE_META_INFORMATION_VERSION, MEDIA_STORAGE_SOP_CLASS_UID,
        MEDIA_STORAGE_SOP_INSTANCE_UID, TRANSFER_SYNTAX_UID, IMPLEMENTATION_CLASS_UID, IMPLEMENTATION_VERSION_NAME,
        SPECIFIC_CHARACTER_SET, IMAGE_TYPE, SOP_CLASS_UID, SOP_INSTANCE_UID, STUDY_DATE, STUDY_TIME, ACCESSION_NUMBER,
        MODALITY, MANUFACTURER, REFERRING_PHYSICIAN_NAME, STUDY_DESCRIPTION, SERIES_DESCRIPTION, OPERATORS_NAME,
        PATIENT_NAME, PATIENT_ID, PATIENT_BIRTH_DATE, PATIENT_SEX, PATIENT_AGE, BODY_PART_EXAMINED, SLICE_THICKNESS,
        KVP, SEQUENCE_OF_ULTRASOUND_REGIONS, REGION_SPATIAL_FORMAT, STUDY_INSTANCE_UID, SERIES_INSTANCE_UID, STUDY_ID,
        SERIES_NUMBER, INSTANCE_NUMBER, IMAGE_POSITION_PATIENT, IMAGE_ORIENTATION_PATIENT, FRAME_OF_REFERENCE_UID,
        SAMPLES_PER_PIXEL, PHOTOMETRIC_INTERPRETATION, PLANAR_CONFIGURATION, NUMBER_OF_FRAMES, ROWS, COLUMNS,
        PIXEL_SPACING, BITS_ALLOCATED, BITS_STORED, HIGH_BIT, PIXEL_REPRESENTATION, WINDOW_CENTER, WINDOW_WIDTH,
        RESCALE_INTERCEPT, RESCALE_SLOPE, VOILUT_FUNCTION, CONCEPT_NAME_CODE_SEQUENCE, CONCEPT_CODE_SEQUENCE,
        CONTENT_SEQUENCE, CODE_VALUE, EXTENDED_OFFSET_TABLE, PIXEL_DATA, FLOAT_PIXEL_DATA, DOUBLE_FLOAT_PIXEL_DATA,
        PIXEL_DATA_PROVIDER_URL, DATA_SET_TRAILING_PADDING, DIGITAL_SIGNATURES_SEQUENCE, ZONAL_MAP,
    );
    range_consts!(
        out, OVERLAY_ROWS, OVERLAY_COLUMNS, OVERLAY_DATA, OVERLAY_BITS_ALLOCATED, SOURCE_IMAGE_I_DS, ROI_AREA,
        VARIABLE_COEFFICIENTS_SDDN,
    );

    // ---- SOP class dictionary
    let sd = StandardSopClassDictionary;
    let mut n_sop = 0usize;
    for r in &sop {
        for (ev, field) in [("uid", "uid"), ("kw", "alias")] {
            let q = j_str(&r[field]);
            let got = catch(|| if ev == "uid" { sd.by_uid(q) } else { sd.by_keyword(q) });
            let mut m = serde_json::Map::new();
            m.insert("ev".into(), ev.into());
            m.insert("q".into(), q.into());
            match got {
                Ok(Some(e)) => {
                    m.insert("found".into(), true.into());
                    m.insert("uid".into(), e.uid.into());
                    m.insert("alias".into(), e.alias.into());
                    m.insert("name".into(), e.name.into());
                    m.insert("retired".into(), e.retired.into());
                    m.insert("type".into(), format!("{:?}", e.r#type).into());
                }
                other => {
                    if other.is_err() {
                        panics += 1;
                    }
                    m.insert("found".into(), false.into());
                    m.insert("uid".into(), "".into());
                    m.insert("alias".into(), "".into());
                    m.insert("name".into(), "".into());
                    m.insert("retired".into(), false.into());
                    m.insert("type".into(), (if other.is_err() { "panic" } else { "" }).into());
                }
            }
            out.emit(Value::Object(m));
            n_sop += 1;
        }
    }
    out.close();

    let mut rep = Report::new();
    rep.cases = out.total;
    rep.extra.insert("files".into(), Value::Array(out.files));
    rep.extra.insert("tags".into(), tagset.len().into());
    rep.extra.insert("tags_found".into(), n_found.into());
    rep.extra.insert("names".into(), n_names.into());
    rep.extra.insert("sop_queries".into(), n_sop.into());
    rep.extra.insert("panics".into(), panics.into());
    rep.extra.insert("strata".into(), Value::Object(strata));
    rep.extra.insert("answer_kinds".into(), json!(kinds));
    rep.print();
}
