//! C20 conformance driver: RLE Lossless decoding.
//!
//!   drv_rle replay --cases <ndjson>            TLC cases (fragments + expected bytes) -> real decoder
//!   drv_rle record --n <N> --out <ndjson>      seeded random images, random run segmentation
//!                                              -> events for Trace_Rle.tla (TLC decodes and judges)
//!
//! The driver never decides what the right pixels are: in `replay` it compares
//! the decoder's output with the bytes TLC computed (Interleave); in `record`
//! it only logs fragments and outputs.  The PackBits *encoder* below is an
//! input generator for `record` (any byte stream it emits is judged by the
//! specification's decoder, and WellFormedFrag is checked by TLC).

#[path = "../pixel_common.rs"]
mod pixel_common;

use dicom_encoding::{Codec, TransferSyntaxIndex};
use dicom_pixeldata::PixelDecoder;
use dicom_transfer_syntax_registry::TransferSyntaxRegistry;
use pixel_common::*;
use serde_json::{json, Value};
use vcommon::*;

struct Decoded {
    whole: Result<Vec<u8>, String>,
    per: Vec<Result<Vec<u8>, String>>,
    /// the registry's RLE pixel data reader, frames 0..n-1 decoded one after another into ONE Vec
    acc: Result<Vec<u8>, String>,
    /// the reader's decode_frame(k) into a Vec pre-filled with SENTINEL (full Vec returned)
    pre: Vec<Result<Vec<u8>, String>>,
    /// the reader's decode (whole object) into a Vec pre-filled with SENTINEL
    pre_whole: Result<Vec<u8>, String>,
}

const SENTINEL: [u8; 5] = [0xA5, 0x5A, 0xC3, 0x3C, 0x99];

fn res_json(r: &Result<Vec<u8>, String>) -> Value {
    match r {
        Ok(b) => json!({"res": "ok", "data": jb(b)}),
        Err(e) => json!({"res": "err", "msg": e.chars().take(200).collect::<String>()}),
    }
}

fn decode_all(spec: &ImgSpec, frags: &[Vec<u8>]) -> Decoded {
    let obj = encapsulated_object(spec, vec![], frags.to_vec(), RLE);
    let whole = match catch(|| obj.decode_pixel_data().map(|d| d.data().to_vec())) {
        Ok(Ok(d)) => Ok(d),
        Ok(Err(e)) => Err(format!("error: {e}")),
        Err(p) => Err(format!("panic: {p}")),
    };
    let mut per = Vec::new();
    for k in 0..spec.frames {
        per.push(match catch(|| obj.decode_pixel_data_frame(k).map(|d| d.data().to_vec())) {
            Ok(Ok(d)) => Ok(d),
            Ok(Err(e)) => Err(format!("error: {e}")),
            Err(p) => Err(format!("panic: {p}")),
        });
    }
    // the adapter's public interface: output is appended to the destination vector
    let ts = TransferSyntaxRegistry.get(RLE).expect("RLE Lossless in the registry");
    let (acc, pre, pre_whole) = match ts.codec() {
        Codec::EncapsulatedPixelData(Some(reader), _) => {
            let acc = match catch(|| {
                let mut dst = Vec::new();
                for k in 0..spec.frames {
                    reader.decode_frame(&obj, k, &mut dst).map_err(|e| format!("frame {k}: {e}"))?;
                }
                Ok::<_, String>(dst)
            }) {
                Ok(Ok(d)) => Ok(d),
                Ok(Err(e)) => Err(format!("error: {e}")),
                Err(p) => Err(format!("panic: {p}")),
            };
            let mut pre = Vec::new();
            for k in 0..spec.frames {
                pre.push(match catch(|| {
                    let mut dst = SENTINEL.to_vec();
                    reader.decode_frame(&obj, k, &mut dst).map(|_| dst)
                }) {
                    Ok(Ok(d)) => Ok(d),
                    Ok(Err(e)) => Err(format!("error: {e}")),
                    Err(p) => Err(format!("panic: {p}")),
                });
            }
            let pre_whole = match catch(|| {
                let mut dst = SENTINEL.to_vec();
                reader.decode(&obj, &mut dst).map(|_| dst)
            }) {
                Ok(Ok(d)) => Ok(d),
                Ok(Err(e)) => Err(format!("error: {e}")),
                Err(p) => Err(format!("panic: {p}")),
            };
            (acc, pre, pre_whole)
        }
        _ => {
            let e = Err("RLE Lossless has no pixel data reader in the registry".to_string());
            (e.clone(), vec![e.clone(); spec.frames as usize], e)
        }
    };
    Decoded { whole, per, acc, pre, pre_whole }
}

fn replay(cases_path: &str) {
    let cases = read_ndjson(cases_path);
    let mut rep = Report::new();
    let mut nontrivial = std::collections::BTreeSet::new();
    for c in &cases {
        rep.cases += 1;
        let spec = ImgSpec::from_json(c);
        let frags = bytes_list_of(&c["frags"]);
        let expect = bytes_list_of(&c["expect"]);
        let d = decode_all(&spec, &frags);
        let expect_whole: Vec<u8> = expect.iter().flatten().copied().collect();
        let key = format!("bits={} samples={}", spec.bits_alloc, spec.spp);
        nontrivial.insert(format!("{}", c["frags"]));
        let mut bad = |what: &str, exp: Value, got: Value| {
            rep.mismatch(json!({"what": what, "shape": key, "case": c, "expected": exp, "got": got}));
        };
        // decoding each frame yields the original samples
        for (k, r) in d.per.iter().enumerate() {
            match r {
                Ok(b) if *b == expect[k] => {}
                _ => bad("frame", jb(&expect[k]), res_json(r)),
            }
        }
        // decoding the whole object yields the original samples
        match &d.whole {
            Ok(b) if *b == expect_whole => {}
            r => bad("whole", jb(&expect_whole), res_json(r)),
        }
        // the adapter itself: frames decoded successively into one vector = concatenation of the frames
        match &d.acc {
            Ok(b) if *b == expect_whole => {}
            r => bad("adapter frames accumulated in one vector", jb(&expect_whole), res_json(r)),
        }
        // ... and output is appended: what the destination already holds stays untouched
        for (k, r) in d.pre.iter().enumerate() {
            let want: Vec<u8> = SENTINEL.iter().chain(expect[k].iter()).copied().collect();
            match r {
                Ok(b) if *b == want => {}
                _ => bad("adapter frame appended to a non-empty vector", jb(&want), res_json(r)),
            }
        }
        {
            let want: Vec<u8> = SENTINEL.iter().chain(expect_whole.iter()).copied().collect();
            match &d.pre_whole {
                Ok(b) if *b == want => {}
                r => bad("adapter whole appended to a non-empty vector", jb(&want), res_json(r)),
            }
        }
        // whole = concatenation of the per-frame results (observed vs observed)
        if let Ok(w) = &d.whole {
            if d.per.iter().all(|r| r.is_ok()) {
                let cat: Vec<u8> = d.per.iter().flat_map(|r| r.as_ref().unwrap().clone()).collect();
                if *w != cat {
                    bad("concat", jb(&cat), jb(w));
                }
            }
        }
    }
    rep.extra.insert("distinct_fragment_sets".into(), Value::from(nontrivial.len() as u64));
    rep.print();
}

/// input generator: PackBits with a random split into literal/replicate runs and no-ops
fn packbits_random(rng: &mut Rng, d: &[u8], out: &mut Vec<u8>) {
    let start = out.len();
    let mut pos = 0;
    while pos < d.len() {
        if rng.below(20) == 0 {
            out.push(0x80);
            continue;
        }
        let rem = d.len() - pos;
        let mut run = 1;
        while pos + run < d.len() && d[pos + run] == d[pos] && run < 128 {
            run += 1;
        }
        if run >= 2 && rng.below(10) < 7 {
            // replicate; prefer the boundary lengths now and then
            let k = if rng.coin() { run } else { rng.range(2, run as i64) as usize };
            out.push((257 - k) as u8);
            out.push(d[pos]);
            pos += k;
        } else {
            let maxk = rem.min(128);
            let k = match rng.below(4) {
                0 => maxk,
                1 => 1,
                _ => rng.range(1, maxk as i64) as usize,
            };
            out.push((k - 1) as u8);
            out.extend_from_slice(&d[pos..pos + k]);
            pos += k;
        }
    }
    if rng.below(20) == 0 {
        out.push(0x80);
    }
    if (out.len() - start) % 2 == 1 {
        out.push(0);
    }
}

fn encode_frame_random(rng: &mut Rng, spec: &ImgSpec, frame: &[u8]) -> Vec<u8> {
    let bps = (spec.bits_alloc / 8) as usize;
    let spp = spec.spp as usize;
    let npix = spec.rows as usize * spec.cols as usize;
    let nseg = spp * bps;
    let mut body = Vec::new();
    let mut offs = Vec::new();
    for s in 0..spp {
        for b in (0..bps).rev() {
            // plane of byte b (0 = LSB) of sample s; most significant plane first
            let plane: Vec<u8> = (0..npix).map(|p| frame[(p * spp + s) * bps + b]).collect();
            offs.push(64 + body.len() as u32);
            packbits_random(rng, &plane, &mut body);
        }
    }
    let mut frag = Vec::with_capacity(64 + body.len());
    frag.extend_from_slice(&(nseg as u32).to_le_bytes());
    for k in 0..15 {
        let o = if k < offs.len() { offs[k] } else { 0 };
        frag.extend_from_slice(&o.to_le_bytes());
    }
    frag.extend_from_slice(&body);
    frag
}

fn record(n: usize, out: &str, max_dim: i64, max_frames: i64) {
    let mut rng = Rng::new(seed_from_env() ^ 0xC20);
    let mut w = NdjsonWriter::create(out);
    let mut rep = Report::new();
    let mut distinct = std::collections::BTreeSet::new();
    for i in 0..n {
        rep.cases += 1;
        let bits = if rng.coin() { 8 } else { 16 };
        let spp = if rng.coin() { 1 } else { 3 };
        let (rows, cols) = match i % 9 {
            // planes that cross the 128-byte run limits
            0 => (1, *rng.pick(&[127i64, 128, 129, 130, 255, 256, 257])),
            1 => (*rng.pick(&[127i64, 128, 129]), 2),
            _ => (rng.range(1, max_dim), rng.range(1, max_dim)),
        };
        let frames = rng.range(1, max_frames);
        let spec = ImgSpec::simple(rows as u16, cols as u16, spp, bits, frames as u32);
        let fb = spec.frame_bytes();
        let mode = rng.below(4);
        let mut frags = Vec::new();
        for _ in 0..frames {
            let mut frame = vec![0u8; fb];
            match mode {
                0 => frame = rng.bytes(fb),
                1 => {
                    // flat regions: a sample repeats the previous pixel's sample with p = 0.8
                    let step = spec.spp as usize * (bits / 8) as usize;
                    for j in 0..fb {
                        frame[j] = if j >= step && rng.below(10) < 8 { frame[j - step] } else { rng.next_u64() as u8 };
                    }
                }
                2 => {
                    let step = spec.spp as usize * (bits / 8) as usize;
                    let base = rng.bytes(step);
                    for j in 0..fb {
                        frame[j] = base[j % step];
                    }
                }
                _ => {
                    for (j, x) in frame.iter_mut().enumerate() {
                        *x = ((j * 7 + 3) % 256) as u8;
                    }
                }
            }
            frags.push(encode_frame_random(&mut rng, &spec, &frame));
        }
        let d = decode_all(&spec, &frags);
        distinct.insert(format!("{rows}x{cols}x{spp}x{bits}x{frames}/{mode}"));
        w.emit(&json!({
            "ev": "case", "rows": rows, "cols": cols, "spp": spp, "bits": bits, "frames": frames,
            "frags": jbb(&frags),
            "whole": res_json(&d.whole),
            "per": Value::Array(d.per.iter().map(res_json).collect()),
            "sentinel": jb(&SENTINEL),
            "acc": res_json(&d.acc),
            "pre": Value::Array(d.pre.iter().map(res_json).collect()),
            "pre_whole": res_json(&d.pre_whole),
        }));
    }
    let lines = w.finish();
    rep.extra.insert("events".into(), Value::from(lines as u64));
    rep.extra.insert("distinct_shapes".into(), Value::from(distinct.len() as u64));
    rep.print();
}

fn main() {
    quiet_panics();
    let a = args_map();
    match a.get("_0").map(|s| s.as_str()) {
        Some("replay") => replay(&a["cases"]),
        Some("record") => record(
            a.get("n").map(|s| s.parse().unwrap()).unwrap_or(100),
            &a["out"],
            a.get("maxdim").map(|s| s.parse().unwrap()).unwrap_or(17),
            a.get("maxframes").map(|s| s.parse().unwrap()).unwrap_or(3),
        ),
        _ => {
            eprintln!("usage: drv_rle replay --cases F | record --n N --out F");
            std::process::exit(2);
        }
    }
}
