//! C25 + C27 conformance driver: PDU codec (read_pdu / write_pdu) and PDU reception
//! over a segmented byte stream (read_pdu_from_wire / read_pdu_from_wire_async).
//!
//!   drv_pdu replay      --cases <ndjson> --out <dir>   TLC cases (Gen_PS38Pdu*) -> real codec -> trace
//!   drv_pdu random      --n <N> --out <dir>            seeded random PDUs -> trace
//!   drv_pdu wire-replay --cases <ndjson> --out <dir>   TLC behaviours (Gen_WireRx) -> real receivers -> trace
//!   drv_pdu wire-random --n <N> --out <dir>            seeded random PDU sequences / segmentations -> trace
//!
//! The traces are judged by specs/ps38pdu/Trace_PS38Pdu.tla and Trace_WireRx.tla.
//! The driver never decides pass/fail: it transports abstract PDUs (JSON projection
//! documented in PS38Pdu.tla), bytes and results.  "mismatches" in the REPORT are
//! differences to the values TLC expected (drift candidates; the verdict comes from
//! the trace validation).

use bytes::BytesMut;
use dicom_ul::association::{read_pdu_from_wire, read_pdu_from_wire_async};
use dicom_ul::pdu::*;
use serde_json::{json, Value};
use std::cell::RefCell;
use std::collections::VecDeque;
use std::io::{Cursor, Read};
use std::pin::Pin;
use std::rc::Rc;
use std::task::{Context, Poll};
use tokio::io::{AsyncRead, ReadBuf};
use vcommon::*;

const BIGMAX: u32 = 1_000_000;

// ----------------------------------------------------------------------------- projection

fn txt(v: &Value) -> String {
    j_arr(v).iter().map(|c| char::from_u32(j_usize(c) as u32).expect("code point")).collect()
}
fn untxt(s: &str) -> Value {
    Value::Array(s.chars().map(|c| Value::from(c as u32)).collect())
}
fn jbool(v: &Value) -> bool {
    v.as_bool().unwrap_or_else(|| panic!("expected bool, got {v}"))
}

fn pc_reason_from(n: usize) -> PresentationContextResultReason {
    match n {
        0 => PresentationContextResultReason::Acceptance,
        1 => PresentationContextResultReason::UserRejection,
        2 => PresentationContextResultReason::NoReason,
        3 => PresentationContextResultReason::AbstractSyntaxNotSupported,
        4 => PresentationContextResultReason::TransferSyntaxesNotSupported,
        _ => panic!("projection: no presentation context result reason {n}"),
    }
}
fn pc_reason_to(r: &PresentationContextResultReason) -> u64 {
    match r {
        PresentationContextResultReason::Acceptance => 0,
        PresentationContextResultReason::UserRejection => 1,
        PresentationContextResultReason::NoReason => 2,
        PresentationContextResultReason::AbstractSyntaxNotSupported => 3,
        PresentationContextResultReason::TransferSyntaxesNotSupported => 4,
    }
}

/// PS3.8 Table 9-21 (source, reason) -> the Rust value documented with that meaning
fn rj_source_from(source: usize, reason: usize) -> AssociationRJSource {
    use AssociationRJServiceProviderASCEReason as A;
    use AssociationRJServiceProviderPresentationReason as P;
    use AssociationRJServiceUserReason as U;
    match (source, reason) {
        (1, 1) => AssociationRJSource::ServiceUser(U::NoReasonGiven),
        (1, 2) => AssociationRJSource::ServiceUser(U::ApplicationContextNameNotSupported),
        (1, 3) => AssociationRJSource::ServiceUser(U::CallingAETitleNotRecognized),
        (1, 7) => AssociationRJSource::ServiceUser(U::CalledAETitleNotRecognized),
        (1, x) => AssociationRJSource::ServiceUser(U::Reserved(x as u8)),
        (2, 1) => AssociationRJSource::ServiceProviderASCE(A::NoReasonGiven),
        (2, 2) => AssociationRJSource::ServiceProviderASCE(A::ProtocolVersionNotSupported),
        (3, 1) => AssociationRJSource::ServiceProviderPresentation(P::TemporaryCongestion),
        (3, 2) => AssociationRJSource::ServiceProviderPresentation(P::LocalLimitExceeded),
        (3, x) => AssociationRJSource::ServiceProviderPresentation(P::Reserved(x as u8)),
        _ => panic!("projection: no reject source {source}/{reason}"),
    }
}
fn rj_source_to(s: &AssociationRJSource) -> (u64, u64) {
    use AssociationRJServiceProviderASCEReason as A;
    use AssociationRJServiceProviderPresentationReason as P;
    use AssociationRJServiceUserReason as U;
    match s {
        AssociationRJSource::ServiceUser(r) => (
            1,
            match r {
                U::NoReasonGiven => 1,
                U::ApplicationContextNameNotSupported => 2,
                U::CallingAETitleNotRecognized => 3,
                U::CalledAETitleNotRecognized => 7,
                U::Reserved(x) => *x as u64,
            },
        ),
        AssociationRJSource::ServiceProviderASCE(r) => (
            2,
            match r {
                A::NoReasonGiven => 1,
                A::ProtocolVersionNotSupported => 2,
            },
        ),
        AssociationRJSource::ServiceProviderPresentation(r) => (
            3,
            match r {
                P::TemporaryCongestion => 1,
                P::LocalLimitExceeded => 2,
                P::Reserved(x) => *x as u64,
            },
        ),
    }
}

fn abort_from(source: usize, reason: usize) -> AbortRQSource {
    use AbortRQServiceProviderReason as R;
    match (source, reason) {
        (0, _) => AbortRQSource::ServiceUser,
        (1, _) => AbortRQSource::Reserved,
        (2, 0) => AbortRQSource::ServiceProvider(R::ReasonNotSpecified),
        (2, 1) => AbortRQSource::ServiceProvider(R::UnrecognizedPdu),
        (2, 2) => AbortRQSource::ServiceProvider(R::UnexpectedPdu),
        (2, 3) => AbortRQSource::ServiceProvider(R::Reserved),
        (2, 4) => AbortRQSource::ServiceProvider(R::UnrecognizedPduParameter),
        (2, 5) => AbortRQSource::ServiceProvider(R::UnexpectedPduParameter),
        (2, 6) => AbortRQSource::ServiceProvider(R::InvalidPduParameter),
        _ => panic!("projection: no abort source {source}/{reason}"),
    }
}
fn abort_to(s: &AbortRQSource) -> (u64, u64) {
    use AbortRQServiceProviderReason as R;
    match s {
        AbortRQSource::ServiceUser => (0, 0),
        AbortRQSource::Reserved => (1, 0),
        AbortRQSource::ServiceProvider(r) => (
            2,
            match r {
                R::ReasonNotSpecified => 0,
                R::UnrecognizedPdu => 1,
                R::UnexpectedPdu => 2,
                R::Reserved => 3,
                R::UnrecognizedPduParameter => 4,
                R::UnexpectedPduParameter => 5,
                R::InvalidPduParameter => 6,
            },
        ),
    }
}

fn uv_from_json(v: &Value) -> UserVariableItem {
    match j_str(&v["t"]) {
        "max" => UserVariableItem::MaxLength(((j_usize(&v["hi"]) as u32) << 16) | j_usize(&v["lo"]) as u32),
        "impl_uid" => UserVariableItem::ImplementationClassUID(txt(&v["s"])),
        "impl_ver" => UserVariableItem::ImplementationVersionName(txt(&v["s"])),
        "role" => UserVariableItem::ScuScpRoleSelectionSubItem(
            txt(&v["uid"]),
            RequestorRoles {
                scu: jbool(&v["scu"]),
                scp: jbool(&v["scp"]),
            },
        ),
        "ext" => UserVariableItem::SopClassExtendedNegotiationSubItem(txt(&v["uid"]), j_bytes(&v["data"])),
        "ident" => UserVariableItem::UserIdentityItem(UserIdentity::new(
            jbool(&v["pos"]),
            match j_usize(&v["itype"]) {
                1 => UserIdentityType::Username,
                2 => UserIdentityType::UsernamePassword,
                3 => UserIdentityType::KerberosServiceTicket,
                4 => UserIdentityType::SamlAssertion,
                5 => UserIdentityType::Jwt,
                x => panic!("projection: no user identity type {x}"),
            },
            j_bytes(&v["prim"]),
            j_bytes(&v["sec"]),
        )),
        "unk" => UserVariableItem::Unknown(j_usize(&v["type"]) as u8, j_bytes(&v["data"])),
        t => panic!("projection: unknown user item kind {t}"),
    }
}

fn uv_to_json(u: &UserVariableItem) -> Value {
    match u {
        UserVariableItem::MaxLength(m) => json!({"t": "max", "hi": m >> 16, "lo": m & 0xffff}),
        UserVariableItem::ImplementationClassUID(s) => json!({"t": "impl_uid", "s": untxt(s)}),
        UserVariableItem::ImplementationVersionName(s) => json!({"t": "impl_ver", "s": untxt(s)}),
        UserVariableItem::ScuScpRoleSelectionSubItem(uid, r) => {
            json!({"t": "role", "uid": untxt(uid), "scu": r.scu, "scp": r.scp})
        }
        UserVariableItem::SopClassExtendedNegotiationSubItem(uid, d) => {
            json!({"t": "ext", "uid": untxt(uid), "data": bytes_json(d)})
        }
        UserVariableItem::UserIdentityItem(i) => {
            let ty = match i.identity_type() {
                UserIdentityType::Username => 1,
                UserIdentityType::UsernamePassword => 2,
                UserIdentityType::KerberosServiceTicket => 3,
                UserIdentityType::SamlAssertion => 4,
                UserIdentityType::Jwt => 5,
                _ => 255,
            };
            json!({"t": "ident", "itype": ty, "pos": i.positive_response_requested(),
                   "prim": bytes_json(&i.primary_field()), "sec": bytes_json(&i.secondary_field())})
        }
        UserVariableItem::Unknown(t, d) => json!({"t": "unk", "type": t, "data": bytes_json(d)}),
    }
}

fn pdu_from_json(v: &Value) -> Pdu {
    let uvs = |v: &Value| -> Vec<UserVariableItem> { j_arr(&v["uv"]).iter().map(uv_from_json).collect() };
    match j_str(&v["k"]) {
        "rq" => Pdu::AssociationRQ(AssociationRQ {
            protocol_version: j_usize(&v["pv"]) as u16,
            calling_ae_title: txt(&v["calling"]),
            called_ae_title: txt(&v["called"]),
            application_context_name: txt(&v["app"]),
            presentation_contexts: j_arr(&v["pcs"])
                .iter()
                .map(|pc| PresentationContextProposed {
                    id: j_usize(&pc["id"]) as u8,
                    abstract_syntax: txt(&pc["abs"]),
                    transfer_syntaxes: j_arr(&pc["ts"]).iter().map(txt).collect(),
                })
                .collect(),
            user_variables: uvs(v),
        }),
        "ac" => Pdu::AssociationAC(AssociationAC {
            protocol_version: j_usize(&v["pv"]) as u16,
            calling_ae_title: txt(&v["calling"]),
            called_ae_title: txt(&v["called"]),
            application_context_name: txt(&v["app"]),
            presentation_contexts: j_arr(&v["pcs"])
                .iter()
                .map(|pc| PresentationContextResult {
                    id: j_usize(&pc["id"]) as u8,
                    reason: pc_reason_from(j_usize(&pc["reason"])),
                    transfer_syntax: txt(&pc["ts"]),
                })
                .collect(),
            user_variables: uvs(v),
        }),
        "rj" => Pdu::AssociationRJ(AssociationRJ {
            result: match j_usize(&v["result"]) {
                1 => AssociationRJResult::Permanent,
                2 => AssociationRJResult::Transient,
                x => panic!("projection: no reject result {x}"),
            },
            source: rj_source_from(j_usize(&v["source"]), j_usize(&v["reason"])),
        }),
        "pdata" => Pdu::PData {
            data: j_arr(&v["pdvs"])
                .iter()
                .map(|d| PDataValue {
                    presentation_context_id: j_usize(&d["id"]) as u8,
                    value_type: if jbool(&d["cmd"]) { PDataValueType::Command } else { PDataValueType::Data },
                    is_last: jbool(&d["last"]),
                    data: j_bytes(&d["data"]),
                })
                .collect(),
        },
        "rrq" => Pdu::ReleaseRQ,
        "rrp" => Pdu::ReleaseRP,
        "abort" => Pdu::AbortRQ {
            source: abort_from(j_usize(&v["source"]), j_usize(&v["reason"])),
        },
        "unknown" => Pdu::Unknown {
            pdu_type: j_usize(&v["type"]) as u8,
            data: j_bytes(&v["data"]),
        },
        k => panic!("projection: unknown pdu kind {k}"),
    }
}

fn pdu_to_json(p: &Pdu) -> Value {
    match p {
        Pdu::AssociationRQ(a) => json!({
            "k": "rq", "pv": a.protocol_version, "called": untxt(&a.called_ae_title),
            "calling": untxt(&a.calling_ae_title), "app": untxt(&a.application_context_name),
            "pcs": a.presentation_contexts.iter().map(|pc| json!({
                "id": pc.id, "abs": untxt(&pc.abstract_syntax),
                "ts": pc.transfer_syntaxes.iter().map(|t| untxt(t)).collect::<Vec<_>>()})).collect::<Vec<_>>(),
            "uv": a.user_variables.iter().map(uv_to_json).collect::<Vec<_>>()}),
        Pdu::AssociationAC(a) => json!({
            "k": "ac", "pv": a.protocol_version, "called": untxt(&a.called_ae_title),
            "calling": untxt(&a.calling_ae_title), "app": untxt(&a.application_context_name),
            "pcs": a.presentation_contexts.iter().map(|pc| json!({
                "id": pc.id, "reason": pc_reason_to(&pc.reason), "ts": untxt(&pc.transfer_syntax)})).collect::<Vec<_>>(),
            "uv": a.user_variables.iter().map(uv_to_json).collect::<Vec<_>>()}),
        Pdu::AssociationRJ(r) => {
            let (s, d) = rj_source_to(&r.source);
            json!({"k": "rj", "result": match r.result { AssociationRJResult::Permanent => 1, AssociationRJResult::Transient => 2 },
                   "source": s, "reason": d})
        }
        Pdu::PData { data } => json!({"k": "pdata", "pdvs": data.iter().map(|d| json!({
            "id": d.presentation_context_id, "cmd": matches!(d.value_type, PDataValueType::Command),
            "last": d.is_last, "data": bytes_json(&d.data)})).collect::<Vec<_>>()}),
        Pdu::ReleaseRQ => json!({"k": "rrq"}),
        Pdu::ReleaseRP => json!({"k": "rrp"}),
        Pdu::AbortRQ { source } => {
            let (s, d) = abort_to(source);
            json!({"k": "abort", "source": s, "reason": d})
        }
        Pdu::Unknown { pdu_type, data } => json!({"k": "unknown", "type": pdu_type, "data": bytes_json(data)}),
    }
}

fn kind_of(p: &Pdu) -> &'static str {
    match p {
        Pdu::AssociationRQ(_) => "rq",
        Pdu::AssociationAC(_) => "ac",
        Pdu::AssociationRJ(_) => "rj",
        Pdu::PData { .. } => "pdata",
        Pdu::ReleaseRQ => "rrq",
        Pdu::ReleaseRP => "rrp",
        Pdu::AbortRQ { .. } => "abort",
        Pdu::Unknown { .. } => "unknown",
    }
}

/// run-length coding of a byte/code string: [[count, value], ...]
fn rl(b: &[u8]) -> Value {
    let mut out: Vec<Value> = Vec::new();
    let mut i = 0;
    while i < b.len() {
        let mut j = i;
        while j < b.len() && b[j] == b[i] {
            j += 1;
        }
        out.push(json!([j - i, b[i]]));
        i = j;
    }
    Value::Array(out)
}

/// PDUs with one large field, named (shape, n): the same construction as BigPdu in PS38PduBig.tla
fn big_pdu(shape: &str, n: usize) -> Pdu {
    let base = |uv: Vec<UserVariableItem>, pcs: Vec<PresentationContextProposed>, app: String| {
        Pdu::AssociationRQ(AssociationRQ {
            protocol_version: 1,
            called_ae_title: "A".into(),
            calling_ae_title: "B".into(),
            application_context_name: app,
            presentation_contexts: pcs,
            user_variables: uv,
        })
    };
    let ac = |uv: Vec<UserVariableItem>, pcs: Vec<PresentationContextResult>| {
        Pdu::AssociationAC(AssociationAC {
            protocol_version: 1,
            called_ae_title: "A".into(),
            calling_ae_title: "B".into(),
            application_context_name: "1".into(),
            presentation_contexts: pcs,
            user_variables: uv,
        })
    };
    let s = |n: usize, c: char| -> String { std::iter::repeat(c).take(n).collect() };
    let one = "1".to_string();
    let max = UserVariableItem::MaxLength(16384);
    let pc1 = |abs: String, ts: Vec<String>| PresentationContextProposed {
        id: 1,
        abstract_syntax: abs,
        transfer_syntaxes: ts,
    };
    match shape {
        "uv_unk" => base(vec![max, UserVariableItem::Unknown(153, vec![0; n])], vec![], one),
        "uv_ext" => base(vec![UserVariableItem::SopClassExtendedNegotiationSubItem("1".into(), vec![7; n])], vec![], one),
        "uv_ext_uid" => base(vec![UserVariableItem::SopClassExtendedNegotiationSubItem(s(n, '1'), vec![])], vec![], one),
        "uv_ident_prim" => base(
            vec![UserVariableItem::UserIdentityItem(UserIdentity::new(false, UserIdentityType::Username, vec![97; n], vec![]))],
            vec![],
            one,
        ),
        "uv_ident_sec" => base(
            vec![UserVariableItem::UserIdentityItem(UserIdentity::new(true, UserIdentityType::UsernamePassword, vec![97], vec![98; n]))],
            vec![],
            one,
        ),
        "uv_two" => base(
            vec![UserVariableItem::Unknown(153, vec![1; n / 2]), UserVariableItem::Unknown(154, vec![2; n / 2])],
            vec![],
            one,
        ),
        "uv_impl_uid" => base(vec![UserVariableItem::ImplementationClassUID(s(n, '1'))], vec![], one),
        "uv_impl_ver" => base(vec![UserVariableItem::ImplementationVersionName(s(n, 'V'))], vec![], one),
        "uv_role_uid" => base(
            vec![UserVariableItem::ScuScpRoleSelectionSubItem(s(n, '1'), RequestorRoles { scu: true, scp: false })],
            vec![],
            one,
        ),
        "app" => base(vec![], vec![], s(n, '1')),
        "pc_abs" => base(vec![], vec![pc1(s(n, '1'), vec!["2".into()])], one),
        "pc_ts" => base(vec![], vec![pc1("1".into(), vec![s(n, '1')])], one),
        "pc_two_ts" => base(vec![], vec![pc1("1".into(), vec![s(n / 2, '1'), s(n / 2, '2')])], one),
        "ac_ts" => ac(
            vec![],
            vec![PresentationContextResult {
                id: 1,
                reason: PresentationContextResultReason::Acceptance,
                transfer_syntax: s(n, '1'),
            }],
        ),
        "ac_uv_unk" => ac(vec![max, UserVariableItem::Unknown(153, vec![0; n])], vec![]),
        "pdv" => Pdu::PData {
            data: vec![PDataValue {
                presentation_context_id: 1,
                value_type: PDataValueType::Data,
                is_last: true,
                data: vec![5; n],
            }],
        },
        "unknown" => Pdu::Unknown { pdu_type: 9, data: vec![3; n] },
        _ => panic!("projection: unknown big shape {shape}"),
    }
}

// ----------------------------------------------------------------------------- codec runs

struct Tr {
    w: NdjsonWriter,
    path: String,
}
impl Tr {
    fn new(dir: &str, name: &str) -> Tr {
        let path = format!("{dir}/{name}");
        Tr { w: NdjsonWriter::create(&path), path }
    }
    fn emit(&mut self, v: Value) {
        self.w.emit(&v);
    }
}

fn short(e: &dyn std::fmt::Display) -> String {
    let s = e.to_string();
    s.chars().take(160).collect()
}

fn write_real(pdu: &Pdu) -> Result<Result<Vec<u8>, String>, String> {
    catch(|| {
        let mut out = Vec::new();
        match write_pdu(&mut out, pdu) {
            Ok(()) => Ok(out),
            Err(e) => Err(short(&e)),
        }
    })
}

/// read_pdu on the first n bytes of buf: (res, pdu json, consumed, msg)
fn read_real(buf: &[u8], n: usize, max: u32, strict: bool) -> (&'static str, Option<Pdu>, u64, String) {
    let data = &buf[..n];
    let mut cur = Cursor::new(data);
    let r = catch(|| read_pdu(&mut cur, max, strict));
    match r {
        Err(p) => ("panic", None, 0, p.chars().take(160).collect()),
        Ok(Err(e)) => ("err", None, 0, short(&snafu_chain(&e))),
        Ok(Ok(None)) => ("none", None, 0, String::new()),
        Ok(Ok(Some(p))) => ("pdu", Some(p), cur.position(), String::new()),
    }
}

fn dec_event(tr: &mut Tr, bytes: &[u8], tail: &[u8], n: usize, max: u32, strict: bool) -> &'static str {
    let mut buf = bytes.to_vec();
    buf.extend_from_slice(tail);
    let (res, pdu, consumed, msg) = read_real(&buf, n, max, strict);
    let mut ev = json!({"ev": "dec", "n": n, "tail": bytes_json(tail), "max": max, "strict": strict, "res": res});
    if let Some(p) = pdu {
        ev["pdu"] = pdu_to_json(&p);
        ev["consumed"] = Value::from(consumed);
    }
    if !msg.is_empty() {
        ev["msg"] = Value::from(msg);
    }
    tr.emit(ev);
    res
}

fn prefixes_event(tr: &mut Tr, bytes: &[u8], max: u32, strict: bool) -> usize {
    let codes: Vec<u8> = (0..bytes.len())
        .map(|n| match read_real(bytes, n, max, strict).0 {
            "none" => 0,
            "err" => 1,
            "pdu" => 2,
            _ => 3,
        })
        .collect();
    let bad = codes.iter().filter(|c| **c != 0).count();
    tr.emit(json!({"ev": "prefixes", "max": max, "strict": strict, "codes_rl": rl(&codes)}));
    bad
}

struct Counts {
    enc_ok: usize,
    enc_err: usize,
    decs: usize,
    prefixes: usize,
}

/// One PDU through the codec: write, read back (alone, strict, with following bytes), every strict prefix.
fn run_pdu_case(tr: &mut Tr, pj: &Value, pdu: &Pdu, expected: Option<&[u8]>, rep: &mut Report, cnt: &mut Counts, light: bool) {
    match write_real(pdu) {
        Err(p) => tr.emit(json!({"ev": "enc", "pdu": pj, "res": "panic", "msg": p})),
        Ok(Err(e)) => {
            cnt.enc_err += 1;
            tr.emit(json!({"ev": "enc", "pdu": pj, "res": "err", "msg": e}));
            if expected.is_some() {
                rep.mismatch(json!({"what": "write_pdu failed where TLC expected bytes", "pdu": pj}));
            }
        }
        Ok(Ok(bytes)) => {
            cnt.enc_ok += 1;
            tr.emit(json!({"ev": "enc", "pdu": pj, "res": "ok", "bytes": bytes_json(&bytes)}));
            if let Some(exp) = expected {
                if exp != &bytes[..] {
                    rep.mismatch(json!({"what": "bytes differ from PduBytes", "kind": kind_of(pdu), "pdu": pj,
                                        "expected": bytes_json(exp), "actual": bytes_json(&bytes)}));
                }
            }
            let n = bytes.len();
            dec_event(tr, &bytes, &[], n, BIGMAX, false);
            cnt.decs += 1;
            if !light {
                dec_event(tr, &bytes, &[], n, BIGMAX, true);
                // bytes of a following PDU must be left alone: an incomplete header, a complete PDU
                dec_event(tr, &bytes, &[4, 0, 0], n + 3, BIGMAX, false);
                dec_event(tr, &bytes, &[5, 0, 0, 0, 0, 4, 0, 0, 0, 0], n + 10, BIGMAX, true);
                cnt.decs += 3;
            }
            cnt.prefixes += n;
            prefixes_event(tr, &bytes, BIGMAX, false);
            if !light {
                cnt.prefixes += n;
                prefixes_event(tr, &bytes, BIGMAX, true);
            }
        }
    }
}

fn run_big_case(tr: &mut Tr, shape: &str, n: usize, writable: Option<bool>, rep: &mut Report, cnt: &mut Counts) {
    let pdu = big_pdu(shape, n);
    match write_real(&pdu) {
        Err(p) => tr.emit(json!({"ev": "big", "shape": shape, "n": n, "res": "panic", "msg": p})),
        Ok(Err(e)) => {
            cnt.enc_err += 1;
            tr.emit(json!({"ev": "big", "shape": shape, "n": n, "res": "err", "msg": e}));
            if writable == Some(true) {
                rep.mismatch(json!({"what": "write_pdu failed on a PDU TLC says is writable", "shape": shape, "n": n}));
            }
        }
        Ok(Ok(bytes)) => {
            cnt.enc_ok += 1;
            tr.emit(json!({"ev": "big", "shape": shape, "n": n, "res": "ok", "len": bytes.len(), "bytes_rl": rl(&bytes)}));
            if writable == Some(false) {
                rep.mismatch(json!({"what": "write_pdu succeeded on a PDU TLC says is not writable", "shape": shape, "n": n,
                                    "len": bytes.len()}));
            }
            let l = bytes.len();
            dec_event(tr, &bytes, &[], l, BIGMAX, false);
            cnt.decs += 1;
            cnt.prefixes += l;
            prefixes_event(tr, &bytes, BIGMAX, false);
        }
    }
}

fn pattern(n: usize, salt: usize) -> Vec<u8> {
    (0..n).map(|i| ((i * 7 + salt * 31) % 251) as u8).collect()
}

/// strict-mode case: one P-DATA PDU whose PDU-length field is `plen`, read with (max, strict)
fn run_strict_case(tr: &mut Tr, c: &Value, rep: &mut Report, cnt: &mut Counts) {
    let max = j_usize(&c["max"]) as u32;
    let strict = jbool(&c["strict"]);
    // the PDU (of any kind) whose PDU-length field is `plen` is given by TLC (StrictPdu in Gen_PS38Pdu.tla)
    let pdu = pdu_from_json(&c["pdu"]);
    let pj = pdu_to_json(&pdu);
    match write_real(&pdu) {
        Ok(Ok(bytes)) => {
            cnt.enc_ok += 1;
            tr.emit(json!({"ev": "enc", "pdu": pj, "res": "ok", "bytes": bytes_json(&bytes)}));
            let n = bytes.len();
            let full = dec_event(tr, &bytes, &[], n, max, strict);
            let hdr = dec_event(tr, &bytes, &[], 6, max, strict);
            let short = dec_event(tr, &bytes, &[], n - 1, max, strict);
            cnt.decs += 3;
            let exp = &c["exp"];
            let code = |k: &str| match k {
                "Ok" => "pdu",
                "Incomplete" => "none",
                _ => "err",
            };
            if code(j_str(&exp["full"])) != full || (code(j_str(&exp["hdr"])) != hdr) || (code(j_str(&exp["short"])) != short) {
                rep.mismatch(json!({"what": "strict-mode outcome differs from ReadPdu", "case": c, "full": full, "hdr": hdr, "short": short}));
            }
        }
        other => {
            tr.emit(json!({"ev": "enc", "pdu": pj, "res": "err", "msg": format!("{other:?}").chars().take(200).collect::<String>()}));
        }
    }
}

// ----------------------------------------------------------------------------- random PDUs (documented repertoires)

fn r_len(rng: &mut Rng, big_ok: bool) -> usize {
    match rng.below(100) {
        0..=59 => rng.below(17) as usize,
        60..=89 => rng.below(300) as usize,
        90..=97 => rng.below(3000) as usize,
        _ => {
            if big_ok {
                rng.below(40000) as usize
            } else {
                rng.below(3000) as usize
            }
        }
    }
}
/// AE title: 1..=16 characters of the ISO 646 G0 set without backslash, no leading/trailing space
fn r_ae(rng: &mut Rng) -> String {
    let n = 1 + rng.below(16) as usize;
    let mut s: Vec<u8> = (0..n)
        .map(|_| loop {
            let c = 0x20 + rng.below(0x5f) as u8;
            if c != b'\\' {
                break c;
            }
        })
        .collect();
    for i in [0, n - 1] {
        while s[i] == b' ' || s[i] == b'\\' {
            s[i] = 0x21 + rng.below(0x5e) as u8;
        }
    }
    String::from_utf8(s).unwrap()
}
/// UID: dot-separated numeric components, no leading zeros, at most 64 characters
fn r_uid(rng: &mut Rng) -> String {
    let comps = 1 + rng.below(10);
    let mut s = String::new();
    for i in 0..comps {
        let digits = 1 + rng.below(8) as u32;
        let c = if rng.below(5) == 0 { "0".to_string() } else { format!("{}", 1 + rng.below(10u64.pow(digits))) };
        if s.len() + c.len() + 1 > 64 {
            break;
        }
        if i > 0 {
            s.push('.');
        }
        s.push_str(&c);
    }
    s
}
/// implementation version name: 1..=16 G0 characters, no leading/trailing space
fn r_name(rng: &mut Rng) -> String {
    r_ae(rng)
}
fn r_uv(rng: &mut Rng, big_ok: bool) -> UserVariableItem {
    match rng.below(8) {
        0 => UserVariableItem::MaxLength(match rng.below(4) {
            0 => 0,
            1 => 16384,
            2 => u32::MAX,
            _ => rng.next_u64() as u32,
        }),
        1 => UserVariableItem::ImplementationClassUID(r_uid(rng)),
        2 => UserVariableItem::ImplementationVersionName(r_name(rng)),
        3 => UserVariableItem::ScuScpRoleSelectionSubItem(r_uid(rng), RequestorRoles { scu: rng.coin(), scp: rng.coin() }),
        4 => {
            let n = r_len(rng, big_ok);
            UserVariableItem::SopClassExtendedNegotiationSubItem(r_uid(rng), rng.bytes(n))
        }
        5 => {
            let ty = match rng.below(5) {
                0 => UserIdentityType::Username,
                1 => UserIdentityType::UsernamePassword,
                2 => UserIdentityType::KerberosServiceTicket,
                3 => UserIdentityType::SamlAssertion,
                _ => UserIdentityType::Jwt,
            };
            let (a, b) = (r_len(rng, big_ok), r_len(rng, false));
            UserVariableItem::UserIdentityItem(UserIdentity::new(rng.coin(), ty, rng.bytes(a), rng.bytes(b)))
        }
        _ => {
            // a sub-item type that PS3.7 Annex D does not define
            let t = loop {
                let t = rng.below(256) as u8;
                if ![0x51, 0x52, 0x54, 0x55, 0x56, 0x58].contains(&t) {
                    break t;
                }
            };
            let n = r_len(rng, big_ok);
            UserVariableItem::Unknown(t, rng.bytes(n))
        }
    }
}
fn r_uvs(rng: &mut Rng) -> Vec<UserVariableItem> {
    let n = match rng.below(10) {
        0 => 0,
        1..=6 => 1 + rng.below(4),
        _ => 4 + rng.below(8),
    };
    let big_ok = rng.below(6) == 0;
    (0..n).map(|_| r_uv(rng, big_ok)).collect()
}
fn r_npc(rng: &mut Rng) -> u64 {
    match rng.below(10) {
        0 => 0,
        1..=7 => 1 + rng.below(5),
        8 => 5 + rng.below(30),
        _ => 128,
    }
}
fn random_pdu(rng: &mut Rng) -> Pdu {
    match rng.below(16) {
        0..=3 => Pdu::AssociationRQ(AssociationRQ {
            protocol_version: if rng.below(4) == 0 { rng.below(65536) as u16 } else { 1 },
            calling_ae_title: r_ae(rng),
            called_ae_title: r_ae(rng),
            application_context_name: r_uid(rng),
            presentation_contexts: (0..r_npc(rng))
                .map(|i| {
                    let nts = if rng.below(8) == 0 { 12 } else { 3 };
                    let nts = 1 + rng.below(nts);
                    PresentationContextProposed {
                        id: (2 * i + 1) as u8,
                        abstract_syntax: r_uid(rng),
                        transfer_syntaxes: (0..nts).map(|_| r_uid(rng)).collect(),
                    }
                })
                .collect(),
            user_variables: r_uvs(rng),
        }),
        4..=6 => Pdu::AssociationAC(AssociationAC {
            protocol_version: if rng.below(4) == 0 { rng.below(65536) as u16 } else { 1 },
            calling_ae_title: r_ae(rng),
            called_ae_title: r_ae(rng),
            application_context_name: r_uid(rng),
            presentation_contexts: (0..r_npc(rng))
                .map(|i| PresentationContextResult {
                    id: (2 * i + 1) as u8,
                    reason: pc_reason_from(rng.below(5) as usize),
                    transfer_syntax: r_uid(rng),
                })
                .collect(),
            user_variables: r_uvs(rng),
        }),
        7 => {
            let table: [(usize, &[usize]); 3] = [(1, &[1, 2, 3, 4, 5, 6, 7, 8, 9, 10]), (2, &[1, 2]), (3, &[0, 1, 2, 3, 4, 5, 6, 7])];
            let (s, rs) = table[rng.below(3) as usize];
            let r = *rng.pick(rs);
            Pdu::AssociationRJ(AssociationRJ {
                result: if rng.coin() { AssociationRJResult::Permanent } else { AssociationRJResult::Transient },
                source: rj_source_from(s, r),
            })
        }
        8..=11 => Pdu::PData {
            data: (0..match rng.below(8) {
                0 => 0,
                1..=5 => 1,
                _ => 2 + rng.below(4),
            })
                .map(|_| {
                    let n = r_len(rng, true);
                    PDataValue {
                        presentation_context_id: rng.below(256) as u8,
                        value_type: if rng.coin() { PDataValueType::Command } else { PDataValueType::Data },
                        is_last: rng.coin(),
                        data: rng.bytes(n),
                    }
                })
                .collect(),
        },
        12 => Pdu::ReleaseRQ,
        13 => Pdu::ReleaseRP,
        14 => {
            let s = rng.below(3) as usize;
            Pdu::AbortRQ { source: abort_from(s, if s == 2 { rng.below(7) as usize } else { 0 }) }
        }
        _ => {
            let t = loop {
                let t = rng.below(256) as u8;
                if !(1..=7).contains(&t) {
                    break t;
                }
            };
            let n = r_len(rng, true);
            Pdu::Unknown { pdu_type: t, data: rng.bytes(n) }
        }
    }
}

// ----------------------------------------------------------------------------- C27: reception over a segmented stream

struct Script {
    data: Vec<u8>,
    pos: usize,
    segs: VecDeque<usize>,
    log: Rc<RefCell<Vec<usize>>>,
    eof_calls: usize,
    pend_next: bool,
}
impl Script {
    fn new(data: Vec<u8>, segs: &[usize], log: Rc<RefCell<Vec<usize>>>) -> Script {
        Script { data, pos: 0, segs: segs.iter().copied().collect(), log, eof_calls: 0, pend_next: true }
    }
    /// next piece of at most `room` bytes according to the script (0 = end of stream)
    fn piece(&mut self, room: usize) -> &[u8] {
        let rem = self.data.len() - self.pos;
        if rem == 0 || room == 0 {
            self.eof_calls += 1;
            if self.eof_calls > 64 {
                panic!("receiver keeps reading at end of stream (hang budget)");
            }
            return &[];
        }
        let want = self.segs.front().copied().unwrap_or(rem).max(1);
        let k = want.min(rem).min(room);
        if let Some(f) = self.segs.front_mut() {
            if *f <= k {
                self.segs.pop_front();
            } else {
                *f -= k;
            }
        }
        self.log.borrow_mut().push(k);
        let s = &self.data[self.pos..self.pos + k];
        self.pos += k;
        s
    }
}
impl Read for Script {
    fn read(&mut self, buf: &mut [u8]) -> std::io::Result<usize> {
        let room = buf.len();
        let s = self.piece(room);
        buf[..s.len()].copy_from_slice(s);
        Ok(s.len())
    }
}
impl AsyncRead for Script {
    fn poll_read(mut self: Pin<&mut Self>, cx: &mut Context<'_>, buf: &mut ReadBuf<'_>) -> Poll<std::io::Result<()>> {
        if self.pend_next {
            // a Pending between any two pieces
            self.pend_next = false;
            cx.waker().wake_by_ref();
            return Poll::Pending;
        }
        self.pend_next = true;
        let room = buf.remaining();
        let s = self.piece(room).to_vec();
        buf.put_slice(&s);
        Poll::Ready(Ok(()))
    }
}

fn fnv(b: &[u8]) -> u32 {
    let mut h: u32 = 0x811c9dc5;
    for x in b {
        h ^= *x as u32;
        h = h.wrapping_mul(0x01000193);
    }
    h
}
/// abstract descriptor of a PDU: kind, encoded length, digest of its encoding (two 16-bit halves)
fn desc(p: &Pdu) -> Value {
    match write_real(p) {
        Ok(Ok(b)) => {
            let h = fnv(&b);
            json!({"k": kind_of(p), "len": b.len(), "h": [h >> 16, h & 0xffff]})
        }
        _ => json!({"k": "unencodable", "len": 0, "h": [0, 0]}),
    }
}

/// real PDU with an encoding of exactly `len` bytes, distinguishable by position `idx`
fn pdu_of_len(len: usize, idx: usize) -> Pdu {
    assert!(len >= 6);
    if len == 10 {
        return match idx % 5 {
            0 => Pdu::ReleaseRQ,
            1 => Pdu::AbortRQ { source: AbortRQSource::ServiceUser },
            2 => Pdu::ReleaseRP,
            3 => Pdu::AssociationRJ(AssociationRJ {
                result: AssociationRJResult::Permanent,
                source: AssociationRJSource::ServiceUser(AssociationRJServiceUserReason::NoReasonGiven),
            }),
            _ => Pdu::Unknown { pdu_type: 0x40 + idx as u8, data: pattern(4, idx) },
        };
    }
    if len >= 12 {
        return Pdu::PData {
            data: vec![PDataValue {
                presentation_context_id: (2 * idx + 1) as u8,
                value_type: if idx % 2 == 0 { PDataValueType::Data } else { PDataValueType::Command },
                is_last: idx % 3 != 0,
                data: pattern(len - 12, idx),
            }],
        };
    }
    Pdu::Unknown { pdu_type: 0x20 + idx as u8, data: pattern(len - 6, idx) }
}

struct WireOut {
    rests: Vec<usize>,
    nrecv: usize,
    events: usize,
}

fn run_wire_case(tr: &mut Tr, rt: &tokio::runtime::Runtime, pdus: &[Pdu], segs: &[usize], is_async: bool, max: u32, strict: bool) -> WireOut {
    let mut stream = Vec::new();
    let mut descs = Vec::new();
    for p in pdus {
        let b = write_real(p).expect("write_pdu panicked on a harness PDU").expect("write_pdu failed on a harness PDU");
        descs.push(desc(p));
        stream.extend_from_slice(&b);
    }
    let total = stream.len();
    tr.emit(json!({"ev": "wreset", "mode": if is_async { "async" } else { "sync" }, "sent": descs, "total": total,
                   "strict": strict, "max": max}));
    let mut events = 1;
    let log = Rc::new(RefCell::new(Vec::new()));
    let mut reader = Script::new(stream, segs, log.clone());
    let mut rb = BytesMut::new();
    let mut out = WireOut { rests: vec![], nrecv: 0, events: 0 };
    for _ in 0..pdus.len() + 1 {
        let r = if is_async {
            catch(|| rt.block_on(read_pdu_from_wire_async(&mut reader, &mut rb, max, strict)))
        } else {
            catch(|| read_pdu_from_wire(&mut reader, &mut rb, max, strict))
        };
        // the pieces handed over during this receive: one event (total bytes, number of reads)
        let pieces: Vec<usize> = log.borrow_mut().drain(..).collect();
        if !pieces.is_empty() {
            tr.emit(json!({"ev": "deliver", "k": pieces.iter().sum::<usize>(), "reads": pieces.len(),
                           "first": pieces[0], "last": pieces[pieces.len() - 1]}));
            events += 1;
        }
        events += 1;
        match r {
            Ok(Ok(p)) => {
                out.nrecv += 1;
                out.rests.push(rb.len());
                tr.emit(json!({"ev": "recv", "res": "pdu", "pdu": desc(&p), "rest": rb.len()}));
            }
            Ok(Err(dicom_ul::association::Error::ConnectionClosed { .. })) => {
                tr.emit(json!({"ev": "recv", "res": "closed", "rest": rb.len()}));
                break;
            }
            Ok(Err(e)) => {
                tr.emit(json!({"ev": "recv", "res": "err", "msg": short(&e), "rest": rb.len()}));
                break;
            }
            Err(p) => {
                tr.emit(json!({"ev": "recv", "res": "panic", "msg": p}));
                break;
            }
        }
    }
    tr.emit(json!({"ev": "wend"}));
    out.events = events + 1;
    out
}

fn random_segs(rng: &mut Rng, total: usize) -> Vec<usize> {
    let mut segs = Vec::new();
    let mut left = total;
    let mut style = rng.below(6);
    if total > 4000 && style <= 1 {
        style = 5;
    }
    while left > 0 {
        let k = match style {
            0 => 1,
            1 => 1 + rng.below(3) as usize,
            2 => 1 + rng.below(16) as usize,
            3 => 1 + rng.below(1 + left as u64) as usize,
            4 => left,
            _ => match rng.below(4) {
                0 => 1,
                1 => 1 + rng.below(7) as usize,
                2 => 1 + rng.below(200) as usize,
                _ => 1 + rng.below(1 + left as u64) as usize,
            },
        }
        .min(left);
        segs.push(k);
        left -= k;
    }
    segs
}


// ----------------------------------------------------------------------------- growth: malformed PDUs (thorough tier)

fn read_obs(buf: &[u8], max: u32, strict: bool) -> Value {
    let (res, pdu, consumed, msg) = read_real(buf, buf.len(), max, strict);
    let mut o = json!({"res": res});
    if let Some(p) = pdu {
        o["pdu"] = pdu_to_json(&p);
        o["n"] = Value::from(consumed);
    }
    if !msg.is_empty() {
        o["msg"] = Value::from(msg);
    }
    o
}

/// up to two receives on `stream` through the real receiver; each: {res, pdu?, msg?, rest}
fn recv_obs(rt: &tokio::runtime::Runtime, stream: &[u8], segs: &[usize], is_async: bool) -> Vec<Value> {
    let log = Rc::new(RefCell::new(Vec::new()));
    let mut reader = Script::new(stream.to_vec(), segs, log);
    let mut rb = BytesMut::new();
    let mut out = Vec::new();
    for _ in 0..2 {
        let r = if is_async {
            catch(|| rt.block_on(read_pdu_from_wire_async(&mut reader, &mut rb, BIGMAX, false)))
        } else {
            catch(|| read_pdu_from_wire(&mut reader, &mut rb, BIGMAX, false))
        };
        match r {
            Ok(Ok(p)) => out.push(json!({"res": "pdu", "pdu": pdu_to_json(&p), "rest": rb.len()})),
            Ok(Err(dicom_ul::association::Error::ConnectionClosed { .. })) => {
                out.push(json!({"res": "closed", "rest": rb.len()}));
                break;
            }
            Ok(Err(e)) => {
                out.push(json!({"res": "err", "msg": short(&snafu_chain(&e)), "rest": rb.len()}));
                break;
            }
            Err(p) => {
                out.push(json!({"res": "panic", "msg": p}));
                break;
            }
        }
    }
    out
}

fn snafu_chain(e: &dyn std::error::Error) -> String {
    let mut s = e.to_string();
    let mut cur = e.source();
    while let Some(c) = cur {
        s.push_str(": ");
        s.push_str(&c.to_string());
        cur = c.source();
    }
    s
}


// ----------------------------------------------------------------------------- growth: scpproxy (thorough tier)

mod proxy {
    use super::*;
    use std::io::{BufRead, BufReader, Write};
    use std::net::{TcpListener, TcpStream};
    use std::process::{Child, Command, Stdio};
    use std::sync::mpsc;
    use std::time::{Duration, Instant};

    pub const PMAX: u32 = 16378;
    const WAIT: Duration = Duration::from_secs(4);

    pub struct ProxyProc {
        pub child: Child,
        pub port: u16,
        pub strict: bool,
    }

    fn free_port() -> u16 {
        TcpListener::bind("127.0.0.1:0").unwrap().local_addr().unwrap().port()
    }

    pub fn spawn(bin: &str, server_port: u16, strict: bool) -> ProxyProc {
        for _ in 0..20 {
            let port = free_port();
            let mut cmd = Command::new(bin);
            cmd.args(["127.0.0.1", &server_port.to_string(), "-l", &port.to_string(), "-m", &PMAX.to_string(), "-v"]);
            if strict {
                cmd.arg("-s");
            }
            // the proxy's stderr (panic messages) is appended to <VERIF_PROXY_STDERR> when set
            let err = match std::env::var("VERIF_PROXY_STDERR") {
                Ok(p) => Stdio::from(std::fs::OpenOptions::new().create(true).append(true).open(p).expect("stderr file")),
                Err(_) => Stdio::null(),
            };
            let mut child = cmd.stdout(Stdio::piped()).stderr(err).stdin(Stdio::null()).spawn().expect("spawn scpproxy");
            let out = child.stdout.take().unwrap();
            let (tx, rx) = mpsc::channel();
            std::thread::spawn(move || {
                for line in BufReader::new(out).lines().map_while(Result::ok) {
                    if line.starts_with("listening on") {
                        let _ = tx.send(());
                    }
                }
            });
            if rx.recv_timeout(Duration::from_secs(10)).is_ok() {
                return ProxyProc { child, port, strict };
            }
            let _ = child.kill();
            let _ = child.wait();
        }
        panic!("harness: could not start scpproxy");
    }

    fn maxlen_rq(m: u32) -> Pdu {
        Pdu::AssociationRQ(AssociationRQ {
            protocol_version: 1,
            calling_ae_title: "SCU".into(),
            called_ae_title: "ANY-SCP".into(),
            application_context_name: "1.2.840.10008.3.1.1.1".into(),
            presentation_contexts: vec![PresentationContextProposed {
                id: 1,
                abstract_syntax: "1.2.840.10008.1.1".into(),
                transfer_syntaxes: vec!["1.2.840.10008.1.2".into(), "1.2.840.10008.1.2.1".into()],
            }],
            user_variables: vec![
                UserVariableItem::MaxLength(m),
                UserVariableItem::ImplementationClassUID("1.2.3.4".into()),
                UserVariableItem::ImplementationVersionName("V".into()),
            ],
        })
    }
    fn maxlen_ac(m: u32) -> Pdu {
        Pdu::AssociationAC(AssociationAC {
            protocol_version: 1,
            calling_ae_title: "SCU".into(),
            called_ae_title: "ANY-SCP".into(),
            application_context_name: "1.2.840.10008.3.1.1.1".into(),
            presentation_contexts: vec![PresentationContextResult {
                id: 1,
                reason: PresentationContextResultReason::Acceptance,
                transfer_syntax: "1.2.840.10008.1.2".into(),
            }],
            user_variables: vec![UserVariableItem::ImplementationClassUID("1.2.3.5".into()), UserVariableItem::MaxLength(m)],
        })
    }
    fn pdata(n: usize, salt: usize, two: bool) -> Pdu {
        let mut data = vec![PDataValue {
            presentation_context_id: 1,
            value_type: PDataValueType::Command,
            is_last: true,
            data: pattern(n, salt),
        }];
        if two {
            data.push(PDataValue { presentation_context_id: 1, value_type: PDataValueType::Data, is_last: false, data: pattern(5, salt + 1) });
        }
        Pdu::PData { data }
    }
    pub fn pdu_of_kind(kind: &str, idx: usize) -> Pdu {
        match kind {
            "rq0" => maxlen_rq(0),
            "rq16384" => maxlen_rq(16384),
            "rqmax" => maxlen_rq(u32::MAX),
            "ac16384" => maxlen_ac(16384),
            "acmax" => maxlen_ac(u32::MAX),
            "pdata" => pdata(40 + idx, idx, false),
            "pdata2" => pdata(3, idx, true),
            "pdatabig" => pdata(PMAX as usize + 50, idx, false),
            "rrq" => Pdu::ReleaseRQ,
            "rrp" => Pdu::ReleaseRP,
            "abort" => Pdu::AbortRQ { source: AbortRQSource::ServiceUser },
            "rj" => Pdu::AssociationRJ(AssociationRJ {
                result: AssociationRJResult::Transient,
                source: AssociationRJSource::ServiceProviderPresentation(AssociationRJServiceProviderPresentationReason::LocalLimitExceeded),
            }),
            "unknown" => Pdu::Unknown { pdu_type: 0x42, data: pattern(9, idx) },
            k => panic!("harness: unknown proxy PDU kind {k}"),
        }
    }

    fn write_frames(tr: &mut Tr, s: &mut TcpStream, by: &str, frames: &[Vec<u8>], seg: &str) {
        for f in frames {
            tr.emit(json!({"ev": "psend", "by": by, "frame": bytes_json(f)}));
        }
        let all: Vec<u8> = frames.concat();
        let r = match seg {
            "whole" => s.write_all(&all),
            "pdu" => frames.iter().try_for_each(|f| s.write_all(f).and_then(|_| s.flush())),
            _ => {
                let step = if all.len() > 400 { 97 } else { 1 };
                all.chunks(step).try_for_each(|c| s.write_all(c).and_then(|_| s.flush()))
            }
        };
        if let Err(e) = r {
            tr.emit(json!({"ev": "pnote", "what": format!("write by {by} failed: {e}")}));
        }
    }

    /// read until `want` bytes arrived, the end of the stream, or the time budget; returns (bytes, eof, timed_out)
    fn read_upto(s: &mut TcpStream, want: usize, until_eof: bool) -> (Vec<u8>, bool, bool) {
        let mut got = Vec::new();
        let mut buf = [0u8; 65536];
        let t0 = Instant::now();
        s.set_read_timeout(Some(Duration::from_millis(200))).unwrap();
        loop {
            if !until_eof && got.len() >= want {
                return (got, false, false);
            }
            match std::io::Read::read(s, &mut buf) {
                Ok(0) => return (got, true, false),
                Ok(n) => got.extend_from_slice(&buf[..n]),
                Err(e) if e.kind() == std::io::ErrorKind::WouldBlock || e.kind() == std::io::ErrorKind::TimedOut => {
                    if t0.elapsed() > WAIT {
                        return (got, false, true);
                    }
                }
                // a reset connection is an end of stream for the peer
                Err(_) => return (got, true, false),
            }
        }
    }

    fn emit_arrived(tr: &mut Tr, to: &str, got: &[u8], eof: bool, timed_out: bool) {
        let mut i = 0;
        while got.len() - i >= 6 {
            let l = u32::from_be_bytes([got[i + 2], got[i + 3], got[i + 4], got[i + 5]]) as usize;
            if got.len() - i < 6 + l {
                break;
            }
            tr.emit(json!({"ev": "pfwd", "to": to, "frame": bytes_json(&got[i..i + 6 + l])}));
            i += 6 + l;
        }
        if i < got.len() {
            tr.emit(json!({"ev": "pstray", "to": to, "n": got.len() - i}));
        }
        if eof {
            tr.emit(json!({"ev": "peof", "at": to}));
        }
        if timed_out {
            tr.emit(json!({"ev": "ptimeout", "at": to}));
        }
    }

    pub struct Outcome {
        pub died: bool,
    }

    pub fn run_case(tr: &mut Tr, listener: &TcpListener, px: &mut ProxyProc, c: &Value) -> Outcome {
        let kinds = |k: &str| -> Vec<Vec<u8>> {
            j_arr(&c[k]).iter().enumerate().map(|(i, x)| write_real(&pdu_of_kind(j_str(x), i)).unwrap().unwrap()).collect()
        };
        let (c2s, s2c) = (kinds("c2s"), kinds("s2c"));
        let closer = j_str(&c["closer"]);
        let early = jbool(&c["early"]);
        let seg = j_str(&c["seg"]);
        tr.emit(json!({"ev": "preset", "max": [PMAX >> 16, PMAX & 0xffff], "strict": px.strict, "scenario": c}));
        let mut cli = match TcpStream::connect(("127.0.0.1", px.port)) {
            Ok(s) => s,
            Err(e) => {
                tr.emit(json!({"ev": "pnote", "what": format!("connect to proxy failed: {e}")}));
                return Outcome { died: px.child.try_wait().ok().flatten().is_some() };
            }
        };
        cli.set_nodelay(true).ok();
        listener.set_nonblocking(true).unwrap();
        let t0 = Instant::now();
        let mut srv = loop {
            match listener.accept() {
                Ok((s, _)) => break Some(s),
                Err(_) if t0.elapsed() < WAIT => std::thread::sleep(Duration::from_millis(2)),
                Err(_) => break None,
            }
        };
        let Some(srv) = srv.as_mut() else {
            tr.emit(json!({"ev": "pnote", "what": "proxy did not connect to the destination"}));
            return Outcome { died: px.child.try_wait().ok().flatten().is_some() };
        };
        srv.set_nonblocking(false).unwrap();
        srv.set_nodelay(true).ok();

        if c.get("hazard").and_then(|h| h.as_bool()).unwrap_or(false) {
            // the SCP goes away at once; the SCU keeps writing PDU after PDU
            let _ = srv.shutdown(std::net::Shutdown::Both);
            tr.emit(json!({"ev": "pclose", "by": "s"}));
            for f in &c2s {
                tr.emit(json!({"ev": "psend", "by": "c", "frame": bytes_json(f)}));
                if cli.write_all(f).is_err() {
                    break;
                }
                std::thread::sleep(Duration::from_millis(2));
            }
            let (got, e, to) = read_upto(&mut cli, 0, true);
            emit_arrived(tr, "c", &got, e, to);
            tr.emit(json!({"ev": "pend", "closer": "s"}));
            drop(cli);
            std::thread::sleep(Duration::from_millis(20));
            let died = px.child.try_wait().ok().flatten().is_some();
            if died {
                tr.emit(json!({"ev": "pnote", "what": "scpproxy process exited"}));
            }
            return Outcome { died };
        }
        // 1. the SCU writes; (early) closes at once
        write_frames(tr, &mut cli, "c", &c2s, seg);
        let mut cli_open = true;
        if early {
            let _ = cli.shutdown(std::net::Shutdown::Both);
            cli_open = false;
            tr.emit(json!({"ev": "pclose", "by": "c"}));
        }
        // 2. the SCP receives
        let want: usize = c2s.iter().map(|f| f.len()).sum();
        let (got, eof_s, to) = read_upto(srv, want, early);
        emit_arrived(tr, "s", &got, eof_s, to);
        let mut eof_c = false;
        if !early {
            // 3. the SCP writes, the SCU receives
            write_frames(tr, srv, "s", &s2c, seg);
            let want: usize = s2c.iter().map(|f| f.len()).sum();
            let (got, e, to) = read_upto(&mut cli, want, false);
            eof_c = e;
            emit_arrived(tr, "c", &got, e, to);
            // 4. the closer closes, the other peer reads to the end of the stream
            if closer == "c" {
                let _ = cli.shutdown(std::net::Shutdown::Both);
                cli_open = false;
                tr.emit(json!({"ev": "pclose", "by": "c"}));
                if !eof_s {
                    let (got, e, to) = read_upto(srv, 0, true);
                    emit_arrived(tr, "s", &got, e, to);
                }
            } else {
                let _ = srv.shutdown(std::net::Shutdown::Both);
                tr.emit(json!({"ev": "pclose", "by": "s"}));
                if !eof_c {
                    let (got, e, to) = read_upto(&mut cli, 0, true);
                    emit_arrived(tr, "c", &got, e, to);
                }
            }
        }
        tr.emit(json!({"ev": "pend", "closer": if early { "c" } else { closer }}));
        let _ = cli_open;
        drop(cli);
        std::thread::sleep(Duration::from_millis(3));
        let died = px.child.try_wait().ok().flatten().is_some();
        if died {
            tr.emit(json!({"ev": "pnote", "what": "scpproxy process exited"}));
        }
        Outcome { died }
    }
}

// ----------------------------------------------------------------------------- main

fn main() {
    quiet_panics();
    let args = args_map();
    let mode = args.get("_0").cloned().unwrap_or_default();
    let out_dir = args.get("out").cloned().expect("--out");
    std::fs::create_dir_all(&out_dir).unwrap();
    let mut rep = Report::new();
    rep.cap = 40;
    let mut cnt = Counts { enc_ok: 0, enc_err: 0, decs: 0, prefixes: 0 };
    let seed = seed_from_env();
    let mut files: Vec<Value> = Vec::new();

    match mode.as_str() {
        "replay" => {
            let cases = read_ndjson(args.get("cases").expect("--cases"));
            let mut tr = Tr::new(&out_dir, "trace_codec.ndjson");
            // the oversize cases go to their own (small) trace file
            let mut trb = Tr::new(&out_dir, "trace_codec_big.ndjson");
            let mut kinds = std::collections::BTreeMap::<String, usize>::new();
            for c in &cases {
                rep.cases += 1;
                if c.get("big").is_some() {
                    run_big_case(&mut trb, j_str(&c["shape"]), j_usize(&c["n"]), c["writable"].as_bool(), &mut rep, &mut cnt);
                    *kinds.entry("big".into()).or_default() += 1;
                } else if c.get("strictcase").is_some() {
                    run_strict_case(&mut tr, c, &mut rep, &mut cnt);
                    *kinds.entry("strict".into()).or_default() += 1;
                } else {
                    let pj = &c["pdu"];
                    let pdu = pdu_from_json(pj);
                    let exp = j_bytes(&c["bytes"]);
                    run_pdu_case(&mut tr, pj, &pdu, Some(&exp), &mut rep, &mut cnt, false);
                    *kinds.entry(kind_of(&pdu).into()).or_default() += 1;
                }
            }
            rep.extra.insert("kinds".into(), json!(kinds));
            for t in [tr, trb] {
                let path = t.path.clone();
                let n = t.w.finish();
                if n > 0 {
                    files.push(json!({"path": path, "events": n}));
                }
            }
        }
        "random" => {
            let n = args.get("n").map(|s| s.parse::<usize>().unwrap()).unwrap_or(200);
            let mut rng = Rng::new(seed ^ 0xC25);
            let mut tr = Tr::new(&out_dir, "trace_codec_random.ndjson");
            let mut kinds = std::collections::BTreeMap::<String, usize>::new();
            let mut maxlen = 0usize;
            for _ in 0..n {
                rep.cases += 1;
                let pdu = random_pdu(&mut rng);
                let pj = pdu_to_json(&pdu);
                *kinds.entry(kind_of(&pdu).into()).or_default() += 1;
                let before = cnt.prefixes;
                run_pdu_case(&mut tr, &pj, &pdu, None, &mut rep, &mut cnt, true);
                maxlen = maxlen.max(cnt.prefixes - before);
            }
            rep.extra.insert("kinds".into(), json!(kinds));
            rep.extra.insert("max_encoded_len".into(), json!(maxlen));
            let path = tr.path.clone();
            let nl = tr.w.finish();
            files.push(json!({"path": path, "events": nl}));
        }
        "mutants" => {
            // observations only: python compares them with the outcomes PS38PduLenient.tla allows
            let rt = tokio::runtime::Builder::new_current_thread().enable_all().build().unwrap();
            let cases = read_ndjson(args.get("cases").expect("--cases"));
            let path = format!("{out_dir}/observed.ndjson");
            let mut w = NdjsonWriter::create(&path);
            let next: [u8; 10] = [5, 0, 0, 0, 0, 4, 0, 0, 0, 0];
            for (i, c) in cases.iter().enumerate() {
                rep.cases += 1;
                let b = j_bytes(&c["bytes"]);
                let mut stream = b.clone();
                stream.extend_from_slice(&next);
                let ones: Vec<usize> = vec![1; stream.len()];
                let mut rx = Vec::new();
                for is_async in [false, true] {
                    for (sn, segs) in [("whole", vec![stream.len()]), ("ones", ones.clone())] {
                        rx.push(json!({"async": is_async, "seg": sn, "recv": recv_obs(&rt, &stream, &segs, is_async)}));
                    }
                }
                w.emit(&json!({"i": i, "read": read_obs(&b, BIGMAX, false), "read_strict": read_obs(&b, BIGMAX, true), "rx": rx}));
            }
            let n = w.finish();
            files.push(json!({"path": path, "events": n}));
        }
        "proxy" => {
            let bin = args.get("proxy-bin").expect("--proxy-bin").clone();
            let cases = read_ndjson(args.get("cases").expect("--cases"));
            let listener = std::net::TcpListener::bind("127.0.0.1:0").unwrap();
            let sport = listener.local_addr().unwrap().port();
            let mut tr = Tr::new(&out_dir, "trace_proxy.ndjson");
            let mut px = [proxy::spawn(&bin, sport, false), proxy::spawn(&bin, sport, true)];
            let mut deaths = 0usize;
            for c in &cases {
                rep.cases += 1;
                let k = if jbool(&c["strict"]) { 1 } else { 0 };
                let o = proxy::run_case(&mut tr, &listener, &mut px[k], c);
                if o.died {
                    deaths += 1;
                    let _ = px[k].child.wait();
                    px[k] = proxy::spawn(&bin, sport, k == 1);
                }
            }
            for p in px.iter_mut() {
                let _ = p.child.kill();
                let _ = p.child.wait();
            }
            rep.extra.insert("proxy_deaths".into(), json!(deaths));
            let path = tr.path.clone();
            let n = tr.w.finish();
            files.push(json!({"path": path, "events": n}));
        }
        "wire-replay" | "wire-random" => {
            let rt = tokio::runtime::Builder::new_current_thread().enable_all().build().unwrap();
            let mut tr = Tr::new(&out_dir, if mode == "wire-replay" { "trace_wire.ndjson" } else { "trace_wire_random.ndjson" });
            let mut wire_cases = 0usize;
            let mut events = 0usize;
            let mut segs_total = 0usize;
            if mode == "wire-replay" {
                let cases = read_ndjson(args.get("cases").expect("--cases"));
                for (ci, c) in cases.iter().enumerate() {
                    rep.cases += 1;
                    let lens: Vec<usize> = j_arr(&c["lens"]).iter().map(j_usize).collect();
                    let segs: Vec<usize> = j_arr(&c["segs"]).iter().map(j_usize).collect();
                    let exp_rests: Vec<usize> = j_arr(&c["rests"]).iter().map(j_usize).collect();
                    let pdus: Vec<Pdu> = lens.iter().enumerate().map(|(i, l)| pdu_of_len(*l, i)).collect();
                    for (i, p) in pdus.iter().enumerate() {
                        let b = write_real(p).unwrap().unwrap();
                        assert_eq!(b.len(), lens[i], "harness: pdu_of_len produced a wrong size");
                    }
                    segs_total += segs.len();
                    for is_async in [false, true] {
                        let o = run_wire_case(&mut tr, &rt, &pdus, &segs, is_async, 16384, ci % 2 == 0);
                        wire_cases += 1;
                        events += o.events;
                        if o.rests != exp_rests || o.nrecv != j_usize(&c["nrecv"]) {
                            rep.mismatch(json!({"what": "receive results differ from the WireRx model", "async": is_async, "case": c,
                                                "rests": o.rests, "nrecv": o.nrecv}));
                        }
                    }
                }
            } else {
                let n = args.get("n").map(|s| s.parse::<usize>().unwrap()).unwrap_or(100);
                let mut rng = Rng::new(seed ^ 0xC27);
                let mut kinds = std::collections::BTreeMap::<String, usize>::new();
                let mut case_i = 0;
                while case_i < n {
                    let k = 1 + rng.below(8) as usize;
                    let mut pdus = Vec::new();
                    while pdus.len() < k {
                        let p = random_pdu(&mut rng);
                        // only PDUs that have an encoding can be sent
                        if let Ok(Ok(b)) = write_real(&p) {
                            if b.len() <= 20000 {
                                *kinds.entry(kind_of(&p).into()).or_default() += 1;
                                pdus.push(p);
                            }
                        }
                    }
                    let total: usize = pdus.iter().map(|p| write_real(p).unwrap().unwrap().len()).sum();
                    let segs = random_segs(&mut rng, total);
                    segs_total += segs.len();
                    rep.cases += 1;
                    case_i += 1;
                    for is_async in [false, true] {
                        // strict only when every PDU respects the maximum
                        let o = run_wire_case(&mut tr, &rt, &pdus, &segs, is_async, 32768, false);
                        wire_cases += 1;
                        events += o.events;
                    }
                }
                rep.extra.insert("kinds".into(), json!(kinds));
                // real-size family: receivers configured with the minimum / a small / the usual maximum PDU length,
                // 2..=6 P-DATA-TF PDUs each close to that maximum, delivered coalesced in large single reads or in
                // segments of max+5 / max+6 / max+7 bytes; successive receives share the buffer
                let nbig = args.get("big").map(|s| s.parse::<usize>().unwrap()).unwrap_or(0);
                let mut big_cases = 0usize;
                for i in 0..nbig {
                    let max = [1018u32, 4096, 16384][i % 3];
                    let k = 2 + rng.below(5) as usize;
                    let pdus: Vec<Pdu> = (0..k)
                        .map(|j| {
                            // PDU length field = 6 + data length, between max-9 and max
                            let plen = max as usize - rng.below(10) as usize;
                            Pdu::PData {
                                data: vec![PDataValue {
                                    presentation_context_id: (2 * j + 1) as u8,
                                    value_type: if j % 2 == 0 { PDataValueType::Data } else { PDataValueType::Command },
                                    is_last: j + 1 == k,
                                    data: pattern(plen - 6, i * 7 + j),
                                }],
                            }
                        })
                        .collect();
                    let total: usize = pdus.iter().map(|p| write_real(p).unwrap().unwrap().len()).sum();
                    let segs: Vec<usize> = match (i / 3) % 6 {
                        0 => vec![total],
                        1 => vec![4096; total / 4096 + 1],
                        2 => vec![65536; total / 65536 + 1],
                        3 => vec![max as usize + 5; total / (max as usize + 5) + 1],
                        4 => vec![max as usize + 6; total / (max as usize + 6) + 1],
                        _ => vec![max as usize + 7; total / (max as usize + 7) + 1],
                    };
                    segs_total += segs.len();
                    rep.cases += 1;
                    for is_async in [false, true] {
                        let o = run_wire_case(&mut tr, &rt, &pdus, &segs, is_async, max, i % 2 == 0);
                        wire_cases += 1;
                        big_cases += 1;
                        events += o.events;
                    }
                }
                rep.extra.insert("big_cases".into(), json!(big_cases));
            }
            rep.extra.insert("wire_cases".into(), json!(wire_cases));
            rep.extra.insert("segments".into(), json!(segs_total));
            let path = tr.path.clone();
            let nl = tr.w.finish();
            let _ = events;
            files.push(json!({"path": path, "events": nl}));
        }
        m => panic!("unknown mode {m}"),
    }
    rep.extra.insert("trace_files".into(), Value::Array(files));
    rep.extra.insert("enc_ok".into(), json!(cnt.enc_ok));
    rep.extra.insert("enc_err".into(), json!(cnt.enc_err));
    rep.extra.insert("decs".into(), json!(cnt.decs));
    rep.extra.insert("prefixes".into(), json!(cnt.prefixes));
    rep.print();
}
