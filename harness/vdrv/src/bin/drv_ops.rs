//! C13 conformance driver: attribute operations on InMemDicomObject.
//!
//!   drv_ops replay --cases <ndjson> [--dump true] [--selftest true]
//!
//! Each case is a behaviour printed by TLC from specs/objects/Gen_ObjectOps.tla:
//!   { "init": "empty"|"seeded",
//!     "steps": [ { "sel": [{"tag":"S","item":0},..,{"tag":"T","item":0}],
//!                  "act": {"a":"SetStr","k":"","v":["A"],"vr":"","n":0},
//!                  "ok": true, "tree": <expected tree>, "sit": "<situation label>" } .. ],
//!     "rt": { "w": true, "ivr": <tree>, "evr": <tree> }       (optional)
//!   }
//! The driver maps the abstract tags/values to concrete ones (fixed table below),
//! applies every operation with `ApplyOp::apply` on a real InMemDicomObject,
//! projects the object (tags, VRs, value lists, nesting) after each step and
//! compares it for equality with the tree TLC computed.  When "rt" is present the
//! final object is written in IVRLE / EVRLE / EVRBE / Deflated EVRLE with
//! `write_dataset_with_ts`, read back with `read_dataset_with_ts`, projected and
//! compared with the expected read-back tree computed by TLC.
//! No expectation is computed here: the driver only transports and compares.
//!
//! Mismatch levels: "strict" = (vr of primitive elements, primitive/sequence shape,
//! value items as text, nesting, ok/err); "aux" = value kind, VR of sequence-valued
//! elements (implementation detail the documentation is silent about).

use dicom_core::header::Header;
use dicom_core::ops::{ApplyOp, AttributeAction, AttributeOp, AttributeSelector, AttributeSelectorStep};
use dicom_core::value::{DataSetSequence, PrimitiveValue, Value as DValue};
use dicom_core::{DataElement, Tag, VR};
use dicom_object::InMemDicomObject;
use dicom_transfer_syntax_registry::entries;
use serde_json::{json, Map, Value};
use std::str::FromStr;
use vcommon::*;

const TAGS: &[(&str, Tag)] = &[
    ("T", Tag(0x0008, 0x0008)), // ImageType CS 2-n      standard primitive (text)
    ("N", Tag(0x0028, 0x0010)), // Rows US               standard primitive (numeric)
    ("S", Tag(0x0008, 0x1140)), // ReferencedImageSequence SQ
    ("V", Tag(0x0009, 0x1001)), // private attribute
    ("U", Tag(0x7778, 0x0010)), // unknown attribute (even group, not in the dictionary)
];

fn tag_of(name: &str) -> Tag {
    TAGS.iter().find(|(n, _)| *n == name).map(|(_, t)| *t).unwrap_or_else(|| panic!("unknown abstract tag {name}"))
}
fn name_of(tag: Tag) -> String {
    TAGS.iter().find(|(_, t)| *t == tag).map(|(n, _)| n.to_string()).unwrap_or_else(|| format!("{tag}"))
}
fn vr_of(s: &str) -> VR {
    VR::from_str(s).unwrap_or_else(|_| panic!("bad VR {s}"))
}

fn strs(v: &Value) -> Vec<String> {
    j_arr(v).iter().map(|x| j_str(x).to_string()).collect()
}

fn prim_of(k: &str, v: &[String]) -> PrimitiveValue {
    fn nums<T: FromStr>(v: &[String]) -> Vec<T>
    where
        T::Err: std::fmt::Debug,
    {
        v.iter().map(|s| s.parse::<T>().expect("number")).collect()
    }
    match k {
        "Empty" => PrimitiveValue::Empty,
        "Str" => PrimitiveValue::Str(v[0].clone()),
        "Strs" | "Text" => PrimitiveValue::Strs(v.iter().cloned().collect()),
        "U16" => PrimitiveValue::U16(nums::<u16>(v).into()),
        "I16" => PrimitiveValue::I16(nums::<i16>(v).into()),
        "U32" => PrimitiveValue::U32(nums::<u32>(v).into()),
        "I32" => PrimitiveValue::I32(nums::<i32>(v).into()),
        "F32" => PrimitiveValue::F32(nums::<f32>(v).into()),
        "F64" => PrimitiveValue::F64(nums::<f64>(v).into()),
        "U8" => PrimitiveValue::U8(nums::<u8>(v).into()),
        _ => panic!("bad value kind {k}"),
    }
}

fn decode_sel(j: &Value) -> AttributeSelector {
    let steps = j_arr(j);
    let n = steps.len();
    let it = steps.iter().enumerate().map(|(i, s)| {
        let tag = tag_of(j_str(&s["tag"]));
        if i + 1 == n {
            AttributeSelectorStep::Tag(tag)
        } else {
            AttributeSelectorStep::Nested { tag, item: j_usize(&s["item"]) as u32 }
        }
    });
    AttributeSelector::new(it).expect("selector")
}

fn decode_act(a: &Value) -> AttributeAction {
    let name = j_str(&a["a"]);
    let k = a["k"].as_str().unwrap_or("");
    let v = if a["v"].is_array() { strs(&a["v"]) } else { vec![] };
    let s0 = || v.first().cloned().unwrap_or_default();
    match name {
        "Remove" => AttributeAction::Remove,
        "Empty" => AttributeAction::Empty,
        "SetVr" => AttributeAction::SetVr(vr_of(j_str(&a["vr"]))),
        "Set" => AttributeAction::Set(prim_of(k, &v)),
        "SetStr" => AttributeAction::SetStr(s0().into()),
        "SetIfMissing" => AttributeAction::SetIfMissing(prim_of(k, &v)),
        "SetStrIfMissing" => AttributeAction::SetStrIfMissing(s0().into()),
        "Replace" => AttributeAction::Replace(prim_of(k, &v)),
        "ReplaceStr" => AttributeAction::ReplaceStr(s0().into()),
        "PushStr" => AttributeAction::PushStr(s0().into()),
        "PushI32" => AttributeAction::PushI32(s0().parse().unwrap()),
        "PushU32" => AttributeAction::PushU32(s0().parse().unwrap()),
        "PushI16" => AttributeAction::PushI16(s0().parse().unwrap()),
        "PushU16" => AttributeAction::PushU16(s0().parse().unwrap()),
        "PushF32" => AttributeAction::PushF32(s0().parse().unwrap()),
        "PushF64" => AttributeAction::PushF64(s0().parse().unwrap()),
        "Truncate" => AttributeAction::Truncate(j_usize(&a["n"])),
        _ => panic!("bad action {name}"),
    }
}

fn fnum(x: f64) -> String {
    if x.fract() == 0.0 && x.abs() < 1e15 {
        format!("{}", x as i64)
    } else {
        format!("{x}")
    }
}

fn trim_pad(s: &str) -> String {
    s.trim_end_matches([' ', '\0']).to_string()
}

/// value kind (class) and the items as text
fn project_prim(p: &PrimitiveValue) -> (&'static str, Vec<String>) {
    use PrimitiveValue::*;
    match p {
        Empty => ("Empty", vec![]),
        Str(s) => ("Text", vec![trim_pad(s)]),
        Strs(v) => ("Text", v.iter().map(|s| trim_pad(s)).collect()),
        U8(v) => ("U8", v.iter().map(|x| x.to_string()).collect()),
        U16(v) => ("U16", v.iter().map(|x| x.to_string()).collect()),
        I16(v) => ("I16", v.iter().map(|x| x.to_string()).collect()),
        U32(v) => ("U32", v.iter().map(|x| x.to_string()).collect()),
        I32(v) => ("I32", v.iter().map(|x| x.to_string()).collect()),
        U64(v) => ("U64", v.iter().map(|x| x.to_string()).collect()),
        I64(v) => ("I64", v.iter().map(|x| x.to_string()).collect()),
        F32(v) => ("F32", v.iter().map(|x| fnum(*x as f64)).collect()),
        F64(v) => ("F64", v.iter().map(|x| fnum(*x)).collect()),
        Tags(v) => ("Tags", v.iter().map(|x| x.to_string()).collect()),
        Date(v) => ("Date", v.iter().map(|x| x.to_string()).collect()),
        Time(v) => ("Time", v.iter().map(|x| x.to_string()).collect()),
        DateTime(v) => ("DateTime", v.iter().map(|x| x.to_string()).collect()),
    }
}

fn project(obj: &InMemDicomObject) -> Value {
    let mut m = Map::new();
    for e in obj.iter() {
        let name = name_of(e.tag());
        let vr = e.vr().to_string().to_string();
        let el = match e.value() {
            DValue::Primitive(p) => {
                let (k, v) = project_prim(p);
                json!({"vr": vr, "k": k, "v": v, "items": []})
            }
            DValue::Sequence(seq) => {
                let items: Vec<Value> = seq.items().iter().map(project).collect();
                json!({"vr": vr, "k": "Seq", "v": [], "items": items})
            }
            DValue::PixelSequence(_) => json!({"vr": vr, "k": "Pix", "v": [], "items": []}),
        };
        m.insert(name, el);
    }
    Value::Object(m)
}

fn as_tree(v: &Value) -> Map<String, Value> {
    match v {
        Value::Object(m) => m.clone(),
        Value::Array(a) if a.is_empty() => Map::new(), // TLC prints the empty function as []
        _ => panic!("not a tree: {v}"),
    }
}

/// equality of byte lists up to one trailing padding byte (expected is unpadded)
fn bytes_eq_pad(exp: &[String], got: &[String]) -> bool {
    if exp == got {
        return true;
    }
    exp.len() % 2 == 1 && got.len() == exp.len() + 1 && got[..exp.len()] == *exp && (got[exp.len()] == "0" || got[exp.len()] == "32")
}

/// Compare expected (TLC) and observed trees.  Returns (level, description) of the
/// first strict difference, else of the first aux difference.
fn cmp_tree(exp: &Value, got: &Value, path: &str, out: &mut Vec<(&'static str, String)>) {
    let e = as_tree(exp);
    let g = as_tree(got);
    let mut ek: Vec<&String> = e.keys().collect();
    let mut gk: Vec<&String> = g.keys().collect();
    ek.sort();
    gk.sort();
    if ek != gk {
        out.push(("strict", format!("{path}: attributes {gk:?}, model {ek:?}")));
        return;
    }
    for (k, ee) in e.iter() {
        let ge = &g[k];
        let p = format!("{path}/{k}");
        let eseq = ee["k"] == "Seq";
        let gseq = ge["k"] == "Seq";
        if eseq != gseq {
            out.push(("strict", format!("{p}: shape {} vr {}, model {} vr {}", ge["k"], ge["vr"], ee["k"], ee["vr"])));
            continue;
        }
        if eseq {
            if ee["vr"] != ge["vr"] {
                out.push(("aux", format!("{p}: sequence VR {}, model {}", ge["vr"], ee["vr"])));
            }
            let ei = j_arr(&ee["items"]);
            let gi = j_arr(&ge["items"]);
            if ei.len() != gi.len() {
                out.push(("strict", format!("{p}: {} items, model {}", gi.len(), ei.len())));
                continue;
            }
            for (i, (a, b)) in ei.iter().zip(gi.iter()).enumerate() {
                cmp_tree(a, b, &format!("{p}[{i}]"), out);
            }
        } else {
            if ee["vr"] != ge["vr"] {
                out.push(("strict", format!("{p}: VR {}, model {}", ge["vr"], ee["vr"])));
            }
            let ev = strs(&ee["v"]);
            let gv = strs(&ge["v"]);
            let same = if ee["k"] == "U8" && ge["k"] == "U8" { bytes_eq_pad(&ev, &gv) } else { ev == gv };
            if !same {
                out.push(("strict", format!("{p}: value {gv:?} ({}), model {ev:?} ({})", ge["k"], ee["k"])));
            } else if ee["k"] != ge["k"] {
                out.push(("aux", format!("{p}: value kind {}, model {}", ge["k"], ee["k"])));
            }
        }
    }
}

fn first_mismatch(exp: &Value, got: &Value) -> Option<(&'static str, String)> {
    let mut out = Vec::new();
    cmp_tree(exp, got, "", &mut out);
    out.iter().find(|(l, _)| *l == "strict").cloned().or_else(|| out.first().cloned())
}

/// Object with recorded (explicit) sequence/item lengths, obtained by reading a fixed
/// Explicit VR LE byte string:  T = A\B ; S = [ { T = A } ]   (explicit lengths)
fn seeded() -> InMemDicomObject {
    let bytes: Vec<u8> = vec![
        0x08, 0x00, 0x08, 0x00, b'C', b'S', 0x04, 0x00, b'A', b'\\', b'B', b' ', // T = A\B
        0x08, 0x00, 0x40, 0x11, b'S', b'Q', 0x00, 0x00, 0x12, 0x00, 0x00, 0x00, // S, length 18
        0xFE, 0xFF, 0x00, 0xE0, 0x0A, 0x00, 0x00, 0x00, // item, length 10
        0x08, 0x00, 0x08, 0x00, b'C', b'S', 0x02, 0x00, b'A', b' ', // T = A
    ];
    InMemDicomObject::read_dataset_with_ts(&bytes[..], &entries::EXPLICIT_VR_LITTLE_ENDIAN.erased()).expect("seeded object")
}

fn build_tree(t: &Value) -> InMemDicomObject {
    let mut o = InMemDicomObject::new_empty();
    for (k, e) in as_tree(t).iter() {
        let tag = tag_of(k);
        let vr = vr_of(j_str(&e["vr"]));
        if e["k"] == "Seq" {
            let items: Vec<InMemDicomObject> = j_arr(&e["items"]).iter().map(build_tree).collect();
            o.put(DataElement::new(tag, vr, DataSetSequence::from(items)));
        } else {
            o.put(DataElement::new(tag, vr, prim_of(j_str(&e["k"]), &strs(&e["v"]))));
        }
    }
    o
}

const TSS: &[(&str, &str)] = &[("ivrle", "ivr"), ("evrle", "evr"), ("evrbe", "evr"), ("deflated", "evr")];

fn roundtrip(obj: &InMemDicomObject, ts_name: &str) -> Result<InMemDicomObject, String> {
    let ts = match ts_name {
        "ivrle" => entries::IMPLICIT_VR_LITTLE_ENDIAN.erased(),
        "evrle" => entries::EXPLICIT_VR_LITTLE_ENDIAN.erased(),
        "evrbe" => entries::EXPLICIT_VR_BIG_ENDIAN.erased(),
        "deflated" => entries::DEFLATED_EXPLICIT_VR_LITTLE_ENDIAN.erased(),
        _ => unreachable!(),
    };
    let mut buf = Vec::new();
    match catch(|| obj.write_dataset_with_ts(&mut buf, &ts)) {
        Err(p) => return Err(format!("write panicked: {p}")),
        Ok(Err(e)) => return Err(format!("write failed: {e}")),
        Ok(Ok(())) => {}
    }
    match catch(|| InMemDicomObject::read_dataset_with_ts(&buf[..], &ts)) {
        Err(p) => Err(format!("read panicked: {p}")),
        Ok(Err(e)) => Err(format!("read failed: {e}")),
        Ok(Ok(o)) => Ok(o),
    }
}

fn op_text(step: &Value) -> String {
    let sel: Vec<String> = j_arr(&step["sel"])
        .iter()
        .enumerate()
        .map(|(i, s)| {
            if i + 1 == j_arr(&step["sel"]).len() {
                j_str(&s["tag"]).to_string()
            } else {
                format!("{}[{}]", j_str(&s["tag"]), s["item"])
            }
        })
        .collect();
    format!("{} {}", sel.join("."), step["act"])
}

/// keep at most 2 full mismatch records per (level, fingerprint); count all
struct Dedup {
    counts: std::collections::BTreeMap<String, usize>,
}
impl Dedup {
    fn add(&mut self, rep: &mut Report, v: Value) {
        let key = format!("{}|{}", v["level"].as_str().unwrap_or(""), v["fingerprint"].as_str().unwrap_or(""));
        let c = self.counts.entry(key).or_insert(0);
        *c += 1;
        if *c <= 2 {
            rep.mismatch(v);
        } else {
            rep.mismatch_count += 1;
        }
    }
}

/// the projected tree in the form the trace validator reads: the empty tree is []
fn tla_tree(v: &Value) -> Value {
    match v {
        Value::Object(m) if m.is_empty() => json!([]),
        Value::Object(m) => {
            let mut o = Map::new();
            for (k, e) in m {
                let items: Vec<Value> = j_arr(&e["items"]).iter().map(tla_tree).collect();
                o.insert(k.clone(), json!({"vr": e["vr"], "k": e["k"], "v": e["v"], "items": items}));
            }
            Value::Object(o)
        }
        other => other.clone(),
    }
}

/// seeded random histories -> ndjson trace for specs/objects/Trace_ObjectOps.tla
fn random_mode(args: &std::collections::HashMap<String, String>) {
    let n: usize = args.get("n").map(|s| s.parse().unwrap()).unwrap_or(100);
    let len: usize = args.get("len").map(|s| s.parse().unwrap()).unwrap_or(30);
    let corrupt = args.contains_key("corrupt");
    let mut rng = Rng::new(seed_from_env() ^ 0xC13);
    let mut w = NdjsonWriter::create(&args["out"]);
    let tags = ["T", "N", "S", "V", "U"];
    let step_tags = ["S", "S", "S", "U", "V", "T"];
    let texts = ["A", "B", "AB"];
    let nums = ["1", "2"];
    let mut ops = 0usize;
    let mut errs = 0usize;
    let mut rts = 0usize;
    let mut maxdepth = 0usize;
    for case in 0..n {
        let seeded_init = rng.below(4) == 0;
        let mut obj = if seeded_init { seeded() } else { InMemDicomObject::new_empty() };
        w.emit(&json!({"ev": "reset", "case": case, "init": if seeded_init {"seeded"} else {"empty"}, "tree": tla_tree(&project(&obj))}));
        for _ in 0..len {
            // selector
            let depth = match rng.below(10) { 0..=3 => 1, 4..=7 => 2, _ => 3 };
            maxdepth = maxdepth.max(depth);
            let mut sel = Vec::new();
            for _ in 1..depth {
                sel.push(json!({"tag": *rng.pick(&step_tags), "item": rng.below(3)}));
            }
            sel.push(json!({"tag": *rng.pick(&tags), "item": 0}));
            // action
            let pv = |rng: &mut Rng| -> (String, Vec<String>) {
                match rng.below(6) {
                    0 => ("Empty".into(), vec![]),
                    1 => ("Str".into(), vec![rng.pick(&texts).to_string()]),
                    2 => ("Strs".into(), vec![rng.pick(&texts).to_string(), rng.pick(&texts).to_string()]),
                    3 => ("U16".into(), vec![rng.pick(&nums).to_string(), rng.pick(&nums).to_string()]),
                    4 => ("I32".into(), vec![rng.pick(&nums).to_string()]),
                    _ => ("F64".into(), vec![rng.pick(&nums).to_string()]),
                }
            };
            let names = ["Remove", "Empty", "SetVr", "Set", "SetStr", "SetIfMissing", "SetStrIfMissing", "Replace",
                "ReplaceStr", "PushStr", "PushI32", "PushU32", "PushI16", "PushU16", "PushF32", "PushF64", "Truncate",
                "Set", "SetStr", "PushStr", "PushU16"];
            let a = *rng.pick(&names);
            let act = match a {
                "Remove" | "Empty" => json!({"a": a, "k": "", "v": [], "vr": "", "n": 0}),
                "SetVr" => json!({"a": a, "k": "", "v": [], "vr": *rng.pick(&["LO", "US", "CS", "SH"]), "n": 0}),
                "Set" | "SetIfMissing" | "Replace" => {
                    let (k, v) = pv(&mut rng);
                    json!({"a": a, "k": k, "v": v, "vr": "", "n": 0})
                }
                "SetStr" | "SetStrIfMissing" | "ReplaceStr" | "PushStr" => json!({"a": a, "k": "", "v": [*rng.pick(&texts)], "vr": "", "n": 0}),
                "Truncate" => json!({"a": a, "k": "", "v": [], "vr": "", "n": rng.below(3)}),
                _ => json!({"a": a, "k": "", "v": [*rng.pick(&nums)], "vr": "", "n": 0}),
            };
            let before = tla_tree(&project(&obj));
            let op = AttributeOp { selector: decode_sel(&Value::Array(sel.clone())), action: decode_act(&act) };
            let res = catch(|| obj.apply(op));
            let ok = matches!(res, Ok(Ok(())));
            ops += 1;
            if !ok {
                errs += 1;
            }
            let mut after = tla_tree(&project(&obj));
            if corrupt && ops == 17 {
                after = json!({"T": {"vr": "ZZ", "k": "Text", "v": ["corrupted"], "items": []}});
            }
            w.emit(&json!({"ev": "op", "sel": sel, "act": act, "ok": ok, "panic": res.is_err(), "before": before, "tree": after}));
        }
        let before = tla_tree(&project(&obj));
        for (ts, key) in TSS {
            rts += 1;
            match roundtrip(&obj, ts) {
                Ok(back) => w.emit(&json!({"ev": "rt", "ts": key, "tsname": ts, "res": "ok", "detail": "", "before": before, "tree": tla_tree(&project(&back))})),
                Err(e) => w.emit(&json!({"ev": "rt", "ts": key, "tsname": ts, "res": e.split(':').next().unwrap_or("error"), "detail": e, "before": before, "tree": []})),
            }
        }
    }
    let events = w.finish();
    let mut rep = Report::new();
    rep.cases = n;
    rep.extra.insert("events".into(), json!(events));
    rep.extra.insert("ops".into(), json!(ops));
    rep.extra.insert("err_steps".into(), json!(errs));
    rep.extra.insert("roundtrips".into(), json!(rts));
    rep.extra.insert("max_sel_depth".into(), json!(maxdepth));
    rep.extra.insert("history_len".into(), json!(len));
    rep.print();
}

fn main() {
    quiet_panics();
    let args = args_map();
    let mode = args.get("_0").cloned().unwrap_or_default();
    if mode == "random" {
        return random_mode(&args);
    }
    assert_eq!(mode, "replay", "usage: drv_ops replay --cases <ndjson> | random --n N --len L --out <ndjson>");
    let cases = read_ndjson(&args["cases"]);
    let dump = args.contains_key("dump");
    let selftest = args.contains_key("selftest");
    let nocmp = args.contains_key("nocmp");
    let mut rep = Report::new();
    rep.cap = 2000;
    let mut dd = Dedup { counts: Default::default() };
    let mut steps_run = 0usize;
    let mut rt_run = 0usize;
    let mut err_steps = 0usize;
    let mut maxlen = 0usize;
    let mut aux = 0usize;
    let mut distinct = std::collections::HashSet::new();
    let mut rt_done: std::collections::HashSet<String> = std::collections::HashSet::new();

    for (ci, case) in cases.iter().enumerate() {
        rep.cases += 1;
        let mut obj = match case["init"].as_str().unwrap_or("empty") {
            "empty" => InMemDicomObject::new_empty(),
            "seeded" => seeded(),
            _ => build_tree(&case["init_tree"]),
        };
        let steps = j_arr(&case["steps"]);
        maxlen = maxlen.max(steps.len());
        let mut diverged = false;
        let mut aux_seen = false;
        for (si, step) in steps.iter().enumerate() {
            let op = AttributeOp { selector: decode_sel(&step["sel"]), action: decode_act(&step["act"]) };
            let before = project(&obj);
            let res = catch(|| obj.apply(op));
            steps_run += 1;
            let (ok, errtext) = match &res {
                Ok(Ok(())) => (true, String::new()),
                Ok(Err(e)) => (false, format!("{e}")),
                Err(p) => (false, format!("PANIC {p}")),
            };
            if !ok {
                err_steps += 1;
            }
            let mut got = project(&obj);
            if selftest && si == 0 && ci % 7 == 3 {
                // deliberately wrong projection: an attribute that is not there
                if let Value::Object(m) = &mut got {
                    m.insert("N".into(), json!({"vr": "ZZ", "k": "Text", "v": ["selftest"], "items": []}));
                }
            }
            distinct.insert(format!("{}|{}", before, op_text(step)));
            if dump {
                println!("DUMP case {ci} step {si}: {} -> {} {} :: {}", op_text(step), if ok { "Ok" } else { "Err" }, errtext, got);
            }
            let exp_ok = step["ok"].as_bool().unwrap();
            let sit = step["sit"].as_str().unwrap_or("");
            let actname = step["fam"].as_str().unwrap_or_else(|| j_str(&step["act"]["a"]));
            let mm = if res.is_err() {
                Some(("strict", "panic".to_string(), format!("apply panicked: {errtext}")))
            } else if ok != exp_ok {
                Some((
                    "strict",
                    format!("returns {}, documented {}", if ok { "Ok" } else { "Err" }, if exp_ok { "Ok" } else { "Err" }),
                    format!("apply returned {} ({errtext}), model {}", if ok { "Ok" } else { "Err" }, if exp_ok { "Ok" } else { "Err" }),
                ))
            } else if let Some((lvl, d)) = first_mismatch(&step["tree"], &got) {
                let what = if !ok { "object changed although the operation failed" } else { "resulting object differs" };
                Some((lvl, what.to_string(), d))
            } else {
                None
            };
            if let (Some((lvl, what, d)), false) = (mm, nocmp) {
                if lvl == "aux" {
                    if aux_seen {
                        continue;
                    }
                    aux_seen = true;
                    aux += 1;
                }
                dd.add(&mut rep, json!({
                    "level": lvl, "phase": "step", "fingerprint": format!("{actname} [{sit}]: {what}"),
                    "detail": d, "case": ci, "step": si, "op": op_text(step),
                    "before": before, "observed": got, "expected": step["tree"], "result": if ok {"Ok".to_string()} else {format!("Err {errtext}")},
                    "history": steps[..=si].iter().map(op_text).collect::<Vec<_>>(), "init": case["init"],
                }));
                if lvl == "strict" {
                    diverged = true;
                    break;
                }
            }
        }
        if diverged {
            continue;
        }
        // write / read back
        let rt = &case["rt"];
        // the read-back expectation depends on the object only: each distinct object once
        let obj_key = project(&obj).to_string();
        if rt.is_object() && rt["w"].as_bool() == Some(true) && rt_done.insert(obj_key) {
            for (ts, key) in TSS {
                rt_run += 1;
                let exp = &rt[*key];
                if exp.is_string() {
                    continue; // premise of this syntax not met ("skip")
                }
                let fp_base = format!("write/read {ts}");
                match roundtrip(&obj, ts) {
                    Err(e) => {
                        let kind = e.split(':').next().unwrap_or("").to_string();
                        dd.add(&mut rep, json!({
                            "level": "strict", "phase": "roundtrip", "fingerprint": format!("{fp_base}: {kind} [{}]", rt["shape"].as_str().unwrap_or("")),
                            "detail": e, "case": ci, "object": project(&obj),
                            "history": steps.iter().map(op_text).collect::<Vec<_>>(), "init": case["init"],
                        }));
                    }
                    Ok(back) => {
                        let got = project(&back);
                        if dump {
                            println!("DUMP case {ci} rt {ts}: {got}");
                        }
                        if let Some((lvl, d)) = first_mismatch(exp, &got) {
                            if lvl == "aux" {
                                if aux_seen {
                                    continue;
                                }
                                aux += 1;
                            }
                            dd.add(&mut rep, json!({
                                "level": lvl, "phase": "roundtrip", "fingerprint": format!("{fp_base}: read-back object differs [{}]", rt["shape"].as_str().unwrap_or("")),
                                "detail": d, "case": ci, "object": project(&obj), "observed": got, "expected": exp,
                                "history": steps.iter().map(op_text).collect::<Vec<_>>(), "init": case["init"],
                            }));
                        }
                    }
                }
            }
        }
    }
    rep.extra.insert("by_fingerprint".into(), json!(dd.counts));
    rep.extra.insert("steps".into(), json!(steps_run));
    rep.extra.insert("roundtrips".into(), json!(rt_run));
    rep.extra.insert("distinct_objects_written".into(), json!(rt_done.len()));
    rep.extra.insert("err_steps".into(), json!(err_steps));
    rep.extra.insert("max_history".into(), json!(maxlen));
    rep.extra.insert("aux_mismatches".into(), json!(aux));
    rep.extra.insert("distinct_transitions".into(), json!(distinct.len()));
    rep.print();
}
