//! C23 / C24 conformance driver: dicom_json serialiser and deserialiser.
//!
//!   drv_json cases  --cases <ndjson> --out <dir>   TLC cases {ds, shape, norm} -> real code -> events
//!   drv_json random --n <N> --out <dir>            seeded random abstract data sets -> events
//!   drv_json parse  --docs <ndjson {kind,doc}> --out <dir>   replay of recorded documents
//!   drv_json fuzz   --n <N> --cases <ndjson> --out <dir>
//!                                                   arbitrary + mutated JSON documents -> parse events
//!
//! The driver only transports data: it builds the InMemDicomObject an abstract
//! data set describes, calls dicom_json::{to_string,to_value,from_str}, re-reads the
//! JSON *text* with a generic JSON parser into a neutral ordered tree, projects the
//! data set that comes back, and records everything as ndjson events which
//! specs/json/Trace_DicomJson.tla judges.  For TLC-generated cases it also
//! compares tree/projection for plain equality with the values TLC printed
//! (`shape`, `norm`); differences are reported as "drift" (the verdict is TLC's).
//!
//! Abstract data set / JSON tree encodings: see specs/json/DicomJson.tla.

use dicom_core::value::{DataSetSequence, PrimitiveValue, Value as DValue, C};
use dicom_core::{DataElement, Tag, VR};
use dicom_object::InMemDicomObject;
use serde_json::{json, Map, Value};
use std::str::FromStr;
use std::sync::mpsc;
use std::time::Duration;
use vcommon::*;

// ------------------------------------------------------------------ numbers

fn num_json(sp: &str, neg: bool, int: &str, frac: &str) -> Value {
    json!({"sp": sp, "neg": neg, "int": int, "frac": frac})
}

/// canonical Num of a plain decimal text "[-]digits[.digits]"
fn num_from_plain(text: &str) -> Value {
    let (neg, t) = match text.strip_prefix('-') {
        Some(r) => (true, r),
        None => (false, text),
    };
    let (i, f) = match t.split_once('.') {
        Some((i, f)) => (i, f),
        None => (t, ""),
    };
    let i = i.trim_start_matches('0');
    let i = if i.is_empty() { "0" } else { i };
    let f = f.trim_end_matches('0');
    let zero = i == "0" && f.is_empty();
    num_json("", neg && !zero, i, f)
}

fn num_from_f64_exact(x: f64, digits: usize) -> Value {
    if x.is_nan() {
        return num_json("nan", false, "0", "");
    }
    if x.is_infinite() {
        return num_json("inf", x < 0.0, "0", "");
    }
    // Rust prints the exact decimal expansion when asked for enough digits
    num_from_plain(&format!("{:.*}", digits, x))
}

/// the number a JSON number token denotes, as parsed by serde_json into f64:
/// shortest decimal that identifies the f64 (what a generic JSON reader sees)
fn num_from_f64_token(x: f64) -> Value {
    num_from_plain(&format!("{}", x))
}

fn plain_of_num(n: &Value) -> String {
    let mut s = String::new();
    if n["neg"].as_bool().unwrap_or(false) {
        s.push('-');
    }
    s.push_str(j_str(&n["int"]));
    let f = j_str(&n["frac"]);
    if !f.is_empty() {
        s.push('.');
        s.push_str(f);
    }
    s
}

fn f64_of_num(n: &Value) -> f64 {
    match j_str(&n["sp"]) {
        "nan" => f64::NAN,
        "inf" => {
            if n["neg"].as_bool().unwrap_or(false) {
                f64::NEG_INFINITY
            } else {
                f64::INFINITY
            }
        }
        _ => plain_of_num(n).parse::<f64>().expect("float text"),
    }
}
fn f32_of_num(n: &Value) -> f32 {
    match j_str(&n["sp"]) {
        "nan" => f32::NAN,
        "inf" => {
            if n["neg"].as_bool().unwrap_or(false) {
                f32::NEG_INFINITY
            } else {
                f32::INFINITY
            }
        }
        _ => plain_of_num(n).parse::<f32>().expect("float text"),
    }
}

// ------------------------------------------------------------------ abstract ds -> object

fn ints<T: FromStr>(vals: &[Value]) -> C<T>
where
    <T as FromStr>::Err: std::fmt::Debug,
{
    vals.iter()
        .map(|n| plain_of_num(n).parse::<T>().expect("integer in range of its representation"))
        .collect()
}

fn build_ds(ds: &Value) -> InMemDicomObject {
    let mut obj = InMemDicomObject::new_empty();
    for el in j_arr(ds) {
        let tag = Tag(j_usize(&el["g"]) as u16, j_usize(&el["e"]) as u16);
        let vr = VR::from_str(j_str(&el["vr"])).expect("vr");
        let vals = j_arr(&el["vals"]);
        let value: DValue<InMemDicomObject> = match j_str(&el["rep"]) {
            "empty" => PrimitiveValue::Empty.into(),
            "strs" => PrimitiveValue::Strs(vals.iter().map(|s| j_str(s).to_string()).collect()).into(),
            "str" => PrimitiveValue::Str(j_str(&vals[0]).to_string()).into(),
            "u8" => PrimitiveValue::U8(ints::<u8>(vals)).into(),
            "u16" => PrimitiveValue::U16(ints::<u16>(vals)).into(),
            "i16" => PrimitiveValue::I16(ints::<i16>(vals)).into(),
            "i32" => PrimitiveValue::I32(ints::<i32>(vals)).into(),
            "u32" => PrimitiveValue::U32(ints::<u32>(vals)).into(),
            "i64" => PrimitiveValue::I64(ints::<i64>(vals)).into(),
            "u64" => PrimitiveValue::U64(ints::<u64>(vals)).into(),
            "f32" => PrimitiveValue::F32(vals.iter().map(f32_of_num).collect()).into(),
            "f64" => PrimitiveValue::F64(vals.iter().map(f64_of_num).collect()).into(),
            "tags" => PrimitiveValue::Tags(
                vals.iter()
                    .map(|t| Tag(j_usize(&t["g"]) as u16, j_usize(&t["e"]) as u16))
                    .collect(),
            )
            .into(),
            // long values: a generator rule instead of literal values (see DicomJson.tla)
            "pat8" => {
                let (n, a, b) = (j_usize(&vals[0]["n"]), j_usize(&vals[0]["a"]), j_usize(&vals[0]["b"]));
                PrimitiveValue::U8((0..n).map(|i| ((a * i + b) % 256) as u8).collect()).into()
            }
            "pat16" => {
                let (n, a, b) = (j_usize(&vals[0]["n"]), j_usize(&vals[0]["a"]), j_usize(&vals[0]["b"]));
                PrimitiveValue::U16((0..n).map(|i| ((a * i + b) % 65536) as u16).collect()).into()
            }
            "u8c" => PrimitiveValue::U8(vals.iter().map(|x| j_usize(x) as u8).collect()).into(),
            "b64" => {
                use base64::Engine;
                let bytes = base64::engine::general_purpose::STANDARD.decode(j_str(&vals[0])).expect("base64 text");
                PrimitiveValue::U8(bytes.into_iter().collect()).into()
            }
            "items" => DValue::Sequence(DataSetSequence::from(vals.iter().map(build_ds).collect::<Vec<_>>())),
            other => panic!("unknown rep {other}"),
        };
        obj.put(DataElement::new(tag, vr, value));
    }
    obj
}

// ------------------------------------------------------------------ object -> abstract ds

fn int_vals<T: ToString>(v: &[T]) -> Vec<Value> {
    v.iter().map(|x| num_from_plain(&x.to_string())).collect()
}

fn project_ds(obj: &InMemDicomObject) -> Value {
    let mut out = Vec::new();
    for e in obj {
        let tag = e.header().tag;
        let (rep, vals): (&str, Vec<Value>) = match e.value() {
            DValue::Sequence(seq) => ("items", seq.items().iter().map(project_ds).collect()),
            DValue::PixelSequence(_) => ("pixelseq", vec![]),
            DValue::Primitive(p) => match p {
                PrimitiveValue::Empty => ("empty", vec![]),
                PrimitiveValue::Strs(s) => ("strs", s.iter().map(|x| Value::from(x.as_str())).collect()),
                PrimitiveValue::Str(s) => ("str", vec![Value::from(s.as_str())]),
                // long byte values travel as their base64 text (rep "b64" of DicomJson.tla)
                PrimitiveValue::U8(v) if v.len() > 256 => {
                    use base64::Engine;
                    ("b64", vec![Value::from(base64::engine::general_purpose::STANDARD.encode(&v[..]))])
                }
                PrimitiveValue::U8(v) => ("u8", int_vals(v)),
                PrimitiveValue::U16(v) => ("u16", int_vals(v)),
                PrimitiveValue::I16(v) => ("i16", int_vals(v)),
                PrimitiveValue::I32(v) => ("i32", int_vals(v)),
                PrimitiveValue::U32(v) => ("u32", int_vals(v)),
                PrimitiveValue::I64(v) => ("i64", int_vals(v)),
                PrimitiveValue::U64(v) => ("u64", int_vals(v)),
                PrimitiveValue::F32(v) => ("f32", v.iter().map(|x| num_from_f64_exact(*x as f64, 160)).collect()),
                PrimitiveValue::F64(v) => ("f64", v.iter().map(|x| num_from_f64_exact(*x, 1100)).collect()),
                PrimitiveValue::Tags(v) => ("tags", v.iter().map(|t| json!({"g": t.0, "e": t.1})).collect()),
                PrimitiveValue::Date(v) => ("date", v.iter().map(|x| Value::from(format!("{x:?}"))).collect()),
                PrimitiveValue::Time(v) => ("time", v.iter().map(|x| Value::from(format!("{x:?}"))).collect()),
                PrimitiveValue::DateTime(v) => ("datetime", v.iter().map(|x| Value::from(format!("{x:?}"))).collect()),
            },
        };
        out.push(json!({"g": tag.0, "e": tag.1, "vr": e.header().vr.to_string(), "rep": rep, "vals": vals}));
    }
    Value::Array(out)
}

// ------------------------------------------------------------------ JSON text -> neutral ordered tree

/// A JSON document as any JSON reader sees it: members in text order, duplicates kept.
#[derive(Debug, Clone, PartialEq)]
enum Node {
    Obj(Vec<(String, Node)>),
    Arr(Vec<Node>),
    Str(String),
    Num(Value),
    Bool(bool),
    Null,
}

struct NodeVisitor;
impl<'de> serde::de::Visitor<'de> for NodeVisitor {
    type Value = Node;
    fn expecting(&self, f: &mut std::fmt::Formatter) -> std::fmt::Result {
        f.write_str("any JSON value")
    }
    fn visit_bool<E>(self, v: bool) -> Result<Node, E> {
        Ok(Node::Bool(v))
    }
    fn visit_i64<E>(self, v: i64) -> Result<Node, E> {
        Ok(Node::Num(num_from_plain(&v.to_string())))
    }
    fn visit_u64<E>(self, v: u64) -> Result<Node, E> {
        Ok(Node::Num(num_from_plain(&v.to_string())))
    }
    fn visit_f64<E>(self, v: f64) -> Result<Node, E> {
        Ok(Node::Num(num_from_f64_token(v)))
    }
    fn visit_str<E>(self, v: &str) -> Result<Node, E> {
        Ok(Node::Str(v.to_string()))
    }
    fn visit_string<E>(self, v: String) -> Result<Node, E> {
        Ok(Node::Str(v))
    }
    fn visit_unit<E>(self) -> Result<Node, E> {
        Ok(Node::Null)
    }
    fn visit_seq<A: serde::de::SeqAccess<'de>>(self, mut seq: A) -> Result<Node, A::Error> {
        let mut v = Vec::new();
        while let Some(x) = seq.next_element::<Node>()? {
            v.push(x);
        }
        Ok(Node::Arr(v))
    }
    fn visit_map<A: serde::de::MapAccess<'de>>(self, mut map: A) -> Result<Node, A::Error> {
        let mut v = Vec::new();
        while let Some((k, x)) = map.next_entry::<String, Node>()? {
            v.push((k, x));
        }
        Ok(Node::Obj(v))
    }
}
impl<'de> serde::Deserialize<'de> for Node {
    fn deserialize<D: serde::Deserializer<'de>>(d: D) -> Result<Node, D::Error> {
        d.deserialize_any(NodeVisitor)
    }
}

impl Node {
    fn to_tree(&self) -> Value {
        match self {
            Node::Obj(m) => json!({"t": "obj", "m": m.iter().map(|(k, v)| json!({"k": k, "v": v.to_tree()})).collect::<Vec<_>>()}),
            Node::Arr(a) => json!({"t": "arr", "a": a.iter().map(|v| v.to_tree()).collect::<Vec<_>>()}),
            Node::Str(s) => json!({"t": "str", "s": s}),
            Node::Num(n) => json!({"t": "num", "n": n}),
            Node::Bool(true) => json!({"t": "true"}),
            Node::Bool(false) => json!({"t": "false"}),
            Node::Null => json!({"t": "null"}),
        }
    }
    fn from_value(v: &Value) -> Node {
        match v {
            Value::Null => Node::Null,
            Value::Bool(b) => Node::Bool(*b),
            Value::Number(n) => {
                if let Some(u) = n.as_u64() {
                    Node::Num(num_from_plain(&u.to_string()))
                } else if let Some(i) = n.as_i64() {
                    Node::Num(num_from_plain(&i.to_string()))
                } else {
                    Node::Num(num_from_f64_token(n.as_f64().unwrap_or(0.0)))
                }
            }
            Value::String(s) => Node::Str(s.clone()),
            Value::Array(a) => Node::Arr(a.iter().map(Node::from_value).collect()),
            Value::Object(m) => Node::Obj(m.iter().map(|(k, v)| (k.clone(), Node::from_value(v))).collect()),
        }
    }
    /// JSON text with members in the order held (duplicates kept)
    fn write(&self, out: &mut String) {
        match self {
            Node::Obj(m) => {
                out.push('{');
                for (i, (k, v)) in m.iter().enumerate() {
                    if i > 0 {
                        out.push(',');
                    }
                    out.push_str(&Value::from(k.as_str()).to_string());
                    out.push(':');
                    v.write(out);
                }
                out.push('}');
            }
            Node::Arr(a) => {
                out.push('[');
                for (i, v) in a.iter().enumerate() {
                    if i > 0 {
                        out.push(',');
                    }
                    v.write(out);
                }
                out.push(']');
            }
            Node::Str(s) => out.push_str(&Value::from(s.as_str()).to_string()),
            // in mutated documents a number is carried as its raw token text in "int"
            Node::Num(n) => out.push_str(j_str(&n["int"])),
            Node::Bool(b) => out.push_str(if *b { "true" } else { "false" }),
            Node::Null => out.push_str("null"),
        }
    }
    fn text(&self) -> String {
        let mut s = String::new();
        self.write(&mut s);
        s
    }
}
fn raw_num(tok: &str) -> Node {
    Node::Num(num_json("", false, tok, ""))
}

// ------------------------------------------------------------------ executing one case

struct Exec {
    event: Value,
    text: Option<String>,
}

fn exec_case(id: usize, src: &str, ds: &Value) -> Vec<Exec> {
    let mut out = Vec::new();
    let obj = build_ds(ds);
    let mut ev = json!({"ev": "case", "id": id, "src": src, "ds": ds, "ser": "ok", "shape": {"t": "none"},
                        "rt": "skipped", "rtds": [], "msg": ""});
    let ser = catch(|| dicom_json::to_string(&obj));
    let text = match ser {
        Err(p) => {
            ev["ser"] = json!("panic");
            ev["msg"] = json!(p);
            out.push(Exec { event: ev, text: None });
            return out;
        }
        Ok(Err(e)) => {
            ev["ser"] = json!("err");
            ev["msg"] = json!(e.to_string());
            out.push(Exec { event: ev, text: None });
            return out;
        }
        Ok(Ok(t)) => t,
    };
    // neutral re-reading of the text
    let node: Node = match serde_json::from_str::<Node>(&text) {
        Ok(n) => n,
        Err(e) => {
            ev["ser"] = json!("err");
            ev["msg"] = json!(format!("output is not JSON: {e}"));
            out.push(Exec { event: ev, text: Some(text) });
            return out;
        }
    };
    ev["shape"] = node.to_tree();
    // round trip
    match catch(|| dicom_json::from_str::<InMemDicomObject>(&text)) {
        Err(p) => {
            ev["rt"] = json!("panic");
            ev["msg"] = json!(p);
        }
        Ok(Err(e)) => {
            ev["rt"] = json!("err");
            ev["msg"] = json!(e.to_string());
        }
        Ok(Ok(back)) => {
            ev["rt"] = json!("ok");
            ev["rtds"] = project_ds(&back);
        }
    }
    // the to_value entry point must describe the same document
    let mut extra = None;
    match catch(|| dicom_json::to_value(&obj)) {
        Ok(Ok(v)) => {
            let n2 = Node::from_value(&v);
            if n2 != node {
                let mut e2 = ev.clone();
                e2["src"] = json!(format!("{src}/to_value"));
                e2["shape"] = n2.to_tree();
                extra = Some(e2);
            }
        }
        Ok(Err(e)) => {
            let mut e2 = ev.clone();
            e2["src"] = json!(format!("{src}/to_value"));
            e2["ser"] = json!("err");
            e2["msg"] = json!(e.to_string());
            extra = Some(e2);
        }
        Err(p) => {
            let mut e2 = ev.clone();
            e2["src"] = json!(format!("{src}/to_value"));
            e2["ser"] = json!("panic");
            e2["msg"] = json!(p);
            extra = Some(e2);
        }
    }
    out.push(Exec { event: ev, text: Some(text.clone()) });
    if let Some(e2) = extra {
        out.push(Exec { event: e2, text: Some(text) });
    }
    out
}

fn mode_cases(args: &std::collections::HashMap<String, String>) {
    let cases = read_ndjson(&args["cases"]);
    let dir = &args["out"];
    std::fs::create_dir_all(dir).unwrap();
    let mut w = NdjsonWriter::create(&format!("{dir}/events.ndjson"));
    let mut texts = NdjsonWriter::create(&format!("{dir}/texts.ndjson"));
    let mut rep = Report::new();
    let selftest = args.get("selftest").map(|s| s.as_str()).unwrap_or("");
    let (mut drift_shape, mut drift_norm, mut nontrivial) = (0usize, 0usize, 0usize);
    let mut vrs = std::collections::BTreeSet::new();
    for (i, c) in cases.iter().enumerate() {
        rep.cases += 1;
        let ds = &c["ds"];
        for el in j_arr(ds) {
            vrs.insert(format!("{}/{}", j_str(&el["vr"]), j_str(&el["rep"])));
        }
        if j_arr(ds).iter().any(|e| !j_arr(&e["vals"]).is_empty()) {
            nontrivial += 1;
        }
        for (k, mut x) in exec_case(i + 1, "tlc", ds).into_iter().enumerate() {
            if selftest == "corrupt-shape" && i % 97 == 3 && x.event["shape"]["m"].as_array().map_or(false, |a| !a.is_empty()) {
                // binding self-test: pretend the code wrote a different vr member
                x.event["shape"]["m"][0]["v"]["m"][0]["v"]["s"] = json!("ZZ");
            }
            if selftest == "corrupt-rt" && i % 97 == 3 {
                if let Some(a) = x.event["rtds"].as_array_mut() {
                    a.pop();
                }
            }
            if k == 0 {
                if x.event["shape"] != c["shape"] {
                    drift_shape += 1;
                    rep.mismatch(json!({"kind": "shape", "id": i + 1, "ds": ds, "expected": c["shape"], "observed": x.event["shape"],
                                        "text": x.text}));
                }
                if x.event["rt"] != json!("ok") || x.event["rtds"] != c["norm"] {
                    drift_norm += 1;
                    rep.mismatch(json!({"kind": "norm", "id": i + 1, "ds": ds, "expected": c["norm"], "observed": x.event["rtds"],
                                        "rt": x.event["rt"], "msg": x.event["msg"], "text": x.text}));
                }
            }
            texts.emit(&json!({"line": w.lines + 1, "text": x.text}));
            w.emit(&x.event);
        }
    }
    let n = w.finish();
    texts.finish();
    rep.extra.insert("events".into(), json!(n));
    rep.extra.insert("events_path".into(), json!(format!("{dir}/events.ndjson")));
    rep.extra.insert("texts_path".into(), json!(format!("{dir}/texts.ndjson")));
    rep.extra.insert("drift_shape".into(), json!(drift_shape));
    rep.extra.insert("drift_norm".into(), json!(drift_norm));
    rep.extra.insert("nontrivial".into(), json!(nontrivial));
    rep.extra.insert("vr_reps".into(), json!(vrs.len()));
    rep.cap = 40;
    rep.mismatches.truncate(40);
    rep.print();
}

// ------------------------------------------------------------------ random abstract data sets

const VRS: &[&str] = &[
    "AE", "AS", "AT", "CS", "DA", "DS", "DT", "FL", "FD", "IS", "LO", "LT", "OB", "OD", "OF", "OL", "OV", "OW", "PN", "SH",
    "SL", "SQ", "SS", "ST", "SV", "TM", "UC", "UI", "UL", "UN", "UR", "US", "UT", "UV",
];
const KNOWN_FLOATS: &[(bool, &str, &str, &str)] = &[
    (false, "0", "", ""),
    (false, "0", "5", ""),
    (false, "1", "5", ""),
    (true, "2", "25", ""),
    (false, "1024", "", ""),
    (true, "0", "125", ""),
    (false, "16777216", "", ""),
    (false, "0", "", "inf"),
    (true, "0", "", "inf"),
    (false, "0", "", "nan"),
];

fn rnd_text(r: &mut Rng, single: bool) -> String {
    const ASCII: &[u8] = b"abcdefghijklmnopqrstuvwxyzABCDEFGHIJKLMNOPQRSTUVWXYZ0123456789 .,-_^=/:;'\"()[]{}<>!?@#$%&*+~|";
    const WIDE: &[&str] = &["\u{e9}", "\u{fc}", "\u{5c71}", "\u{7530}", "\u{3a9}", "\u{1f600}", "\t", "\u{7f}", "\u{1b}"];
    let n = r.range(1, 18) as usize;
    let mut s = String::new();
    for _ in 0..n {
        if r.below(12) == 0 {
            s.push_str(*r.pick(WIDE));
        } else if single && r.below(15) == 0 {
            s.push('\\');
        } else {
            s.push(*r.pick(ASCII) as char);
        }
    }
    // never only padding: a value of blanks is an empty value
    if s.trim_end_matches(' ').is_empty() {
        s.insert(0, 'x');
    }
    if r.below(5) == 0 {
        s.push(' ');
    }
    s
}

fn rnd_int(r: &mut Rng, lo: i128, hi: i128) -> Value {
    let v: i128 = match r.below(6) {
        0 => lo,
        1 => hi,
        2 => r.range(-3, 3) as i128,
        3 => {
            let b = *r.pick(&[i32::MAX as i128, i32::MIN as i128, u32::MAX as i128, i64::MAX as i128, 65535, 32767]);
            b + r.range(-1, 1) as i128
        }
        _ => {
            let span = (hi - lo) as u128 + 1;
            let x = ((r.next_u64() as u128) << 64 | r.next_u64() as u128) % span;
            lo + x as i128
        }
    };
    let v = v.clamp(lo, hi);
    num_from_plain(&v.to_string())
}

fn rnd_short_float(r: &mut Rng) -> Value {
    let int = r.range(0, 9999).to_string();
    let frac = *r.pick(&["", "", "5", "25", "75", "125", "375"]);
    let neg = r.coin();
    let z = num_from_plain(&format!("{}{}.{}", if neg { "-" } else { "" }, int, if frac.is_empty() { "0" } else { frac }));
    z
}
fn known_float(r: &mut Rng, finite_only: bool) -> Value {
    loop {
        let (neg, i, f, sp) = *r.pick(KNOWN_FLOATS);
        if finite_only && !sp.is_empty() {
            continue;
        }
        return num_json(sp, neg, i, f);
    }
}

fn rnd_dec_string(r: &mut Rng, integer: bool) -> String {
    let mut s = String::new();
    match r.below(4) {
        0 => s.push('-'),
        1 => s.push('+'),
        _ => {}
    }
    if r.below(6) == 0 {
        s.push('0');
    }
    s.push_str(&r.range(0, 99999).to_string());
    if !integer {
        if r.coin() {
            s.push('.');
            s.push_str(&r.range(0, 999).to_string());
        }
        if r.below(4) == 0 {
            s.push(*r.pick(&['e', 'E']));
            s.push_str(*r.pick(&["+", "-", ""]));
            s.push_str(&r.range(0, 12).to_string());
        }
    }
    if r.below(5) == 0 {
        s.push(' ');
    }
    s
}

fn rnd_ds(r: &mut Rng, depth: usize, max_el: usize) -> Value {
    let n = r.below(max_el as u64 + 1) as usize;
    let mut tags = std::collections::BTreeSet::new();
    let mut els = Vec::new();
    while els.len() < n {
        let g = match r.below(4) {
            0 => *r.pick(&[0x0008u16, 0x0010, 0x0020, 0x0028, 0x7FE0]),
            1 => (r.below(0x8000) as u16) | 1,
            _ => r.below(0x10000) as u16,
        };
        let e = r.below(0x10000) as u16;
        if g == 0xFFFE || !tags.insert((g, e)) {
            continue;
        }
        let vr = *r.pick(VRS);
        let m = if r.below(7) == 0 { 0 } else { r.range(1, 6) as usize };
        let mut rep: String;
        let mut vals: Vec<Value> = Vec::new();
        let fill = |f: &mut dyn FnMut(&mut Rng) -> Value, r: &mut Rng, k: usize| -> Vec<Value> { (0..k).map(|_| f(r)).collect() };
        match vr {
            "SQ" => {
                rep = "items".into();
                if depth == 0 {
                    rep = "empty".into();
                } else {
                    let k = r.below(4) as usize;
                    vals = (0..k).map(|_| rnd_ds(r, depth - 1, 4)).collect();
                    if r.below(8) == 0 {
                        rep = "empty".into();
                        vals.clear();
                    }
                }
            }
            "LT" | "ST" | "UT" | "UR" => {
                rep = "str".into();
                vals = vec![Value::from(rnd_text(r, true))];
            }
            "AE" | "AS" | "CS" | "DA" | "DT" | "LO" | "SH" | "TM" | "UC" | "UI" | "PN" => {
                if m == 1 && r.coin() {
                    rep = "str".into();
                    vals = vec![Value::from(rnd_text(r, false))];
                } else {
                    rep = "strs".into();
                    // an empty value may stand at any position of a multi-valued element
                    vals = fill(&mut |r| Value::from(if r.below(7) == 0 { String::new() } else { rnd_text(r, false) }), r, m);
                }
            }
            "AT" => {
                rep = "tags".into();
                vals = fill(&mut |r| json!({"g": r.below(0x10000), "e": r.below(0x10000)}), r, m);
            }
            "IS" => {
                if r.coin() {
                    rep = "strs".into();
                    vals = fill(&mut |r| Value::from(if r.below(7) == 0 { String::new() } else { rnd_dec_string(r, true) }), r, m);
                } else {
                    rep = "i32".into();
                    vals = fill(&mut |r| rnd_int(r, i32::MIN as i128, i32::MAX as i128), r, m);
                }
            }
            "DS" => match r.below(3) {
                0 => {
                    rep = "strs".into();
                    vals = fill(&mut |r| Value::from(if r.below(7) == 0 { String::new() } else { rnd_dec_string(r, false) }), r, m);
                }
                1 => {
                    rep = "f64".into();
                    vals = fill(&mut |r| rnd_short_float(r), r, m);
                }
                _ => {
                    rep = "i32".into();
                    vals = fill(&mut |r| rnd_int(r, i32::MIN as i128, i32::MAX as i128), r, m);
                }
            },
            "SL" => {
                rep = "i32".into();
                vals = fill(&mut |r| rnd_int(r, i32::MIN as i128, i32::MAX as i128), r, m);
            }
            "SS" => {
                rep = "i16".into();
                vals = fill(&mut |r| rnd_int(r, i16::MIN as i128, i16::MAX as i128), r, m);
            }
            "UL" => {
                rep = "u32".into();
                vals = fill(&mut |r| rnd_int(r, 0, u32::MAX as i128), r, m);
            }
            "US" => {
                rep = "u16".into();
                vals = fill(&mut |r| rnd_int(r, 0, u16::MAX as i128), r, m);
            }
            "SV" => {
                rep = "i64".into();
                vals = fill(&mut |r| rnd_int(r, i64::MIN as i128, i64::MAX as i128), r, m);
            }
            "UV" => {
                rep = "u64".into();
                vals = fill(&mut |r| rnd_int(r, 0, u64::MAX as i128), r, m);
            }
            "FL" | "FD" => {
                rep = if vr == "FL" { "f32" } else { "f64" }.into();
                vals = fill(&mut |r| if r.below(5) == 0 { known_float(r, false) } else { rnd_short_float(r) }, r, m);
            }
            "OB" | "UN" | "OW" | "OF" | "OD" if r.below(40) == 0 => {
                // a long value around the block sizes of a chunked encoder
                rep = "u8c".into();
                let base = *r.pick(&[300usize, 1024, 3072, 4096, 8192, 12288, 16384]);
                let k = (base as i64 + r.range(-8, 16)).max(264) as usize / 8 * 8 + if vr == "OB" || vr == "UN" { r.below(8) as usize } else { 0 };
                vals = r.bytes(k).into_iter().map(Value::from).collect();
            }
            "OB" | "UN" => {
                rep = "u8".into();
                let k = if m == 0 { 0 } else { r.range(1, 40) as usize };
                vals = fill(&mut |r| rnd_int(r, 0, 255), r, k);
            }
            "OW" => {
                rep = "u16".into();
                vals = fill(&mut |r| rnd_int(r, 0, u16::MAX as i128), r, m * 2);
            }
            "OL" => {
                rep = "u32".into();
                vals = fill(&mut |r| rnd_int(r, 0, u32::MAX as i128), r, m);
            }
            "OV" => {
                rep = "u64".into();
                vals = fill(&mut |r| rnd_int(r, 0, u64::MAX as i128), r, m);
            }
            "OF" | "OD" => {
                if r.below(3) == 0 {
                    rep = "u8".into();
                    let w = if vr == "OF" { 4 } else { 8 };
                    vals = fill(&mut |r| rnd_int(r, 0, 255), r, m * w);
                } else {
                    rep = if vr == "OF" { "f32" } else { "f64" }.into();
                    vals = fill(&mut |r| known_float(r, false), r, m);
                }
            }
            _ => unreachable!(),
        }
        if vals.is_empty() && rep != "items" {
            rep = "empty".into();
        }
        els.push(json!({"g": g, "e": e, "vr": vr, "rep": rep, "vals": vals}));
    }
    // insertion order is arbitrary
    for i in (1..els.len()).rev() {
        let j = r.below(i as u64 + 1) as usize;
        els.swap(i, j);
    }
    Value::Array(els)
}

fn mode_random(args: &std::collections::HashMap<String, String>) {
    let n: usize = args["n"].parse().unwrap();
    let dir = &args["out"];
    std::fs::create_dir_all(dir).unwrap();
    let mut w = NdjsonWriter::create(&format!("{dir}/events.ndjson"));
    let mut texts = NdjsonWriter::create(&format!("{dir}/texts.ndjson"));
    let mut r = Rng::new(seed_from_env() ^ 0x4a50);
    let mut rep = Report::new();
    let mut elements = 0usize;
    for i in 0..n {
        let ds = rnd_ds(&mut r, 3, if i % 10 == 0 { 24 } else { 8 });
        elements += j_arr(&ds).len();
        rep.cases += 1;
        for x in exec_case(i + 1, "random", &ds) {
            texts.emit(&json!({"line": w.lines + 1, "text": x.text}));
            w.emit(&x.event);
        }
    }
    let k = w.finish();
    texts.finish();
    rep.extra.insert("events".into(), json!(k));
    rep.extra.insert("elements".into(), json!(elements));
    rep.extra.insert("events_path".into(), json!(format!("{dir}/events.ndjson")));
    rep.extra.insert("texts_path".into(), json!(format!("{dir}/texts.ndjson")));
    rep.print();
}

// ------------------------------------------------------------------ arbitrary and mutated documents

fn rnd_json(r: &mut Rng, depth: usize) -> Node {
    let k = if depth == 0 { r.below(5) } else { r.below(8) };
    match k {
        0 => Node::Null,
        1 => Node::Bool(r.coin()),
        2 => raw_num(*r.pick(&["0", "-1", "1.5", "1e5", "65536", "4294967296", "-2147483649", "1e400", "18446744073709551616",
                                "123456789012345678901234567890", "-0.0", "2.5E-3"])),
        3 => Node::Str(rnd_text(r, true)),
        4 => Node::Str((*r.pick(&["", "vr", "PN", "00100010", "NaN", "AAAA", "(0008,0018)", "Value"])).to_string()),
        5 | 6 => Node::Arr((0..r.below(4)).map(|_| rnd_json(r, depth - 1)).collect()),
        _ => Node::Obj(
            (0..r.below(4))
                .map(|_| {
                    let k = match r.below(4) {
                        0 => (*r.pick(&["vr", "Value", "InlineBinary", "BulkDataURI", "Alphabetic"])).to_string(),
                        1 => format!("{:04X}{:04X}", r.below(0x10000), r.below(0x10000)),
                        _ => rnd_text(r, true),
                    };
                    (k, rnd_json(r, depth - 1))
                })
                .collect(),
        ),
    }
}

fn vr_node(vr: &str) -> (String, Node) {
    ("vr".into(), Node::Str(vr.into()))
}
fn elem_doc(key: &str, members: Vec<(String, Node)>) -> Node {
    Node::Obj(vec![(key.into(), Node::Obj(members))])
}
fn sarr(v: &[&str]) -> Node {
    Node::Arr(v.iter().map(|s| Node::Str((*s).into())).collect())
}
fn narr(v: &[&str]) -> Node {
    Node::Arr(v.iter().map(|s| raw_num(s)).collect())
}

/// Systematic hand-written families (each with an abstract kind name used in fingerprints).
fn systematic_docs() -> Vec<(String, String)> {
    let mut d: Vec<(String, String)> = Vec::new();
    let mut push = |k: &str, n: Node| d.push((k.to_string(), n.text()));
    let val = |v: Node| ("Value".to_string(), v);
    let inl = |s: &str| ("InlineBinary".to_string(), Node::Str(s.into()));
    let bulk = |s: &str| ("BulkDataURI".to_string(), Node::Str(s.into()));
    // conflicting element fields, in every order
    for vr in ["OB", "OW", "UN", "LO", "US", "SQ", "FL", "PN", "AT"] {
        let v = match vr {
            "LO" => sarr(&["A"]),
            "PN" => Node::Arr(vec![Node::Obj(vec![("Alphabetic".into(), Node::Str("A^B".into()))])]),
            "AT" => sarr(&["00080018"]),
            "SQ" => Node::Arr(vec![Node::Obj(vec![])]),
            _ => narr(&["1"]),
        };
        push("conflict: Value then InlineBinary", elem_doc("00420011", vec![vr_node(vr), val(v.clone()), inl("AAEC")]));
        push("conflict: Value then InlineBinary, vr last", elem_doc("00420011", vec![val(v.clone()), inl("AAEC"), vr_node(vr)]));
        push("conflict: InlineBinary then Value", elem_doc("00420011", vec![vr_node(vr), inl("AAEC"), val(v.clone())]));
        push("conflict: Value then BulkDataURI", elem_doc("00420011", vec![vr_node(vr), val(v.clone()), bulk("http://x/y")]));
        push("conflict: BulkDataURI then Value", elem_doc("00420011", vec![vr_node(vr), bulk("http://x/y"), val(v.clone())]));
        push("conflict: InlineBinary then BulkDataURI", elem_doc("00420011", vec![vr_node(vr), inl("AAEC"), bulk("http://x/y")]));
        push("conflict: BulkDataURI then InlineBinary", elem_doc("00420011", vec![vr_node(vr), bulk("http://x/y"), inl("AAEC")]));
        push("conflict: all three", elem_doc("00420011", vec![val(v.clone()), bulk("u"), inl("AAEC"), vr_node(vr)]));
        push("duplicate Value", elem_doc("00420011", vec![vr_node(vr), val(v.clone()), val(v.clone())]));
        push("duplicate InlineBinary", elem_doc("00420011", vec![vr_node(vr), inl("AA=="), inl("AA==")]));
        push("duplicate vr", elem_doc("00420011", vec![vr_node(vr), vr_node(vr), val(v.clone())]));
        push("missing vr", elem_doc("00420011", vec![val(v.clone())]));
        push("vr not a string", elem_doc("00420011", vec![("vr".into(), raw_num("5")), val(v.clone())]));
        push("unknown vr", elem_doc("00420011", vec![vr_node("ZZ"), val(v.clone())]));
        push("unknown member", elem_doc("00420011", vec![vr_node(vr), ("value".into(), v.clone())]));
        push("InlineBinary with non-binary vr", elem_doc("00420011", vec![vr_node(vr), inl("AAEC")]));
    }
    // bad base64
    for s in ["A", "AA=A", "====", "AAE", "AA\nAA", "*&^%", "AAEC=", "\u{e9}\u{e9}", " AAEC"] {
        push("bad base64", elem_doc("00420011", vec![vr_node("OB"), inl(s)]));
    }
    // keys
    for k in ["", "0", "0010001", "001000100", "0010001G", "(0010,0010)", "0010,0010", "(0010,001G)", "00100010 ", "abc\u{20ac}xx",
              "\u{20ac}\u{20ac}xx", "x\u{e9}x\u{e9}xx", "(\u{e9}\u{e9}\u{e9}\u{e9}\u{e9}", "(0010\u{20ac}010)", "0010\u{e9}0010", "\u{1f600}0010",
              "001\u{e9}0010)", "(0010,0010", "abcdefgh", "ABCD00EF", "abcd00ef", "\u{0}\u{0}\u{0}\u{0}\u{0}\u{0}\u{0}\u{0}"] {
        push("key form", elem_doc(k, vec![vr_node("LO"), val(sarr(&["A"]))]));
        push("AT value form", elem_doc("00205000", vec![vr_node("AT"), val(sarr(&[k]))]));
    }
    // values of the wrong JSON type / out of range, per VR
    let all_vrs = ["AE", "AS", "AT", "CS", "DA", "DS", "DT", "FL", "FD", "IS", "LO", "LT", "OB", "OD", "OF", "OL", "OV", "OW", "PN",
                   "SH", "SL", "SQ", "SS", "ST", "SV", "TM", "UC", "UI", "UL", "UN", "UR", "US", "UT", "UV", "ZZ", ""];
    for vr in all_vrs {
        let vs: Vec<Node> = vec![
            Node::Null,
            Node::Bool(true),
            raw_num("1"),
            Node::Str("x".into()),
            Node::Obj(vec![]),
            Node::Arr(vec![]),
            Node::Arr(vec![Node::Null]),
            Node::Arr(vec![Node::Bool(false)]),
            narr(&["-1"]),
            narr(&["65536"]),
            narr(&["4294967296"]),
            narr(&["18446744073709551616"]),
            narr(&["1e400"]),
            narr(&["-1e400"]),
            narr(&["1.5"]),
            narr(&["123456789012345678901234567890123456789012345678901234567890"]),
            narr(&["0.000000000000000000000000000000000000000000000000000001e-300"]),
            sarr(&["NaN"]),
            sarr(&["nan", "Infinity", "-Infinity", "inf", "-inf", "+inf"]),
            sarr(&["1e400", "", " ", "0x10", "1_000", "\u{661}"]),
            sarr(&["99999999999999999999", "-99999999999999999999"]),
            Node::Arr(vec![Node::Arr(vec![])]),
            Node::Arr(vec![Node::Obj(vec![])]),
            Node::Arr(vec![Node::Obj(vec![("Alphabetic".into(), raw_num("1"))])]),
            Node::Arr(vec![Node::Obj(vec![("Ideographic".into(), Node::Str("x".into()))])]),
            Node::Arr(vec![Node::Obj(vec![("Alphabetic".into(), Node::Str("a".into())), ("Other".into(), Node::Str("x".into()))])]),
            Node::Arr(vec![Node::Obj(vec![("00100010".into(), Node::Str("x".into()))])]),
            Node::Arr(vec![Node::Obj(vec![("00100010".into(), Node::Obj(vec![]))])]),
            Node::Arr(vec![Node::Str("A".into()), raw_num("1"), Node::Null, Node::Obj(vec![])]),
        ];
        for v in vs {
            push("value type/range", elem_doc("00420011", vec![vr_node(vr), val(v.clone())]));
            push("value type/range, Value before vr", elem_doc("00420011", vec![val(v), vr_node(vr)]));
        }
    }
    // top level
    for t in ["", " ", "null", "[]", "[{}]", "1", "\"x\"", "{", "}", "{}", "{\"00100010\":", "{\"00100010\":null}", "{\"00100010\":[]}",
              "{\"00100010\":{}}", "{\"00100010\":1}", "{\"00100010\":{\"vr\":null}}", "{\"00100010\":{\"vr\":\"PN\"},\"00100010\":{\"vr\":\"LO\"}}",
              "\u{feff}{}", "{\"a\":\"\\ud800\"}", "{\"00100010\":{\"vr\":\"PN\"}} trailing", "{\"00100010\":{\"vr\":\"P\\u0000\"}}"] {
        d.push(("top-level form".into(), t.to_string()));
    }
    // deep nesting
    for depth in [10usize, 100, 126, 127, 128, 129, 200, 1000, 20000] {
        // sequences inside sequences
        let mut s = String::new();
        for _ in 0..depth {
            s.push_str("{\"00081140\":{\"vr\":\"SQ\",\"Value\":[");
        }
        s.push_str("{}");
        for _ in 0..depth {
            s.push_str("]}}");
        }
        d.push(("deep nesting: sequences".into(), s));
        // arrays inside a Value
        for vr in ["LO", "SQ", "FL", "UN", "PN"] {
            let mut s = format!("{{\"00420011\":{{\"vr\":\"{vr}\",\"Value\":");
            for _ in 0..depth {
                s.push('[');
            }
            for _ in 0..depth {
                s.push(']');
            }
            s.push_str("}}");
            d.push(("deep nesting: arrays in Value".into(), s));
            let mut s = format!("{{\"00420011\":{{\"Value\":");
            for _ in 0..depth {
                s.push_str("{\"a\":");
            }
            s.push('1');
            for _ in 0..depth {
                s.push('}');
            }
            s.push_str(&format!(",\"vr\":\"{vr}\"}}}}"));
            d.push(("deep nesting: objects in Value".into(), s));
        }
        // unterminated
        d.push(("deep nesting: unterminated".into(), "[".repeat(depth)));
        d.push(("deep nesting: unterminated".into(), "{\"00081140\":{\"vr\":\"SQ\",\"Value\":[".repeat(depth)));
    }
    // large multiplicity / long strings
    d.push(("large value".into(), format!("{{\"00420011\":{{\"vr\":\"OB\",\"InlineBinary\":\"{}\"}}}}", "AAAA".repeat(50000))));
    d.push(("large value".into(), format!("{{\"00420011\":{{\"vr\":\"US\",\"Value\":[{}1]}}}}", "1,".repeat(50000))));
    d.push(("large value".into(), format!("{{\"00420011\":{{\"vr\":\"IS\",\"Value\":[{}]}}}}", "9".repeat(5000))));
    d.push(("large value".into(), format!("{{\"00420011\":{{\"vr\":\"DS\",\"Value\":[\"{}\"]}}}}", "9".repeat(5000))));
    d
}

/// mutate one node of a valid output
fn mutate_tree(r: &mut Rng, n: &mut Node, budget: &mut i32) {
    if *budget <= 0 {
        return;
    }
    // descend or mutate here
    let here = r.below(6) == 0;
    if !here {
        match n {
            Node::Obj(m) if !m.is_empty() => {
                let i = r.below(m.len() as u64) as usize;
                // sometimes act on the member list itself
                match r.below(10) {
                    0 => {
                        m.remove(i);
                        *budget -= 1;
                        return;
                    }
                    1 => {
                        let x = m[i].clone();
                        m.push(x);
                        *budget -= 1;
                        return;
                    }
                    2 => {
                        let j = r.below(m.len() as u64) as usize;
                        m.swap(i, j);
                        *budget -= 1;
                        return;
                    }
                    3 => {
                        m[i].0 = match r.below(6) {
                            0 => "InlineBinary".into(),
                            1 => "Value".into(),
                            2 => "BulkDataURI".into(),
                            3 => "vr".into(),
                            4 => m[i].0.to_lowercase(),
                            _ => {
                                let mut k = m[i].0.clone();
                                k.pop();
                                k.push_str(*r.pick(&["\u{e9}", "G", "", "00", ")"]));
                                k
                            }
                        };
                        *budget -= 1;
                        return;
                    }
                    4 => {
                        let extra = (*r.pick(&["InlineBinary", "Value", "BulkDataURI", "vr"])).to_string();
                        let v = match extra.as_str() {
                            "Value" => Node::Arr(vec![raw_num("1")]),
                            _ => Node::Str((*r.pick(&["AAEC", "OB", "PN", "http://x"])).into()),
                        };
                        let at = r.below(m.len() as u64 + 1) as usize;
                        m.insert(at, (extra, v));
                        *budget -= 1;
                        return;
                    }
                    _ => {}
                }
                mutate_tree(r, &mut m[i].1, budget);
                return;
            }
            Node::Arr(a) if !a.is_empty() => {
                let i = r.below(a.len() as u64) as usize;
                match r.below(8) {
                    0 => {
                        a.remove(i);
                        *budget -= 1;
                        return;
                    }
                    1 => {
                        let x = a[i].clone();
                        a.push(x);
                        *budget -= 1;
                        return;
                    }
                    _ => {}
                }
                mutate_tree(r, &mut a[i], budget);
                return;
            }
            _ => {}
        }
    }
    // type swap / value change at this node
    *budget -= 1;
    *n = match r.below(12) {
        0 => Node::Null,
        1 => Node::Bool(r.coin()),
        2 => raw_num(*r.pick(&["0", "-1", "65536", "1e400", "1.5", "4294967296", "18446744073709551616", "-9223372036854775809", "1E-400"])),
        3 => Node::Str((*r.pick(&["", "NaN", "inf", "-inf", "x", "ZZ", "SQ", "OB", "UN", "AT", "A", "====", "(0010,0010)", "0010001\u{e9}"])).into()),
        4 => Node::Arr(vec![]),
        5 => Node::Obj(vec![]),
        6 => Node::Arr(vec![n.clone()]),
        7 => Node::Obj(vec![("Alphabetic".into(), n.clone())]),
        8 => Node::Obj(vec![("00100010".into(), n.clone())]),
        9 => match n {
            Node::Str(s) => raw_num(if s.chars().all(|c| c.is_ascii_digit()) && !s.is_empty() { s } else { "7" }),
            Node::Num(x) => Node::Str(j_str(&x["int"]).to_string()),
            _ => Node::Str("swap".into()),
        },
        10 => match n {
            Node::Str(s) => {
                let mut t = s.clone();
                t.push_str(*r.pick(&["=", "A", " ", "\u{e9}", "\\", "\u{0}"]));
                Node::Str(t)
            }
            _ => Node::Null,
        },
        _ => rnd_json(r, 2),
    };
}

/// turn the tree of a valid output into one whose numbers carry raw token text
fn rawify(n: &Node) -> Node {
    match n {
        Node::Num(x) => {
            let mut s = String::new();
            if x["neg"].as_bool().unwrap_or(false) {
                s.push('-');
            }
            s.push_str(j_str(&x["int"]));
            let f = j_str(&x["frac"]);
            if !f.is_empty() {
                s.push('.');
                s.push_str(f);
            }
            raw_num(&s)
        }
        Node::Obj(m) => Node::Obj(m.iter().map(|(k, v)| (k.clone(), rawify(v))).collect()),
        Node::Arr(a) => Node::Arr(a.iter().map(rawify).collect()),
        o => o.clone(),
    }
}

fn mutate_text(r: &mut Rng, t: &str) -> String {
    let mut b: Vec<u8> = t.as_bytes().to_vec();
    let k = r.range(1, 3);
    for _ in 0..k {
        if b.is_empty() {
            break;
        }
        let i = r.below(b.len() as u64) as usize;
        match r.below(6) {
            0 => {
                b.truncate(i);
            }
            1 => {
                b.remove(i);
            }
            2 => {
                b.insert(i, *r.pick(b"{}[]\",:\\0e-.\x00\xe9"));
            }
            3 => {
                b[i] = *r.pick(b"{}[]\",:\\0e-. \x7f");
            }
            4 => {
                let j = r.below(b.len() as u64) as usize;
                let (lo, hi) = (i.min(j), i.max(j));
                let seg: Vec<u8> = b[lo..hi].to_vec();
                let at = r.below(b.len() as u64) as usize;
                for (o, x) in seg.into_iter().take(200).enumerate() {
                    b.insert(at + o, x);
                }
            }
            _ => {
                b[i] ^= 1 << r.below(8);
            }
        }
    }
    String::from_utf8_lossy(&b).into_owned()
}

type ParseResult = Result<Result<usize, String>, String>;

/// One long-lived worker thread parses the documents; the caller waits with a budget.
/// A worker that does not answer in time is abandoned (it cannot be killed) and replaced.
struct Worker {
    tx: mpsc::Sender<String>,
    rx: mpsc::Receiver<ParseResult>,
}
impl Worker {
    fn spawn() -> Worker {
        let (tx, rx_doc) = mpsc::channel::<String>();
        let (tx_res, rx) = mpsc::channel::<ParseResult>();
        std::thread::Builder::new()
            .stack_size(256 << 20)
            .spawn(move || {
                while let Ok(doc) = rx_doc.recv() {
                    let r = catch(|| {
                        dicom_json::from_str::<InMemDicomObject>(&doc)
                            .map(|o| o.into_iter().count())
                            .map_err(|e| e.to_string())
                    });
                    if tx_res.send(r).is_err() {
                        break;
                    }
                }
            })
            .expect("spawn");
        Worker { tx, rx }
    }
}

fn parse_guarded(w: &mut Worker, doc: String, budget: Duration) -> (&'static str, String) {
    if w.tx.send(doc).is_err() {
        *w = Worker::spawn();
        return ("panic", "worker thread died".into());
    }
    match w.rx.recv_timeout(budget) {
        Ok(Ok(Ok(n))) => ("ok", format!("{n} elements")),
        Ok(Ok(Err(e))) => ("err", e),
        Ok(Err(p)) => ("panic", p),
        // the thread died without reporting (e.g. stack exhaustion would abort the process instead)
        Err(mpsc::RecvTimeoutError::Disconnected) => {
            *w = Worker::spawn();
            ("panic", "worker thread died".into())
        }
        Err(mpsc::RecvTimeoutError::Timeout) => {
            *w = Worker::spawn();
            ("hang", format!("no result within {budget:?}"))
        }
    }
}

fn mode_fuzz(args: &std::collections::HashMap<String, String>) {
    let n: usize = args["n"].parse().unwrap();
    let dir = &args["out"];
    std::fs::create_dir_all(dir).unwrap();
    let mut r = Rng::new(seed_from_env() ^ 0xf022);
    let mut docs: Vec<(String, String)> = systematic_docs();
    let n_sys = docs.len();
    // valid outputs to mutate: the serialisation of TLC's cases and of random data sets
    let mut valid: Vec<String> = Vec::new();
    if let Some(p) = args.get("cases") {
        for c in read_ndjson(p) {
            let obj = build_ds(&c["ds"]);
            if let Ok(Ok(t)) = catch(|| dicom_json::to_string(&obj)) {
                valid.push(t);
            }
        }
    }
    for _ in 0..60 {
        let obj = build_ds(&rnd_ds(&mut r, 3, 8));
        if let Ok(Ok(t)) = catch(|| dicom_json::to_string(&obj)) {
            valid.push(t);
        }
    }
    for i in 0..n {
        match i % 4 {
            0 => docs.push(("arbitrary JSON".into(), rnd_json(&mut r, 4).text())),
            1 | 2 => {
                let t = r.pick(&valid).clone();
                if let Ok(node) = serde_json::from_str::<Node>(&t) {
                    let mut node = rawify(&node);
                    let mut budget = r.range(1, 3) as i32;
                    let mut guard = 0;
                    while budget > 0 && guard < 20 {
                        mutate_tree(&mut r, &mut node, &mut budget);
                        guard += 1;
                    }
                    docs.push(("tree mutation of a valid output".into(), node.text()));
                }
            }
            _ => {
                let t = r.pick(&valid).clone();
                docs.push(("text mutation of a valid output".into(), mutate_text(&mut r, &t)));
            }
        }
    }
    run_docs(docs, dir, n_sys);
}

fn run_docs(docs: Vec<(String, String)>, dir: &str, n_sys: usize) {
    let mut w = NdjsonWriter::create(&format!("{dir}/parse_events.ndjson"));
    let mut failing = NdjsonWriter::create(&format!("{dir}/parse_failing.ndjson"));
    let mut rep = Report::new();
    let mut counts: std::collections::BTreeMap<String, usize> = Default::default();
    let mut hangs = 0;
    let mut worker = Worker::spawn();
    for (i, (kind, doc)) in docs.into_iter().enumerate() {
        rep.cases += 1;
        let (res, msg) = if hangs >= 3 {
            ("skipped", String::new())
        } else {
            parse_guarded(&mut worker, doc.clone(), Duration::from_secs(20))
        };
        if res == "skipped" {
            continue;
        }
        if res == "hang" {
            hangs += 1;
        }
        *counts.entry(res.to_string()).or_default() += 1;
        let short: String = doc.chars().take(300).collect();
        let msg_short: String = msg.chars().take(200).collect();
        w.emit(&json!({"ev": "parse", "id": i + 1, "kind": kind, "res": res, "len": doc.len(), "doc": short, "msg": msg_short}));
        if res != "ok" && res != "err" {
            failing.emit(&json!({"line": w.lines, "kind": kind, "res": res, "msg": msg, "doc": doc}));
        }
    }
    let k = w.finish();
    failing.finish();
    rep.extra.insert("events".into(), json!(k));
    rep.extra.insert("systematic".into(), json!(n_sys));
    rep.extra.insert("results".into(), json!(counts));
    rep.extra.insert("events_path".into(), json!(format!("{dir}/parse_events.ndjson")));
    rep.extra.insert("failing_path".into(), json!(format!("{dir}/parse_failing.ndjson")));
    rep.print();
    // threads that hang cannot be joined
    std::process::exit(0);
}

/// drv_json parse --docs <ndjson {kind, doc}> --out <dir>   (replay of recorded documents)
fn mode_parse(args: &std::collections::HashMap<String, String>) {
    let dir = &args["out"];
    std::fs::create_dir_all(dir).unwrap();
    let docs: Vec<(String, String)> = read_ndjson(&args["docs"])
        .iter()
        .map(|d| (j_str(&d["kind"]).to_string(), j_str(&d["doc"]).to_string()))
        .collect();
    run_docs(docs, dir, 0);
}

fn main() {
    quiet_panics();
    let args = args_map();
    let _ = Map::<String, Value>::new();
    match args.get("_0").map(|s| s.as_str()) {
        Some("cases") => mode_cases(&args),
        Some("random") => mode_random(&args),
        Some("fuzz") => mode_fuzz(&args),
        Some("parse") => mode_parse(&args),
        _ => {
            eprintln!("usage: drv_json cases|random|fuzz ...");
            std::process::exit(2);
        }
    }
}
