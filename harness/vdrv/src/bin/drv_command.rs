//! C31 conformance driver: Command Group Length of command sets.
//!
//!   drv_command cases --cases F          TLC cases (Gen_Cmd: elements + expected group length + IVRLE bytes)
//!   drv_command random --n N --out F     seeded random element sets -> trace for Trace_Cmd.tla
//!
//! Abstract -> concrete projection: text VRs (UI, AE, LO) -> Strs of ASCII strings,
//! US -> U16, UL -> U32, AT -> Tags; items are big-endian byte tuples.

use dicom_core::header::{DataElement, Length};
use dicom_core::value::Value as DValue;
use dicom_core::{PrimitiveValue, Tag, VR};
use dicom_encoding::transfer_syntax::TransferSyntaxIndex;
use dicom_object::mem::InMemElement;
use dicom_object::InMemDicomObject;
use dicom_transfer_syntax_registry::TransferSyntaxRegistry;
use serde_json::{json, Value};
use std::str::FromStr;
use vcommon::*;

fn build_value(vr: VR, items: &[Vec<u8>]) -> PrimitiveValue {
    if items.is_empty() {
        return PrimitiveValue::Empty;
    }
    match vr {
        VR::UI | VR::AE | VR::LO => PrimitiveValue::Strs(items.iter().map(|b| String::from_utf8(b.clone()).expect("ascii")).collect()),
        VR::US => PrimitiveValue::U16(items.iter().map(|b| u16::from_be_bytes([b[0], b[1]])).collect()),
        VR::UL => PrimitiveValue::U32(items.iter().map(|b| u32::from_be_bytes([b[0], b[1], b[2], b[3]])).collect()),
        VR::AT => PrimitiveValue::Tags(
            items.iter().map(|b| Tag(u16::from_be_bytes([b[0], b[1]]), u16::from_be_bytes([b[2], b[3]]))).collect(),
        ),
        _ => panic!("no projection for {vr}"),
    }
}

fn build_elems(elems: &Value) -> Vec<InMemElement> {
    j_arr(elems)
        .iter()
        .map(|e| {
            let a = j_arr(&e["tag"]);
            let tag = Tag(j_usize(&a[0]) as u16, j_usize(&a[1]) as u16);
            let vr = VR::from_str(j_str(&e["vr"])).unwrap();
            let items: Vec<Vec<u8>> = j_arr(&e["v"]).iter().map(j_bytes).collect();
            // form "str": one single string, as DataElement::new(tag, vr, "text") builds it
            let pv = if e.get("form").and_then(|f| f.as_str()) == Some("str") && items.len() == 1 && matches!(vr, VR::UI | VR::AE | VR::LO) {
                PrimitiveValue::Str(String::from_utf8(items[0].clone()).expect("ascii"))
            } else {
                build_value(vr, &items)
            };
            let value = DValue::Primitive(pv);
            // declared header length: exact (DataElement::new) or whatever the case says
            match e.get("decl").and_then(|d| d.as_str()) {
                None | Some("exact") => DataElement::new(tag, vr, value),
                Some(_) => {
                    let dl = e["dlen"].as_i64().unwrap_or(-1);
                    let len = if dl < 0 { Length::UNDEFINED } else { Length(dl as u32) };
                    DataElement::new_with_len(tag, vr, len, value)
                }
            }
        })
        .collect()
}

/// (group length recorded in the object, bytes written in IVRLE)
fn execute(elems: &Value) -> Result<(u32, Vec<u8>), String> {
    let r = catch(|| {
        let obj = InMemDicomObject::command_from_element_iter(build_elems(elems));
        let gl = obj
            .element(Tag(0, 0))
            .map_err(|e| format!("no (0000,0000): {e}"))?
            .value()
            .to_int::<u32>()
            .map_err(|e| format!("(0000,0000) is not an integer: {e}"))?;
        let ts = TransferSyntaxRegistry.get("1.2.840.10008.1.2").expect("IVRLE");
        let mut out: Vec<u8> = Vec::new();
        obj.write_dataset_with_ts(&mut out, ts).map_err(|e| format!("write: {e}"))?;
        Ok::<_, String>((gl, out))
    });
    match r {
        Err(p) => Err(format!("panic: {p}")),
        Ok(x) => x,
    }
}

fn vrs_of(elems: &Value) -> String {
    let mut v: Vec<String> = j_arr(elems)
        .iter()
        .filter(|e| matches!(j_str(&e["vr"]), "UI" | "AE" | "LO"))
        .filter(|e| {
            let n: usize = j_arr(&e["v"]).iter().map(|i| j_arr(i).len()).sum::<usize>() + j_arr(&e["v"]).len().saturating_sub(1);
            n % 2 == 1
        })
        .map(|e| j_str(&e["vr"]).to_string())
        .collect();
    v.sort();
    v.dedup();
    if v.is_empty() {
        "no odd-length value".into()
    } else {
        format!("odd-length {}", v.join("/"))
    }
}

fn run_cases(path: &str) {
    let cases = read_ndjson(path);
    let mut rep = Report::new();
    let selftest = std::env::var("VERIF_SELFTEST").ok();
    for c in &cases {
        rep.cases += 1;
        let exp_gl = j_usize(&c["gl"]) as u32;
        let mut exp = j_bytes(&c["bytes"]);
        if selftest.as_deref() == Some("cmd-gl") && rep.cases == 5 {
            exp[8] ^= 2;
        }
        match execute(&c["elems"]) {
            Err(e) => rep.mismatch(json!({"fp": format!("building/writing a command set fails ({})", &e[..e.len().min(40)]), "case": c, "error": e})),
            Ok((gl, bytes)) => {
                if gl != exp_gl {
                    rep.mismatch(json!({"fp": format!("Command Group Length differs from the encoded size of the other elements ({})", vrs_of(&c["elems"])),
                        "case": c, "gl": gl, "written": bytes.len()}));
                } else if bytes.len() != 12 + gl as usize {
                    rep.mismatch(json!({"fp": format!("written command set size differs from 12 + group length ({})", vrs_of(&c["elems"])),
                        "case": c, "gl": gl, "written": bytes.len()}));
                } else if bytes != exp {
                    rep.mismatch(json!({"fp": format!("written command set bytes differ from the PS3.5 Implicit VR LE encoding ({})", vrs_of(&c["elems"])),
                        "case": c, "got_bytes": bytes_json(&bytes)}));
                }
            }
        }
    }
    rep.print();
}

fn run_random(n: usize, out: &str) {
    let mut r = Rng::new(seed_from_env() ^ 0xC31);
    let mut w = NdjsonWriter::create(out);
    let mut rep = Report::new();
    let selftest = std::env::var("VERIF_SELFTEST").ok();
    for i in 0..n {
        rep.cases += 1;
        let k = 1 + r.below(8) as usize;
        let mut tags: Vec<u16> = Vec::new();
        while tags.len() < k {
            let e = 1 + r.below(0x1FFF) as u16;
            if !tags.contains(&e) {
                tags.push(e);
            }
        }
        tags.sort();
        let elems: Vec<Value> = tags
            .iter()
            .map(|e| {
                let vr = *r.pick(&["UI", "US", "UL", "AE", "LO", "AT"]);
                let m = r.below(4) as usize; // 0 = empty value
                let items: Vec<Vec<u8>> = (0..m)
                    .map(|_| match vr {
                        "UI" => {
                            let n = r.below(20) as usize;
                            (0..n).map(|i| if i % 2 == 1 && i + 1 < n { b'.' } else { b'1' + r.below(9) as u8 }).collect()
                        }
                        "AE" => {
                            let n = r.below(17) as usize;
                            (0..n).map(|_| b'A' + r.below(26) as u8).collect()
                        }
                        "LO" => {
                            let n = r.below(65) as usize;
                            (0..n).map(|i| if i > 0 && i + 1 < n && r.below(8) == 0 { b' ' } else { b'a' + r.below(26) as u8 }).collect()
                        }
                        "US" => r.bytes(2),
                        _ => r.bytes(4),
                    })
                    .collect();
                // declared header length: exact, or an arbitrary one (0, too long, undefined)
                let (decl, dlen): (&str, i64) = match r.below(5) {
                    0 | 1 => ("exact", 0),
                    2 => ("zero", 0),
                    3 => ("other", r.below(80) as i64),
                    _ => ("undef", -1),
                };
                let form = if items.len() == 1 && matches!(vr, "UI" | "AE" | "LO") && r.coin() { "str" } else { "plain" };
                json!({"tag": [0, e], "vr": vr, "v": items.iter().map(|b| bytes_json(b)).collect::<Vec<_>>(), "decl": decl, "dlen": dlen, "form": form})
            })
            .collect();
        let elems = Value::Array(elems);
        match execute(&elems) {
            Err(e) => w.emit(&json!({"ev": "cmd", "elems": elems, "res": e})),
            Ok((mut gl, bytes)) => {
                if selftest.as_deref() == Some("cmd-trace") && i == 3 {
                    gl += 2;
                }
                w.emit(&json!({"ev": "cmd", "elems": elems, "res": "ok", "gl_hi": gl >> 16, "gl_lo": gl & 0xFFFF, "bytes": bytes_json(&bytes)}));
            }
        }
    }
    let ev = w.finish();
    rep.extra.insert("events".into(), json!(ev));
    rep.print();
}

fn main() {
    quiet_panics();
    let a = args_map();
    match a.get("_0").map(|s| s.as_str()) {
        Some("cases") => run_cases(a.get("cases").expect("--cases")),
        Some("random") => run_random(a.get("n").and_then(|s| s.parse().ok()).unwrap_or(200), a.get("out").expect("--out")),
        _ => {
            eprintln!("usage: drv_command cases --cases F | random --n N --out F");
            std::process::exit(2);
        }
    }
}
