//! C32 conformance driver: a scripted requestor replays TLC-generated association
//! schedules against the real `storescp` binary (sync and --non-blocking) and lists
//! the sentinel directory tree enclosing the output directory after each association.
//!
//!   drv_storescp --bin <storescp> --cases <ndjson> --work <dir> --out <trace.ndjson> [--random N]

use dicom_core::value::PrimitiveValue;
use dicom_core::{dicom_value, DataElement, VR};
use dicom_dictionary_std::{tags, uids};
use dicom_encoding::TransferSyntaxIndex;
use dicom_object::InMemDicomObject;
use dicom_transfer_syntax_registry::TransferSyntaxRegistry;
use dicom_ul::association::{Association, ClientAssociationOptions, SyncAssociation};
use dicom_ul::pdu::{PDataValue, PDataValueType, Pdu};
use serde_json::{json, Value};
use std::collections::HashSet;
use std::net::TcpStream;
use std::path::{Path, PathBuf};
use std::process::{Child, Command, Stdio};
use std::time::{Duration, Instant};
use vcommon::*;

fn ts_uid(ts: &str) -> &'static str {
    match ts {
        "ivrle" => uids::IMPLICIT_VR_LITTLE_ENDIAN,
        "evrle" => uids::EXPLICIT_VR_LITTLE_ENDIAN,
        "evrbe" => uids::EXPLICIT_VR_BIG_ENDIAN,
        "encaps" => "1.2.840.10008.1.2.1.98",
        _ => panic!("ts {ts}"),
    }
}
fn other_ts(ts: &str) -> &'static str {
    match ts {
        "ivrle" => "evrle",
        // same data set encoding, different transfer syntax UID (Encapsulated Uncompressed Explicit VR LE)
        "evrle" => "encaps",
        _ => "ivrle",
    }
}
fn ts_short(uid: &str) -> String {
    let u = uid.trim_end_matches(['\0', ' ']);
    match u {
        x if x == uids::IMPLICIT_VR_LITTLE_ENDIAN => "ivrle".into(),
        x if x == uids::EXPLICIT_VR_LITTLE_ENDIAN => "evrle".into(),
        x if x == uids::EXPLICIT_VR_BIG_ENDIAN => "evrbe".into(),
        "1.2.840.10008.1.2.1.98" => "encaps".into(),
        x => x.to_string(),
    }
}

fn free_port() -> u16 {
    let l = std::net::TcpListener::bind("127.0.0.1:0").expect("bind");
    l.local_addr().unwrap().port()
}

struct Scp {
    child: Child,
    port: u16,
}
impl Drop for Scp {
    fn drop(&mut self) {
        let _ = self.child.kill();
        let _ = self.child.wait();
    }
}

fn start_scp(bin: &str, out: &Path, non_blocking: bool) -> Scp {
    for _attempt in 0..10 {
        let port = free_port();
        let mut cmd = Command::new(bin);
        cmd.arg("-p").arg(port.to_string()).arg("-o").arg(out);
        if non_blocking {
            cmd.arg("--non-blocking");
        }
        cmd.stdout(Stdio::null()).stderr(Stdio::null()).stdin(Stdio::null());
        let mut child = cmd.spawn().expect("spawn storescp");
        let t0 = Instant::now();
        let mut ready = false;
        while t0.elapsed() < Duration::from_secs(20) {
            if let Ok(Some(_)) = child.try_wait() {
                break; // exited (port taken?): retry with another port
            }
            if TcpStream::connect(("127.0.0.1", port)).is_ok() {
                ready = true;
                break;
            }
            std::thread::sleep(Duration::from_millis(20));
        }
        if ready {
            return Scp { child, port };
        }
        let _ = child.kill();
        let _ = child.wait();
    }
    panic!("could not start storescp");
}

fn walk(dir: &Path, out: &mut Vec<PathBuf>) {
    if let Ok(rd) = std::fs::read_dir(dir) {
        for e in rd.flatten() {
            let p = e.path();
            if p.is_dir() {
                walk(&p, out);
            } else {
                out.push(p);
            }
        }
    }
}

fn command_bytes(obj: &InMemDicomObject) -> Vec<u8> {
    let ts = dicom_transfer_syntax_registry::entries::IMPLICIT_VR_LITTLE_ENDIAN.erased();
    let mut v = Vec::new();
    obj.write_dataset_with_ts(&mut v, &ts).expect("command encode");
    v
}

fn store_rq(msgid: u16, cls: &str, inst_text: &str) -> Vec<u8> {
    command_bytes(&InMemDicomObject::command_from_element_iter([
        DataElement::new(tags::AFFECTED_SOP_CLASS_UID, VR::UI, dicom_value!(Str, cls)),
        DataElement::new(tags::COMMAND_FIELD, VR::US, dicom_value!(U16, [0x0001])),
        DataElement::new(tags::MESSAGE_ID, VR::US, dicom_value!(U16, [msgid])),
        DataElement::new(tags::PRIORITY, VR::US, dicom_value!(U16, [0x0000])),
        DataElement::new(tags::COMMAND_DATA_SET_TYPE, VR::US, dicom_value!(U16, [0x0000])),
        DataElement::new(tags::AFFECTED_SOP_INSTANCE_UID, VR::UI, dicom_value!(Str, inst_text)),
    ]))
}
fn echo_rq(msgid: u16) -> Vec<u8> {
    command_bytes(&InMemDicomObject::command_from_element_iter([
        DataElement::new(tags::AFFECTED_SOP_CLASS_UID, VR::UI, dicom_value!(Str, uids::VERIFICATION)),
        DataElement::new(tags::COMMAND_FIELD, VR::US, dicom_value!(U16, [0x0030])),
        DataElement::new(tags::MESSAGE_ID, VR::US, dicom_value!(U16, [msgid])),
        DataElement::new(tags::COMMAND_DATA_SET_TYPE, VR::US, dicom_value!(U16, [0x0101])),
    ]))
}

struct SentDs {
    inst: String,
    cls: String,
    pid: String,
    pixels: Vec<u8>,
    /// the whole data set as sent (in the negotiated transfer syntax): a stored file holds this
    /// request's data set iff its data set re-encodes to exactly these bytes
    evrle: Vec<u8>,
    /// transfer syntax (uid) of the presentation context the request was sent on
    tsu: String,
    /// byte length of the first three elements in the transfer syntax used (an element boundary)
    head_len: usize,
}

fn encode(obj: &InMemDicomObject, ts_uid: &str) -> Vec<u8> {
    let ts = TransferSyntaxRegistry.get(ts_uid).unwrap();
    let mut v = Vec::new();
    obj.write_dataset_with_ts(&mut v, ts).expect("encode");
    v
}

fn make_ds(inst: &str, pid: &str, seed: u64, tsu: &str) -> (InMemDicomObject, SentDs) {
    let mut rng = Rng::new(seed);
    let n = 1500 + 2 * rng.below(800) as usize;
    let px = rng.bytes(n);
    let cls = uids::SECONDARY_CAPTURE_IMAGE_STORAGE;
    let mut elems = vec![
        DataElement::new(tags::SOP_CLASS_UID, VR::UI, cls),
        DataElement::new(tags::SOP_INSTANCE_UID, VR::UI, inst),
        DataElement::new(tags::PATIENT_NAME, VR::PN, "Doe^Jane"),
        DataElement::new(tags::PATIENT_ID, VR::LO, pid),
        DataElement::new(tags::ROWS, VR::US, PrimitiveValue::from(1u16)),
        DataElement::new(tags::PIXEL_DATA, VR::OB, PrimitiveValue::from(px.clone())),
    ];
    // every other data set carries attributes the others lack, so that bytes left over from one
    // request cannot hide inside the next one
    if seed % 2 == 1 {
        elems.push(DataElement::new(tags::IMAGE_TYPE, VR::CS, "ORIGINAL"));
        elems.push(DataElement::new(tags::INSTANCE_CREATION_DATE, VR::DA, "20200102"));
    }
    let obj = InMemDicomObject::from_element_iter(elems);
    let head = InMemDicomObject::from_element_iter(obj.iter().take(3).cloned());
    let sd = SentDs {
        inst: inst.to_string(),
        cls: cls.to_string(),
        pid: pid.to_string(),
        pixels: px,
        evrle: encode(&obj, tsu),
        tsu: tsu.to_string(),
        head_len: encode(&head, tsu).len(),
    };
    (obj, sd)
}

/// Project a DIMSE response received from the tool: one command PDV, decoded as Implicit VR LE.
fn rsp_event(kind: &str, req: usize, msgid: u16, pc: u8, data: &[PDataValue]) -> Value {
    let mut ev = json!({"ev": kind, "req": req, "msgid": msgid, "npdv": data.len(), "pc_ok": false, "is_cmd": false,
        "field": 0, "msgid_resp": 0, "status": 65535, "dstype": 0, "decoded": false});
    if let Some(v) = data.first() {
        ev["pc_ok"] = json!(v.presentation_context_id == pc);
        ev["is_cmd"] = json!(v.value_type == PDataValueType::Command && v.is_last);
        let ts = dicom_transfer_syntax_registry::entries::IMPLICIT_VR_LITTLE_ENDIAN.erased();
        if let Ok(Ok(obj)) = catch(|| InMemDicomObject::read_dataset_with_ts(v.data.as_slice(), &ts)) {
            ev["decoded"] = json!(true);
            let g = |t| obj.element(t).ok().and_then(|e| e.to_int::<u16>().ok()).unwrap_or(65535);
            ev["field"] = json!(g(tags::COMMAND_FIELD));
            ev["msgid_resp"] = json!(g(tags::MESSAGE_ID_BEING_RESPONDED_TO));
            ev["status"] = json!(g(tags::STATUS));
            ev["dstype"] = json!(g(tags::COMMAND_DATA_SET_TYPE));
        }
    }
    ev
}

fn main() {
    quiet_panics();
    let args = args_map();
    let bin = args.get("bin").expect("--bin").clone();
    let cases = read_ndjson(args.get("cases").expect("--cases"));
    let work = PathBuf::from(args.get("work").expect("--work"));
    let mut tr = NdjsonWriter::create(args.get("out").expect("--out"));
    let mut rep = Report::new();
    let mut counter: u64 = 0;
    let mut files_seen_total = 0usize;
    let mut assoc_failed = 0usize;
    let seed = seed_from_env();

    for (mi, mode) in ["sync", "async"].iter().enumerate() {
        let sentinel = work.join(format!("sentinel_{mode}"));
        let _ = std::fs::remove_dir_all(&sentinel);
        let out_dir = sentinel.join("a").join("out");
        std::fs::create_dir_all(&out_dir).unwrap();
        let sentinel_abs = std::fs::canonicalize(&sentinel).unwrap();
        let out_abs = std::fs::canonicalize(&out_dir).unwrap();
        let scp = start_scp(&bin, &out_abs, mi == 1);
        let mut seen: HashSet<PathBuf> = HashSet::new();

        for c in &cases {
            rep.cases += 1;
            let ts = j_str(&c["ts"]);
            let h = j_arr(&c["h"]);
            let mut sent: Vec<SentDs> = Vec::new();
            let assoc = ClientAssociationOptions::new()
                .calling_ae_title("VERIF-SCU")
                .with_presentation_context(uids::SECONDARY_CAPTURE_IMAGE_STORAGE, vec![ts_uid(ts)])
                // a second storage context with another transfer syntax: every second request goes there
                .with_presentation_context(uids::SECONDARY_CAPTURE_IMAGE_STORAGE, vec![ts_uid(other_ts(ts))])
                .with_presentation_context(uids::VERIFICATION, vec![uids::IMPLICIT_VR_LITTLE_ENDIAN])
                .read_timeout(Duration::from_secs(10))
                .establish(("127.0.0.1", scp.port));
            let mut assoc = match assoc {
                Ok(a) => a,
                Err(e) => {
                    assoc_failed += 1;
                    rep.mismatch(json!({"problem":"could not associate","err":e.to_string()}));
                    continue;
                }
            };
            let pcs = assoc.presentation_contexts().to_vec();
            let pc_store = pcs.iter().find(|p| ts_short(&p.transfer_syntax) == ts).map(|p| p.id);
            let pc_echo = pcs.iter().map(|p| p.id).max().unwrap_or(1);
            let Some(pc1) = pc_store else {
                assoc_failed += 1;
                let _ = assoc.abort();
                continue;
            };
            let ts2 = other_ts(ts);
            let pc2 = pcs
                .iter()
                .find(|p| p.id != pc1 && p.abstract_syntax == uids::SECONDARY_CAPTURE_IMAGE_STORAGE && ts_short(&p.transfer_syntax) == ts2)
                .map(|p| p.id)
                .unwrap_or(pc1);
            // context and transfer syntax of the request being sent
            let mut pc = pc1;
            let mut cur_ts: &str = ts;
            tr.emit(&json!({"ev":"assoc","mode":mode,"ts":ts}));
            let max = assoc.acceptor_max_pdu_length() as usize;
            // pending data fragments of the current request
            let mut frags: Vec<Vec<u8>> = Vec::new();
            let mut msgid: u16 = 0;
            let mut dead = false;
            let mut i = 0;
            while i < h.len() && !dead {
                let op = j_str(&h[i]["op"]);
                match op {
                    "store" => {
                        counter += 1;
                        msgid += 1;
                        let atoms: Vec<&str> = j_arr(&h[i]["uid"]).iter().map(j_str).collect();
                        let mut text = String::new();
                        for a in &atoms {
                            match *a {
                                "n" => {
                                    counter += 1;
                                    text.push_str(&format!("1.2.3.{counter}"));
                                }
                                "/" => text.push('/'),
                                ".." => text.push_str(".."),
                                "." => text.push('.'),
                                "ROOT" => {
                                    text.push_str(sentinel_abs.to_str().unwrap());
                                    text.push('/');
                                }
                                "NUL" => text.push('\0'),
                                x => panic!("atom {x}"),
                            }
                        }
                        let inst = format!("1.2.826.0.1.3680043.9.{}.{}", 7000 + mi, counter);
                        // requests alternate between the two storage contexts
                        if sent.len() % 2 == 1 && pc2 != pc1 {
                            pc = pc2;
                            cur_ts = ts2;
                        } else {
                            pc = pc1;
                            cur_ts = ts;
                        }
                        let tsx = TransferSyntaxRegistry.get(ts_uid(cur_ts)).unwrap();
                        let (obj, sd) = make_ds(&inst, &format!("P{counter}"), counter, ts_uid(cur_ts));
                        let mut bytes = Vec::new();
                        obj.write_dataset_with_ts(&mut bytes, tsx).expect("encode ds");
                        // number of fragments = 1 + number of "part" ops before "last"
                        let mut parts = 0;
                        let mut j = i + 1;
                        while j < h.len() && j_str(&h[j]["op"]) != "last" && j_str(&h[j]["op"]) != "store" {
                            if j_str(&h[j]["op"]) == "part" {
                                parts += 1;
                            }
                            j += 1;
                        }
                        let nfr = parts + 1;
                        // the first fragment ends at an element boundary (after three elements), the rest is
                        // cut evenly
                        frags.clear();
                        let mut off = 0;
                        for k in 0..nfr {
                            let end = if k + 1 == nfr {
                                bytes.len()
                            } else if k == 0 {
                                sd.head_len.min(bytes.len())
                            } else {
                                let chunk = ((bytes.len() - off) / (nfr - k)).max(2) & !1usize;
                                (off + chunk).min(bytes.len())
                            };
                            frags.push(bytes[off..end].to_vec());
                            off = end;
                        }
                        frags.reverse();
                        let cmd = store_rq(msgid, &sd.cls, &text);
                        if assoc
                            .send(&Pdu::PData {
                                data: vec![PDataValue { presentation_context_id: pc, value_type: PDataValueType::Command, is_last: true, data: cmd }],
                            })
                            .is_err()
                        {
                            dead = true;
                        }
                        sent.push(sd);
                        tr.emit(&json!({"ev":"store","req":sent.len(),"ts":cur_ts,"cls":sent.last().unwrap().cls,"inst":sent.last().unwrap().inst,
                            "uid_atoms": atoms, "uid_text_len": text.len(), "fragments": nfr}));
                    }
                    "part" | "last" => {
                        if let Some(f) = frags.pop() {
                            let last = op == "last";
                            // respect the acceptor's maximum PDU length
                            let mut pieces: Vec<&[u8]> = f.chunks((max - 12).max(2)).collect();
                            if pieces.is_empty() {
                                pieces.push(&[]);
                            }
                            let np = pieces.len();
                            for (pi, p) in pieces.into_iter().enumerate() {
                                let r = assoc.send(&Pdu::PData {
                                    data: vec![PDataValue {
                                        presentation_context_id: pc,
                                        value_type: PDataValueType::Data,
                                        is_last: last && pi + 1 == np,
                                        data: p.to_vec(),
                                    }],
                                });
                                if r.is_err() {
                                    dead = true;
                                    break;
                                }
                            }
                            if last && !dead {
                                match assoc.receive() {
                                    Ok(Pdu::PData { data }) => {
                                        tr.emit(&rsp_event("store_rsp", sent.len(), msgid, pc, &data));
                                    }
                                    _ => dead = true,
                                }
                            }
                        }
                    }
                    "echo" => {
                        msgid += 1;
                        let cmd = echo_rq(msgid);
                        let r = assoc.send(&Pdu::PData {
                            data: vec![PDataValue { presentation_context_id: pc_echo, value_type: PDataValueType::Command, is_last: true, data: cmd }],
                        });
                        if r.is_err() {
                            dead = true;
                        } else {
                            match assoc.receive() {
                                Ok(Pdu::PData { data }) => {
                                    tr.emit(&rsp_event("echo_rsp", 0, msgid, pc_echo, &data));
                                }
                                _ => dead = true,
                            }
                        }
                    }
                    "release" => {
                        // handled below
                    }
                    x => panic!("op {x}"),
                }
                i += 1;
            }
            if dead {
                let _ = assoc.abort();
            } else {
                let _ = assoc.release();
            }
            // in async mode a failed association is torn down by a task: give the tool a moment
            // only when no response told us the request was processed
            if dead {
                std::thread::sleep(Duration::from_millis(30));
            }
            // list new files in the sentinel tree
            let mut files = Vec::new();
            walk(&sentinel_abs, &mut files);
            files.sort();
            for f in files {
                if seen.contains(&f) {
                    continue;
                }
                seen.insert(f.clone());
                files_seen_total += 1;
                let parent = f.parent().unwrap();
                let wher = if parent == out_abs {
                    "out"
                } else if parent.starts_with(&out_abs) {
                    "sub"
                } else {
                    "up"
                };
                let rel = f.strip_prefix(&sentinel_abs).unwrap().to_string_lossy().to_string();
                let opened = catch(|| dicom_object::open_file(&f));
                let mut ev = json!({"ev":"fs","where":wher,"path":rel,"readable":false,"ds":0,"meta_ts":"","meta_cls":"","meta_inst":""});
                if let Ok(Ok(fo)) = opened {
                    ev["readable"] = json!(true);
                    ev["meta_ts"] = json!(ts_short(fo.meta().transfer_syntax()));
                    ev["meta_cls"] = json!(fo.meta().media_storage_sop_class_uid().trim_end_matches(['\0', ' ']));
                    ev["meta_inst"] = json!(fo.meta().media_storage_sop_instance_uid().trim_end_matches(['\0', ' ']));
                    let inst = fo.element(tags::SOP_INSTANCE_UID).ok().and_then(|e| e.to_str().ok().map(|s| s.trim_end_matches(['\0', ' ']).to_string()));
                    let pid = fo.element(tags::PATIENT_ID).ok().and_then(|e| e.to_str().ok().map(|s| s.trim_end().to_string()));
                    let px = fo.element(tags::PIXEL_DATA).ok().and_then(|e| e.to_bytes().ok().map(|b| b.to_vec()));
                    for (k, s) in sent.iter().enumerate() {
                        let whole = catch(|| encode(&fo, &s.tsu)).unwrap_or_default();
                        if Some(&s.inst) == inst.as_ref() && Some(&s.pid) == pid.as_ref() && px.as_deref() == Some(&s.pixels[..])
                            && whole == s.evrle
                        {
                            ev["ds"] = json!(k + 1);
                        }
                    }
                }
                tr.emit(&ev);
                // keep the tree small: the file has been observed
                let _ = std::fs::remove_file(&f);
                seen.remove(&f);
            }
            tr.emit(&json!({"ev":"end"}));
        }
        drop(scp);
    }
    let n = tr.finish();
    rep.extra.insert("events".into(), json!(n));
    rep.extra.insert("files_seen".into(), json!(files_seen_total));
    rep.extra.insert("assoc_failed".into(), json!(assoc_failed));
    rep.print();
}
