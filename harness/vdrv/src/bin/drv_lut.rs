//! C22 conformance driver: modality / VOI LUT through the real pipeline
//! (decode_pixel_data -> to_vec / to_vec_with_options -> convert_pixel_slice -> Lut).
//!
//!   drv_lut run --cases <ndjson> --points <trace> --scans <trace> --random N --nscans M [--full]
//!
//! For every TLC parameter case (and N seeded random dyadic ones) an image holding the
//! chosen raw stored values is built and converted; the outputs are logged for
//! Trace_Lut.tla.  M scans with arbitrary (non-dyadic) parameters and all three VOI
//! functions are logged point by point in increasing input value.

#[path = "../pixel_common.rs"]
mod pixel_common;

use dicom_core::{DataElement, PrimitiveValue, VR};
use dicom_dictionary_std::tags;
use dicom_pixeldata::{ConvertOptions, PixelDecoder, VoiLutFunction, VoiLutOption, WindowLevel};
use pixel_common::*;
use serde_json::{json, Value};
use vcommon::*;

fn raws(ba: u16, bs: u16, full: bool) -> Vec<u32> {
    let top: u32 = 1 << ba;
    if ba == 8 || full {
        return (0..top).collect();
    }
    let mut v: Vec<u32> = (0..=40).collect();
    let mut add = |c: i64| {
        for d in -3..=3 {
            let x = c + d;
            if x >= 0 && (x as u32) < top {
                v.push(x as u32);
            }
        }
    };
    add(1 << (bs - 1));
    add(1 << bs);
    add((1 << bs) + (1 << (bs - 1)));
    add(top as i64 - 1);
    add(top as i64 / 2);
    let mut x = 0u32;
    while x < top {
        v.push(x);
        x += 1021;
    }
    v.sort();
    v.dedup();
    v
}

fn image(ba: u16, bs: u16, signed: bool, slope: f64, icpt: f64, raws: &[u32]) -> Obj {
    let mut spec = ImgSpec::simple(1, raws.len() as u16, 1, ba, 1);
    spec.bits_stored = bs;
    spec.high_bit = bs - 1;
    spec.pixel_rep = signed as u16;
    let mut o = base_object(&spec);
    o.put(DataElement::new(tags::RESCALE_SLOPE, VR::DS, format!("{slope}")));
    o.put(DataElement::new(tags::RESCALE_INTERCEPT, VR::DS, format!("{icpt}")));
    if ba == 8 {
        let b: Vec<u8> = raws.iter().map(|x| *x as u8).collect();
        o.put(DataElement::new(tags::PIXEL_DATA, VR::OB, PrimitiveValue::from(b)));
    } else {
        let w: Vec<u16> = raws.iter().map(|x| *x as u16).collect();
        o.put(DataElement::new(tags::PIXEL_DATA, VR::OW, PrimitiveValue::U16(w.into())));
    }
    file_obj(o, EVRLE)
}

/// exact integer n with value = n / q, if value * q is integral and fits 31 bits
fn scaled(v: f64, q: f64) -> Value {
    let n = v * q;
    if n.is_finite() && n.fract() == 0.0 && n.abs() < 2147483647.0 {
        json!(n as i64)
    } else {
        // not an exact multiple of 1/q (or NaN / out of range): a marker no exact value can equal
        json!(-2147483000i64)
    }
}

fn flat<T, E: std::fmt::Display>(r: Result<Result<T, E>, String>) -> Result<T, String> {
    match r {
        Ok(Ok(v)) => Ok(v),
        Ok(Err(e)) => Err(format!("error: {e}")),
        Err(p) => Err(format!("panic: {p}")),
    }
}

fn vfn(name: &str) -> VoiLutFunction {
    match name {
        "LINEAR" => VoiLutFunction::Linear,
        "LINEAR_EXACT" => VoiLutFunction::LinearExact,
        _ => VoiLutFunction::Sigmoid,
    }
}

fn run_case(c: &Value, full: bool, w: &mut NdjsonWriter) {
    let g = |k: &str| c[k].as_i64().unwrap_or_else(|| panic!("field {k} in {c}"));
    let (ba, bs) = (g("ba") as u16, g("bs") as u16);
    let signed = c["signed"].as_bool().unwrap();
    let (slope4, icpt4) = (g("slope4"), g("icpt4"));
    let (slope, icpt) = (slope4 as f64 / 4.0, icpt4 as f64 / 4.0);
    let is_win = c["kind"] == "win";
    // all 65536 stored values only for the identity rescale (about 2 M values in the thorough tier)
    let rs = raws(ba, bs, full && !is_win && slope4 == 4 && icpt4 == 0);
    // the number of columns is a u16: split long lists
    let mut pts: Vec<Value> = Vec::new();
    let mut res = "ok".to_string();
    let mut q = 4.0;
    for chunk in rs.chunks(60000) {
        let obj = image(ba, bs, signed, slope, icpt, chunk);
        if !is_win {
            match flat(catch(|| obj.decode_pixel_data().and_then(|d| d.to_vec::<f64>()))) {
                Ok(ys) => {
                    for (r, y) in chunk.iter().zip(ys.iter()) {
                        pts.push(json!([r, scaled(*y, 4.0)]));
                    }
                }
                Err(e) => res = e,
            }
        } else {
            let wd = g("w");
            let fname = c["fn"].as_str().unwrap();
            q = if fname == "LINEAR" { if wd >= 2 { 4.0 * (wd - 1) as f64 } else { 4.0 } } else if wd >= 1 { 4.0 * wd as f64 } else { 4.0 };
            let opts = ConvertOptions::new().with_voi_lut(VoiLutOption::CustomWithFunction(
                WindowLevel { center: g("c4") as f64 / 4.0, width: wd as f64 },
                vfn(fname),
            ));
            let yf = flat(catch(|| obj.decode_pixel_data().and_then(|d| d.to_vec_with_options::<f64>(&opts))));
            let yu = flat(catch(|| obj.decode_pixel_data().and_then(|d| d.to_vec_with_options::<u16>(&opts))));
            match (yf, yu) {
                (Ok(yf), Ok(yu)) => {
                    for ((r, y), u) in chunk.iter().zip(yf.iter()).zip(yu.iter()) {
                        pts.push(json!([r, scaled(*y, q), u]));
                    }
                }
                (Err(e), _) | (_, Err(e)) => res = e,
            }
        }
    }
    let mut ev = c.clone();
    ev["ev"] = c["kind"].clone();
    ev["res"] = json!(res.chars().take(200).collect::<String>());
    ev["q"] = json!(q as i64);
    ev["pts"] = Value::Array(pts);
    w.emit(&ev);
}

fn scan(rng: &mut Rng, w: &mut NdjsonWriter) {
    let bs = rng.range(1, 16) as u16;
    let ba = if bs <= 8 && rng.coin() { 8 } else { 16 };
    let signed = rng.coin();
    let fname = *rng.pick(&["LINEAR", "LINEAR_EXACT", "SIGMOID"]);
    // arbitrary, non-dyadic parameters; slope >= 0
    let slope = (rng.below(4000) as f64) / 997.0;
    let icpt = (rng.range(-200000, 200000) as f64) / 97.0;
    let span = (1u32 << bs) as f64;
    let lo = if signed { -span / 2.0 } else { 0.0 };
    let centre = slope * (lo + span * (rng.below(1000) as f64 / 999.0)) + icpt + (rng.below(7) as f64) / 7.0;
    let width = match rng.below(6) {
        0 => 0.0,
        1 => 1.0,
        2 => -(rng.below(50) as f64),
        3 => (rng.below(1000) as f64) / 333.0,
        _ => slope.max(0.01) * span * (rng.below(1000) as f64 + 1.0) / 700.0,
    };
    // raws in increasing input value: for signed data the upper half (negative values) first
    let all = raws(ba, bs, false);
    let mut rs: Vec<u32> = all.into_iter().filter(|r| *r < (1u32 << bs)).collect();
    if signed {
        let half = 1u32 << (bs - 1);
        let (neg, pos): (Vec<u32>, Vec<u32>) = rs.iter().partition(|r| **r >= half);
        rs = neg.into_iter().chain(pos).collect();
    }
    let obj = image(ba, bs, signed, slope, icpt, &rs);
    let opts = ConvertOptions::new().with_voi_lut(VoiLutOption::CustomWithFunction(WindowLevel { center: centre, width }, vfn(fname)));
    let r = flat(catch(|| obj.decode_pixel_data().and_then(|d| d.to_vec_with_options::<u16>(&opts))));
    let mut ev = json!({"ev": "scan", "fn": fname, "ba": ba, "bs": bs, "signed": signed, "slope": slope, "intercept": icpt,
        "center": centre, "width": width, "n": rs.len()});
    match r {
        Ok(ys) => {
            ev["res"] = json!("ok");
            w.emit(&ev);
            for (raw, y) in rs.iter().zip(ys.iter()) {
                w.emit(&json!({"ev": "pt", "raw": raw, "y": y}));
            }
        }
        Err(e) => {
            ev["res"] = json!(e.chars().take(200).collect::<String>());
            w.emit(&ev);
        }
    }
}

fn main() {
    quiet_panics();
    let a = args_map();
    if a.get("_0").map(|s| s.as_str()) != Some("run") {
        eprintln!("usage: drv_lut run --cases F --points F --scans F --random N --nscans M [--full]");
        std::process::exit(2);
    }
    let full = a.contains_key("full");
    let cases = read_ndjson(&a["cases"]);
    let mut rep = Report::new();
    let mut w = NdjsonWriter::create(&a["points"]);
    let mut npts = 0u64;
    for c in &cases {
        rep.cases += 1;
        run_case(c, full, &mut w);
    }
    // seeded random dyadic parameters
    let mut rng = Rng::new(seed_from_env() ^ 0xC22);
    let nrand: usize = a.get("random").map(|s| s.parse().unwrap()).unwrap_or(0);
    for _ in 0..nrand {
        rep.cases += 1;
        let bs = rng.range(1, 16);
        let ba = if bs <= 8 && rng.coin() { 8 } else { 16 };
        let signed = rng.coin();
        let slope4 = *rng.pick(&[1i64, 2, 3, 4, 6, 8, 12, -4, -2, -8]);
        let icpt4 = rng.range(-8192, 8192);
        if rng.coin() {
            run_case(&json!({"kind": "interp", "ba": ba, "bs": bs, "signed": signed, "slope4": slope4, "icpt4": icpt4}), false, &mut w);
        } else {
            let fname = if rng.coin() { "LINEAR" } else { "LINEAR_EXACT" };
            let k = rng.range(0, 12);
            let wd = match rng.below(5) {
                0 => 0,
                1 => 1,
                _ => (1i64 << k) + if fname == "LINEAR" { 1 } else { 0 },
            };
            let slope4 = slope4.abs();
            let mid = if signed { 0 } else { 1i64 << (bs - 1) };
            let c4 = slope4 * mid + icpt4 + rng.range(-40, 40);
            let n = [1u32, 2, 4, 8, 16, 32].into_iter().find(|p| *p as i64 >= bs).unwrap();
            let ymax = (1i64 << n) - 1;
            run_case(&json!({"kind": "win", "fn": fname, "ba": ba, "bs": bs, "signed": signed, "slope4": slope4, "icpt4": icpt4,
                "c4": c4, "w": wd, "ymax": ymax}), false, &mut w);
        }
    }
    npts += 0;
    let lines = w.finish();
    let mut ws = NdjsonWriter::create(&a["scans"]);
    let nscans: usize = a.get("nscans").map(|s| s.parse().unwrap()).unwrap_or(0);
    for _ in 0..nscans {
        scan(&mut rng, &mut ws);
    }
    let slines = ws.finish();
    let _ = npts;
    rep.extra.insert("point_events".into(), Value::from(lines as u64));
    rep.extra.insert("scan_events".into(), Value::from(slines as u64));
    rep.extra.insert("scans".into(), Value::from(nscans as u64));
    rep.print();
}
