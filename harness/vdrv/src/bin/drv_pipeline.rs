//! Growth beyond C22: the decoded-image conversion pipeline under ConvertOptions.
//!
//!   drv_pipeline run --cases <ndjson> --out <trace>
//!
//! Every case (Gen_Pipeline.tla) describes a tiny two-frame image (stored values, where the
//! rescale / window parameters live: top-level attributes, shared or per-frame functional
//! groups), an API (to_vec_with_options::<f64> on the whole object, the same on
//! decode_pixel_data_frame(k), to_dynamic_image_with_options(k)) and a ConvertOptions
//! combination.  The driver builds the object, calls the API and logs the samples for
//! Trace_Pipeline.tla.  It decides nothing.

#[path = "../pixel_common.rs"]
mod pixel_common;

use dicom_core::value::{DataSetSequence, Value as DValue};
use dicom_core::{DataElement, Length, PrimitiveValue, VR};
use dicom_dictionary_std::tags;
use dicom_encoding::TransferSyntaxIndex;
use dicom_object::InMemDicomObject;
use dicom_pixeldata::Transcode;
use dicom_transfer_syntax_registry::TransferSyntaxRegistry;
use dicom_pixeldata::image::DynamicImage;
use dicom_pixeldata::{
    BitDepthOption, ConvertOptions, ModalityLutOption, PhotometricInterpretationOption, PixelDecoder, Rescale,
    VoiLutFunction, VoiLutOption, WindowLevel,
};
use pixel_common::*;
use serde_json::{json, Value};
use vcommon::*;

fn q(v: &Value) -> f64 {
    v.as_i64().unwrap() as f64 / 4.0
}

fn seq(items: Vec<InMemDicomObject>) -> DValue<InMemDicomObject, Vec<u8>> {
    DValue::Sequence(DataSetSequence::new(items, Length::UNDEFINED))
}

fn rescale_item(r: &Value) -> DataElement<InMemDicomObject, Vec<u8>> {
    let mut it = InMemDicomObject::new_empty();
    it.put(DataElement::new(tags::RESCALE_INTERCEPT, VR::DS, format!("{}", q(&r[1]))));
    it.put(DataElement::new(tags::RESCALE_SLOPE, VR::DS, format!("{}", q(&r[0]))));
    it.put(DataElement::new(tags::RESCALE_TYPE, VR::LO, "US"));
    DataElement::new(tags::PIXEL_VALUE_TRANSFORMATION_SEQUENCE, VR::SQ, seq(vec![it]))
}
fn window_item(w: &Value) -> DataElement<InMemDicomObject, Vec<u8>> {
    let mut it = InMemDicomObject::new_empty();
    it.put(DataElement::new(tags::WINDOW_CENTER, VR::DS, format!("{}", q(&w[0]))));
    it.put(DataElement::new(tags::WINDOW_WIDTH, VR::DS, format!("{}", w[1].as_i64().unwrap())));
    DataElement::new(tags::FRAME_VOILUT_SEQUENCE, VR::SQ, seq(vec![it]))
}

fn build(c: &Value) -> Obj {
    let g = |k: &str| c[k].as_u64().unwrap_or_else(|| panic!("field {k}"));
    let (ba, bs, spp, frames) = (g("ba") as u16, g("bs") as u16, g("spp") as u16, g("frames") as u32);
    let mut spec = ImgSpec::simple(2, 2, spp, ba, frames);
    spec.bits_stored = bs;
    spec.high_bit = bs - 1;
    spec.pixel_rep = c["signed"].as_bool().unwrap() as u16;
    let mut o = base_object(&spec);
    o.put(DataElement::new(tags::PHOTOMETRIC_INTERPRETATION, VR::CS, c["pi"].as_str().unwrap()));
    if spp == 3 {
        o.put(DataElement::new(tags::PLANAR_CONFIGURATION, VR::US, PrimitiveValue::from(g("planar") as u16)));
    }
    let resc = c["resc"].as_array().unwrap();
    let win = c["win"].as_array().unwrap();
    let mut shared = InMemDicomObject::new_empty();
    let mut per: Vec<InMemDicomObject> = (0..frames).map(|_| InMemDicomObject::new_empty()).collect();
    let (mut use_shared, mut use_per) = (false, false);
    match c["resc_src"].as_str().unwrap() {
        "top" => {
            o.put(DataElement::new(tags::RESCALE_SLOPE, VR::DS, format!("{}", q(&resc[0][0]))));
            o.put(DataElement::new(tags::RESCALE_INTERCEPT, VR::DS, format!("{}", q(&resc[0][1]))));
        }
        "shared" => {
            shared.put(rescale_item(&resc[0]));
            use_shared = true;
        }
        "perframe" => {
            for (f, it) in per.iter_mut().enumerate() {
                it.put(rescale_item(&resc[f]));
            }
            use_per = true;
        }
        _ => {}
    }
    match c["win_src"].as_str().unwrap() {
        "top" => {
            o.put(DataElement::new(tags::WINDOW_CENTER, VR::DS, format!("{}", q(&win[0][0]))));
            o.put(DataElement::new(tags::WINDOW_WIDTH, VR::DS, format!("{}", win[0][1].as_i64().unwrap())));
        }
        "shared" => {
            shared.put(window_item(&win[0]));
            use_shared = true;
        }
        "perframe" => {
            for (f, it) in per.iter_mut().enumerate() {
                it.put(window_item(&win[f]));
            }
            use_per = true;
        }
        _ => {}
    }
    let vfn = c["vfn"].as_str().unwrap();
    if !vfn.is_empty() {
        o.put(DataElement::new(tags::VOILUT_FUNCTION, VR::CS, vfn));
    }
    if use_shared {
        o.put(DataElement::new(tags::SHARED_FUNCTIONAL_GROUPS_SEQUENCE, VR::SQ, seq(vec![shared])));
    }
    if use_per {
        o.put(DataElement::new(tags::PER_FRAME_FUNCTIONAL_GROUPS_SEQUENCE, VR::SQ, seq(per)));
    }
    let raws: Vec<u64> = c["raws"].as_array().unwrap().iter().flat_map(|f| f.as_array().unwrap().iter().map(|x| x.as_u64().unwrap())).collect();
    if ba == 8 {
        let b: Vec<u8> = raws.iter().map(|x| *x as u8).collect();
        o.put(DataElement::new(tags::PIXEL_DATA, VR::OB, PrimitiveValue::from(b)));
    } else {
        let w: Vec<u16> = raws.iter().map(|x| *x as u16).collect();
        o.put(DataElement::new(tags::PIXEL_DATA, VR::OW, PrimitiveValue::U16(w.into())));
    }
    file_obj(o, EVRLE)
}

fn vfn(name: &str) -> VoiLutFunction {
    match name {
        "LINEAR_EXACT" => VoiLutFunction::LinearExact,
        "SIGMOID" => VoiLutFunction::Sigmoid,
        _ => VoiLutFunction::Linear,
    }
}

fn options(c: &Value) -> ConvertOptions {
    let wl = WindowLevel { center: q(&c["cw"][0]), width: c["cw"][1].as_i64().unwrap() as f64 };
    ConvertOptions::new()
        .with_modality_lut(match c["mod"].as_str().unwrap() {
            "Override" => ModalityLutOption::Override(Rescale::new(q(&c["ovr"][0]), q(&c["ovr"][1]))),
            "None" => ModalityLutOption::None,
            _ => ModalityLutOption::Default,
        })
        .with_voi_lut(match c["voi"].as_str().unwrap() {
            "First" => VoiLutOption::First,
            "Custom" => VoiLutOption::Custom(wl),
            "CustomFn" => VoiLutOption::CustomWithFunction(wl, vfn(c["cfn"].as_str().unwrap())),
            "Identity" => VoiLutOption::Identity,
            "Normalize" => VoiLutOption::Normalize,
            _ => VoiLutOption::Default,
        })
        .with_bit_depth(match c["depth"].as_str().unwrap() {
            "Force8" => BitDepthOption::Force8Bit,
            "Force16" => BitDepthOption::Force16Bit,
            _ => BitDepthOption::Auto,
        })
        .with_photometric_interpretation(match c["piopt"].as_str().unwrap() {
            "Ignore" => PhotometricInterpretationOption::Ignore,
            _ => PhotometricInterpretationOption::InvertMonochrome1,
        })
}

/// y = yi + yf / 16384 (exact for the dyadic cases; otherwise yf is rounded down, which no
/// exact dyadic expectation equals and which keeps order and end points for Normalize)
fn split(y: f64) -> Value {
    let yi = y.floor();
    let yf = ((y - yi) * 16384.0).floor();
    if y.is_finite() && yi.abs() < 2.0e9 {
        json!([yi as i64, yf as i64])
    } else {
        json!([-1000000i64, 1])
    }
}

fn flat<T, E: std::fmt::Display>(r: Result<Result<T, E>, String>) -> Result<T, String> {
    match r {
        Ok(Ok(v)) => Ok(v),
        Ok(Err(e)) => Err(format!("error: {e}")),
        Err(p) => Err(format!("panic: {p}")),
    }
}

fn attr_str(o: &Obj, tag: dicom_core::Tag) -> String {
    o.get(tag).and_then(|e| e.to_str().ok().map(|s| s.trim().to_string())).unwrap_or_default()
}
fn attr_u(o: &Obj, tag: dicom_core::Tag) -> i64 {
    o.get(tag).and_then(|e| e.to_int::<i64>().ok()).unwrap_or(0)
}

/// native colour / palette image -> target -> Explicit VR LE; what the attributes and the
/// decoded view say after each step
fn transcode_case(c: &Value) -> Value {
    let mut o = build(c);
    let target = match c["target"].as_str().unwrap() {
        "EVRBE" => EVRBE,
        "EncUncomp" => ENCAPS_UNCOMPRESSED,
        _ => DEFLATED_FRAME,
    };
    let mut ev = c.clone();
    ev["ev"] = json!("case");
    let step = |o: &mut Obj, uid: &str| -> String {
        let ts = TransferSyntaxRegistry.get(uid).expect("ts");
        match catch(|| o.transcode(ts)) {
            Ok(Ok(())) => "ok".into(),
            Ok(Err(e)) => format!("error: {e}").chars().take(160).collect(),
            Err(p) => format!("panic: {p}").chars().take(160).collect(),
        }
    };
    let r1 = step(&mut o, target);
    let (dres, dbytes, dpi, dplanar) = match flat(catch(|| o.decode_pixel_data())) {
        Ok(d) => (
            "ok".to_string(),
            d.data().to_vec(),
            format!("{:?}", d.photometric_interpretation()),
            d.planar_configuration() as u16 as i64,
        ),
        Err(e) => (e.chars().take(160).collect(), vec![], String::new(), -1),
    };
    // DecodedPixelData reports the photometric interpretation as an enum: map the debug name back
    let dpi = match dpi.as_str() {
        "Rgb" => "RGB",
        "YbrFull" => "YBR_FULL",
        "PaletteColor" => "PALETTE COLOR",
        "Monochrome1" => "MONOCHROME1",
        "Monochrome2" => "MONOCHROME2",
        x => x,
    }
    .to_string();
    ev["mid"] = json!({"res": r1, "pi": attr_str(&o, tags::PHOTOMETRIC_INTERPRETATION),
        "planar": attr_u(&o, tags::PLANAR_CONFIGURATION), "spp": attr_u(&o, tags::SAMPLES_PER_PIXEL),
        "dres": dres, "dbytes": jb(&dbytes), "dpi": dpi, "dplanar": dplanar});
    let r2 = step(&mut o, EVRLE);
    let pixels = match o.get(tags::PIXEL_DATA).map(|e| e.value()) {
        Some(DValue::Primitive(p)) => p.to_bytes().to_vec(),
        _ => vec![],
    };
    ev["final"] = json!({"res": r2, "pixels": jb(&pixels), "pi": attr_str(&o, tags::PHOTOMETRIC_INTERPRETATION),
        "planar": attr_u(&o, tags::PLANAR_CONFIGURATION), "spp": attr_u(&o, tags::SAMPLES_PER_PIXEL)});
    ev
}

/// Encapsulated Uncompressed object with an Extended Offset Table -> target; are the
/// (7FE0,0001)/(7FE0,0002) attributes still there and what do they say
fn eot_case(c: &Value) -> Value {
    let mut o = build(c);
    let mut ev = c.clone();
    ev["ev"] = json!("case");
    let ts = TransferSyntaxRegistry.get(ENCAPS_UNCOMPRESSED).expect("ts");
    let mut res = match catch(|| o.transcode(ts)) {
        Ok(Ok(())) => "ok".to_string(),
        Ok(Err(e)) => format!("setup error: {e}"),
        Err(p) => format!("setup panic: {p}"),
    };
    let lens: Vec<u64> = match o.get(tags::PIXEL_DATA).map(|e| e.value()) {
        Some(DValue::PixelSequence(s)) => s.fragments().iter().map(|f| f.len() as u64).collect(),
        _ => vec![],
    };
    let mut offs = Vec::new();
    let mut at = 0u64;
    for l in &lens {
        offs.push(at);
        at += 8 + l;
    }
    o.put(DataElement::new(tags::EXTENDED_OFFSET_TABLE, VR::OV, PrimitiveValue::U64(offs.clone().into())));
    o.put(DataElement::new(tags::EXTENDED_OFFSET_TABLE_LENGTHS, VR::OV, PrimitiveValue::U64(lens.clone().into())));
    ev["before"] = json!({"offsets": offs, "lengths": lens});
    if res == "ok" {
        let target = if c["target"] == "EVRLE" { EVRLE } else { DEFLATED_FRAME };
        let ts = TransferSyntaxRegistry.get(target).expect("ts");
        res = match catch(|| o.transcode(ts)) {
            Ok(Ok(())) => "ok".to_string(),
            Ok(Err(e)) => format!("error: {e}"),
            Err(p) => format!("panic: {p}"),
        };
    }
    let (native, frag_lens): (bool, Vec<u64>) = match o.get(tags::PIXEL_DATA).map(|e| e.value()) {
        Some(DValue::PixelSequence(s)) => (false, s.fragments().iter().map(|f| f.len() as u64).collect()),
        _ => (true, vec![]),
    };
    let rd = |t| -> Vec<u64> { o.get(t).and_then(|e| e.to_multi_int::<u64>().ok()).unwrap_or_default() };
    ev["res"] = json!(res.chars().take(160).collect::<String>());
    ev["after"] = json!({"present": o.get(tags::EXTENDED_OFFSET_TABLE).is_some() || o.get(tags::EXTENDED_OFFSET_TABLE_LENGTHS).is_some(),
        "native": native, "offsets": rd(tags::EXTENDED_OFFSET_TABLE), "lengths": rd(tags::EXTENDED_OFFSET_TABLE_LENGTHS), "frag_lens": frag_lens});
    ev
}

fn main() {
    quiet_panics();
    let a = args_map();
    if a.get("_0").map(|s| s.as_str()) != Some("run") {
        eprintln!("usage: drv_pipeline run --cases F --out F");
        std::process::exit(2);
    }
    let cases = read_ndjson(&a["cases"]);
    let mut w = NdjsonWriter::create(&a["out"]);
    let mut rep = Report::new();
    for c in &cases {
        rep.cases += 1;
        if c["api"] == "eot" {
            w.emit(&eot_case(c));
            continue;
        }
        if c["api"] == "transcode" {
            w.emit(&transcode_case(c));
            continue;
        }
        let obj = build(c);
        let opts = options(c);
        let frame = c["frame"].as_u64().unwrap() as u32;
        let mut ev = c.clone();
        ev["ev"] = json!("case");
        ev["variant"] = json!("");
        ev["out"] = json!([]);
        match c["api"].as_str().unwrap() {
            "vec" => match flat(catch(|| obj.decode_pixel_data().and_then(|d| d.to_vec_with_options::<f64>(&opts)))) {
                Ok(v) => {
                    ev["res"] = json!("ok");
                    ev["out"] = Value::Array(v.iter().map(|y| split(*y)).collect());
                }
                Err(e) => ev["res"] = json!(e.chars().take(160).collect::<String>()),
            },
            "framevec" => match flat(catch(|| obj.decode_pixel_data_frame(frame).and_then(|d| d.to_vec_with_options::<f64>(&opts)))) {
                Ok(v) => {
                    ev["res"] = json!("ok");
                    ev["out"] = Value::Array(v.iter().map(|y| split(*y)).collect());
                }
                Err(e) => ev["res"] = json!(e.chars().take(160).collect::<String>()),
            },
            _ => match flat(catch(|| obj.decode_pixel_data().and_then(|d| d.to_dynamic_image_with_options(frame, &opts)))) {
                Ok(img) => {
                    ev["res"] = json!("ok");
                    let (variant, samples): (&str, Vec<u64>) = match &img {
                        DynamicImage::ImageLuma8(b) => ("Luma8", b.as_raw().iter().map(|x| *x as u64).collect()),
                        DynamicImage::ImageLuma16(b) => ("Luma16", b.as_raw().iter().map(|x| *x as u64).collect()),
                        DynamicImage::ImageRgb8(b) => ("Rgb8", b.as_raw().iter().map(|x| *x as u64).collect()),
                        DynamicImage::ImageRgb16(b) => ("Rgb16", b.as_raw().iter().map(|x| *x as u64).collect()),
                        _ => ("other", vec![]),
                    };
                    ev["variant"] = json!(variant);
                    ev["out"] = json!(samples);
                }
                Err(e) => ev["res"] = json!(e.chars().take(160).collect::<String>()),
            },
        }
        w.emit(&ev);
    }
    let lines = w.finish();
    rep.extra.insert("events".into(), Value::from(lines as u64));
    rep.print();
}
