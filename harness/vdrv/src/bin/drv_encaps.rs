//! C18 / C19 conformance driver: encapsulation helpers and transcoding.
//!
//!   drv_encaps c18 --cases <ndjson> --out <trace> [--random N]
//!       helper cases {frames, frag_size} and image cases from Gen_Encaps (plus N seeded random ones)
//!       -> events "helper" / "transcode" for Trace_Encaps.tla
//!   drv_encaps c19 --cases <ndjson> --out <trace> [--random N]
//!       transcoding chains from Gen_Transcode (plus N seeded random ones) -> events for Trace_Transcode.tla
//!
//! The driver only executes and records; TLC judges the events.

#[path = "../pixel_common.rs"]
mod pixel_common;

use dicom_core::value::fragments::Fragments;
use dicom_core::value::{PixelFragmentSequence, Value as DValue};
use dicom_core::{DataElement, Tag, VR};
use dicom_dictionary_std::tags;
use dicom_encoding::adapters::PixelDataObject;
use dicom_encoding::{Codec, TransferSyntaxIndex};
use dicom_object::InMemDicomObject;
use dicom_pixeldata::encapsulation::{encapsulate, encapsulate_single_frame};
use dicom_pixeldata::Transcode;
use dicom_transfer_syntax_registry::TransferSyntaxRegistry;
use pixel_common::*;
use serde_json::{json, Value};
use vcommon::*;

fn res_json(r: &Result<Vec<u8>, String>) -> Value {
    match r {
        Ok(b) => json!({"res": "ok", "data": jb(b)}),
        Err(e) => json!({"res": "err", "msg": e.chars().take(200).collect::<String>()}),
    }
}

/// Locate the encapsulated Pixel Data element in a written file and list its items.
/// Returns (offset table as written, [(position relative to the first item after the table, length)]).
fn wire_scan(bytes: &[u8]) -> Result<(Vec<u32>, Vec<(u32, u32)>), String> {
    let pat: [u8; 12] = [0xE0, 0x7F, 0x10, 0x00, b'O', b'B', 0, 0, 0xFF, 0xFF, 0xFF, 0xFF];
    let start = bytes
        .windows(12)
        .enumerate()
        .skip(132)
        .find(|(_, w)| *w == pat)
        .map(|(i, _)| i)
        .ok_or("no encapsulated pixel data element found")?;
    let mut p = start + 12;
    let rd = |p: usize| -> Result<(u16, u16, u32), String> {
        if p + 8 > bytes.len() {
            return Err("truncated item header".into());
        }
        Ok((
            u16::from_le_bytes([bytes[p], bytes[p + 1]]),
            u16::from_le_bytes([bytes[p + 2], bytes[p + 3]]),
            u32::from_le_bytes([bytes[p + 4], bytes[p + 5], bytes[p + 6], bytes[p + 7]]),
        ))
    };
    // basic offset table
    let (g, e, len) = rd(p)?;
    if (g, e) != (0xFFFE, 0xE000) {
        return Err(format!("first item tag is ({g:04X},{e:04X})"));
    }
    p += 8;
    if p + len as usize > bytes.len() || len % 4 != 0 {
        return Err("bad offset table item".into());
    }
    let bot: Vec<u32> = bytes[p..p + len as usize]
        .chunks(4)
        .map(|c| u32::from_le_bytes([c[0], c[1], c[2], c[3]]))
        .collect();
    p += len as usize;
    let base = p;
    let mut items = Vec::new();
    loop {
        let (g, e, len) = rd(p)?;
        match (g, e) {
            (0xFFFE, 0xE000) => {
                items.push(((p - base) as u32, len));
                p += 8 + len as usize;
                if p > bytes.len() {
                    return Err("fragment runs past the end".into());
                }
            }
            (0xFFFE, 0xE0DD) => break,
            _ => return Err(format!("unexpected tag ({g:04X},{e:04X}) at {p}")),
        }
    }
    Ok((bot, items))
}

fn wire_json(o: &Obj) -> Value {
    let r = write_bytes(o).and_then(|b| wire_scan(&b));
    match r {
        Ok((bot, items)) => json!({"res": "ok", "bot": ju32(&bot),
            "items": Value::Array(items.iter().map(|(p, l)| json!([p, l])).collect())}),
        Err(e) => json!({"res": "err", "msg": e, "bot": [], "items": []}),
    }
}

fn fpd_json(o: &Obj, nframes: u32) -> Value {
    Value::Array(
        (0..nframes)
            .map(|k| {
                res_json(&match catch(|| PixelDataObject::frame_pixel_data(o, k).map(|c| c.to_vec())) {
                    Ok(Some(v)) => Ok(v),
                    Ok(None) => Err("none".into()),
                    Err(p) => Err(format!("panic: {p}")),
                })
            })
            .collect(),
    )
}

/// transfer syntaxes of the registry which have a pixel data encoder
fn encoder_syntaxes() -> Vec<(String, String)> {
    let mut v: Vec<(String, String)> = TransferSyntaxRegistry
        .iter()
        .filter(|ts| matches!(ts.codec(), Codec::EncapsulatedPixelData(_, Some(_))))
        .map(|ts| (ts.uid().to_string(), ts.name().to_string()))
        .collect();
    v.sort();
    v
}

fn helper_events(frames: &[Vec<u8>], frag_size: u32, w: &mut NdjsonWriter, exp: Option<&Value>, drift: &mut Vec<Value>) {
    let n = frames.len();
    let mut apis = vec!["from_vec"];
    if frag_size == 0 {
        apis.push("encapsulate");
    }
    if n == 1 {
        apis.push("single");
    }
    for api in apis {
        let fr = frames.to_vec();
        let r: Result<(PixelFragmentSequence<Vec<u8>>, Vec<u32>), String> = catch(|| match api {
            "from_vec" => {
                let fs: Vec<Fragments> = fr.into_iter().map(|f| Fragments::new(f, frag_size)).collect();
                let lens: Vec<u32> = fs.iter().map(|f| f.len()).collect();
                (fs.into(), lens)
            }
            "encapsulate" => match encapsulate(fr) {
                DValue::PixelSequence(s) => (s, vec![]),
                _ => panic!("encapsulate did not return a pixel sequence"),
            },
            _ => match encapsulate_single_frame(fr.into_iter().next().unwrap(), frag_size) {
                DValue::PixelSequence(s) => (s, vec![]),
                _ => panic!("encapsulate_single_frame did not return a pixel sequence"),
            },
        });
        let mut ev = json!({"ev": "helper", "api": api, "frag_size": frag_size, "frames": jbb(frames),
            "nframes_attr": -1, "total_attr": -1});
        match r {
            Ok((seq, flens)) => {
                let bot: Vec<u32> = seq.offset_table().to_vec();
                let frags: Vec<Vec<u8>> = seq.fragments().to_vec();
                let spec = ImgSpec::simple(1, 1, 1, 8, n as u32);
                let mut o = base_object(&spec);
                let v: DValue<InMemDicomObject, Vec<u8>> = seq.into();
                o.put(DataElement::new(tags::PIXEL_DATA, VR::OB, v));
                let o = file_obj(o, ENCAPS_UNCOMPRESSED);
                ev["res"] = json!("ok");
                ev["bot"] = ju32(&bot);
                ev["frags"] = jbb(&frags);
                ev["flens"] = ju32(&flens);
                ev["wire"] = wire_json(&o);
                ev["fpd"] = fpd_json(&o, n as u32);
                if let Some(e) = exp {
                    // implementation-shaped model vs code: informational
                    let got_lens: Vec<u64> = frags.iter().map(|f| f.len() as u64).collect();
                    let exp_lens: Vec<u64> = e["exp_groups"].as_array().unwrap().iter()
                        .flat_map(|g| g.as_array().unwrap().iter().map(|x| x.as_u64().unwrap())).collect();
                    if got_lens != exp_lens || ju32(&bot) != e["exp_bot"] {
                        drift.push(json!({"api": api, "frag_size": frag_size, "frame_lens": frames.iter().map(|f| f.len()).collect::<Vec<_>>(),
                            "model_lens": exp_lens, "code_lens": got_lens, "model_bot": e["exp_bot"], "code_bot": ju32(&bot)}));
                    }
                }
            }
            Err(p) => {
                ev["res"] = json!(format!("panic: {p}"));
                ev["bot"] = json!([]);
                ev["frags"] = json!([]);
                ev["flens"] = json!([]);
                ev["wire"] = json!({"res": "err", "bot": [], "items": []});
                ev["fpd"] = json!([]);
            }
        }
        w.emit(&ev);
    }
}

/// Large frames cannot travel byte by byte: the frame holds the position pattern
/// B(i) = i % 251 + 1 and the event carries run-length coded fragment lengths plus the
/// bytes found at a few probe positions of the concatenated fragments (-1 = beyond the end).
fn helper_big_event(frame_len: usize, frag_size: u32, w: &mut NdjsonWriter) {
    let frame: Vec<u8> = (0..frame_len).map(|i| (i % 251) as u8 + 1).collect();
    let r = catch(|| -> PixelFragmentSequence<Vec<u8>> { vec![Fragments::new(frame, frag_size)].into() });
    let mut ev = json!({"ev": "helper_big", "api": "from_vec", "frame_len": frame_len, "frag_size": frag_size});
    match r {
        Ok(seq) => {
            let frags = seq.fragments();
            let mut runs: Vec<(u64, u64)> = Vec::new();
            for f in frags {
                match runs.last_mut() {
                    Some((c, l)) if *l == f.len() as u64 => *c += 1,
                    _ => runs.push((1, f.len() as u64)),
                }
            }
            let total: usize = frags.iter().map(|f| f.len()).sum();
            let at = |p: usize| -> i64 {
                let mut q = p;
                for f in frags {
                    if q < f.len() {
                        return f[q] as i64;
                    }
                    q -= f.len();
                }
                -1
            };
            let first_len = frags.first().map(|f| f.len()).unwrap_or(1).max(1);
            let mut probes = vec![0, 1, first_len - 1, first_len, frame_len / 2, frame_len - 2, frame_len - 1, frame_len, frame_len + 1];
            probes.retain(|p| *p < frame_len + 2);
            probes.sort();
            probes.dedup();
            ev["res"] = json!("ok");
            ev["bot"] = ju32(seq.offset_table());
            ev["runs"] = Value::Array(runs.iter().map(|(c, l)| json!([c, l])).collect());
            ev["total"] = json!(total);
            ev["probes"] = Value::Array(probes.iter().map(|p| json!([p, at(*p)])).collect());
        }
        Err(p) => {
            ev["res"] = json!(format!("panic: {p}"));
            ev["bot"] = json!([]);
            ev["runs"] = json!([]);
            ev["total"] = json!(0);
            ev["probes"] = json!([]);
        }
    }
    w.emit(&ev);
}

fn attr_int(o: &Obj, tag: Tag) -> i64 {
    match o.get(tag) {
        None => -1,
        Some(e) => e.to_int::<i64>().unwrap_or(-2),
    }
}

fn transcode_events(spec: &ImgSpec, data: &[u8], tss: &[(String, String)], w: &mut NdjsonWriter) {
    for (uid, name) in tss {
        let mut o = native_object(spec, data, EVRLE, spec.bits_alloc == 16);
        let ts = TransferSyntaxRegistry.get(uid).expect("ts");
        let r = match catch(|| o.transcode(ts)) {
            Ok(Ok(())) => Ok(()),
            Ok(Err(e)) => Err(format!("error: {e}")),
            Err(p) => Err(format!("panic: {p}")),
        };
        let mut ev = json!({"ev": "transcode", "ts": uid, "ts_name": name, "rows": spec.rows, "cols": spec.cols,
            "spp": spec.spp, "bits": spec.bits_alloc, "frames": spec.frames, "data": jb(data)});
        let seq = match (&r, o.get(tags::PIXEL_DATA).map(|e| e.value())) {
            (Ok(()), Some(DValue::PixelSequence(s))) => Ok(s.clone()),
            (Ok(()), _) => Err("pixel data is not encapsulated after transcoding".to_string()),
            (Err(e), _) => Err(e.clone()),
        };
        match seq {
            Ok(s) => {
                ev["res"] = json!("ok");
                ev["bot"] = ju32(s.offset_table());
                ev["frags"] = jbb(s.fragments());
                ev["nframes_attr"] = json!(attr_int(&o, tags::NUMBER_OF_FRAMES));
                ev["total_attr"] = json!(attr_int(&o, Tag(0x7FE0, 0x0003)));
                ev["ts_after"] = json!(o.meta().transfer_syntax());
                ev["wire"] = wire_json(&o);
                ev["fpd"] = fpd_json(&o, spec.frames);
            }
            Err(e) => {
                ev["res"] = json!(e.chars().take(200).collect::<String>());
                ev["bot"] = json!([]);
                ev["frags"] = json!([]);
                ev["nframes_attr"] = json!(-1);
                ev["total_attr"] = json!(-1);
                ev["wire"] = json!({"res": "err", "bot": [], "items": []});
                ev["fpd"] = json!([]);
            }
        }
        w.emit(&ev);
    }
}

/// a hand-assembled pixel fragment sequence (frames of 1..3 fragments, exact offset table):
/// frame retrieval in memory and after a write/read round trip
fn assembled_event(c: &Value, w: &mut NdjsonWriter) {
    let groups: Vec<Vec<Vec<u8>>> = c["frags"].as_array().unwrap().iter().map(bytes_list_of).collect();
    let bot: Vec<u32> = c["bot"].as_array().unwrap().iter().map(|x| x.as_u64().unwrap() as u32).collect();
    let frags: Vec<Vec<u8>> = groups.iter().flatten().cloned().collect();
    let n = groups.len() as u32;
    let o = encapsulated_object(&ImgSpec::simple(1, 1, 1, 8, n), bot.clone(), frags.clone(), ENCAPS_UNCOMPRESSED);
    let reread = write_bytes(&o).and_then(|b| read_bytes(&b));
    let fpd_reread = match &reread {
        Ok(r) => fpd_json(r, n),
        Err(e) => Value::Array((0..n).map(|_| json!({"res": "err", "msg": e})).collect()),
    };
    w.emit(&json!({"ev": "assembled", "groups": c["groups"], "res": "ok", "bot": ju32(&bot), "frags": jbb(&frags),
        "nframes_attr": attr_int(&o, tags::NUMBER_OF_FRAMES), "total_attr": -1,
        "wire": wire_json(&o), "fpd": fpd_json(&o, n), "fpd_reread": fpd_reread}));
}

fn c18(cases_path: &str, out: &str, random: usize, big: bool) {
    let cases = read_ndjson(cases_path);
    let mut w = NdjsonWriter::create(out);
    let mut rep = Report::new();
    let tss = encoder_syntaxes();
    let mut drift = Vec::new();
    let (mut nh, mut ni) = (0u64, 0u64);
    for c in &cases {
        rep.cases += 1;
        match c["kind"].as_str() {
            Some("helper") => {
                nh += 1;
                helper_events(&bytes_list_of(&c["frames"]), c["frag_size"].as_u64().unwrap() as u32, &mut w, Some(c), &mut drift);
            }
            Some("assembled") => {
                nh += 1;
                assembled_event(c, &mut w);
            }
            Some("image") => {
                ni += 1;
                transcode_events(&ImgSpec::from_json(c), &bytes_of(&c["data"]), &tss, &mut w);
            }
            _ => panic!("unknown case kind {c}"),
        }
    }
    // seeded random: frame counts 1-16, arbitrary sizes; random images
    let mut rng = Rng::new(seed_from_env() ^ 0xC18);
    for i in 0..random {
        rep.cases += 1;
        if i % 2 == 0 {
            nh += 1;
            let n = rng.range(1, 16) as usize;
            let (frames, fs): (Vec<Vec<u8>>, u32) = if n == 1 || rng.below(4) == 0 {
                let l = rng.range(1, 300) as usize;
                (vec![rng.bytes(l)], rng.range(0, 64) as u32)
            } else {
                // several frames: the helper requires one fragment per frame
                let lens: Vec<usize> = (0..n).map(|_| rng.range(1, 60) as usize).collect();
                let maxl = *lens.iter().max().unwrap() as i64;
                let fs = if rng.coin() { 0 } else { rng.range(maxl, maxl + 9) as u32 };
                let mut fr = Vec::new();
                for l in &lens {
                    fr.push(rng.bytes(*l));
                }
                (fr, fs)
            };
            helper_events(&frames, fs, &mut w, None, &mut drift);
        } else {
            ni += 1;
            let bits = if rng.coin() { 8 } else { 16 };
            let (r, c) = (rng.range(1, 9) as u16, rng.range(1, 9) as u16);
            let spp = if rng.coin() { 1 } else { 3 };
            let spec = ImgSpec::simple(r, c, spp, bits, rng.range(1, 16) as u32);
            let data = rng.bytes(spec.frame_bytes() * spec.frames as usize);
            // opaque codecs produce large fragments: keep them to the two lossless syntaxes + first JPEG
            let sel: Vec<(String, String)> = tss.iter().filter(|(u, _)| u == ENCAPS_UNCOMPRESSED || u == DEFLATED_FRAME).cloned().collect();
            transcode_events(&spec, &data, &sel, &mut w);
        }
    }
    // frames of 16-32 MiB (one 4k x 4k frame of 8/16 bits) with fragment sizes around them
    if big {
        for (len, fs) in [
            (16_777_216usize, 1_048_576u32),
            (16_777_217, 1_048_576),
            (16_777_217, 16_777_216),
            (16_777_219, 0),
            (16_785_409, 65_536),
            (33_554_434, 33_554_432),
            (33_554_433, 4_194_304),
        ] {
            rep.cases += 1;
            nh += 1;
            helper_big_event(len, fs, &mut w);
        }
    }
    let lines = w.finish();
    rep.extra.insert("events".into(), Value::from(lines as u64));
    rep.extra.insert("helper_cases".into(), Value::from(nh));
    rep.extra.insert("image_cases".into(), Value::from(ni));
    rep.extra.insert("encoder_syntaxes".into(), json!(tss));
    rep.extra.insert("drift_count".into(), Value::from(drift.len() as u64));
    drift.truncate(5);
    rep.extra.insert("drift".into(), Value::Array(drift));
    rep.print();
}

fn ts_uid(name: &str) -> &'static str {
    match name {
        "IVRLE" => IVRLE,
        "EVRLE" => EVRLE,
        "EVRBE" => EVRBE,
        "EncUncomp" => ENCAPS_UNCOMPRESSED,
        "DeflFrame" => DEFLATED_FRAME,
        _ => panic!("unknown transfer syntax name {name}"),
    }
}
fn ts_name(uid: &str) -> String {
    for n in ["IVRLE", "EVRLE", "EVRBE", "EncUncomp", "DeflFrame"] {
        if ts_uid(n) == uid.trim_end_matches('\0') {
            return n.to_string();
        }
    }
    uid.to_string()
}

/// replay one chain: transcoding steps and file hops; returns the event
fn chain_event(spec: &ImgSpec, data: &[u8], start: &str, chain: &[String]) -> Value {
    let mut o = native_object(spec, data, ts_uid(start), spec.bits_alloc == 16);
    let mut res = "ok".to_string();
    let mut trail = Vec::new();
    for (k, step) in chain.iter().enumerate() {
        let r: Result<(), String> = if step == "hop" {
            match catch(|| write_bytes(&o).and_then(|b| read_bytes(&b))) {
                Ok(Ok(n)) => {
                    o = n;
                    Ok(())
                }
                Ok(Err(e)) => Err(format!("hop: {e}")),
                Err(p) => Err(format!("hop panic: {p}")),
            }
        } else {
            let ts = TransferSyntaxRegistry.get(ts_uid(step)).expect("ts");
            match catch(|| o.transcode(ts)) {
                Ok(Ok(())) => Ok(()),
                Ok(Err(e)) => Err(format!("transcode to {step}: {e}")),
                Err(p) => Err(format!("transcode to {step} panic: {p}")),
            }
        };
        let plen: i64 = match o.get(tags::PIXEL_DATA).map(|e| e.value()) {
            Some(DValue::Primitive(p)) => p.to_bytes().len() as i64,
            Some(DValue::PixelSequence(s)) => s.fragments().iter().map(|f| f.len() as i64).sum(),
            _ => -1,
        };
        trail.push(json!({"step": step, "ts": ts_name(o.meta().transfer_syntax()), "len": plen}));
        if let Err(e) = r {
            res = format!("step {}: {}", k + 1, e.chars().take(200).collect::<String>());
            break;
        }
    }
    let (native, pixels) = match o.get(tags::PIXEL_DATA).map(|e| e.value()) {
        Some(DValue::Primitive(p)) => (true, p.to_bytes().to_vec()),
        _ => (false, vec![]),
    };
    let a = |t: Tag| attr_int(&o, t).max(0);
    json!({"ev": "chain", "rows": spec.rows, "cols": spec.cols, "spp": spec.spp, "bits": spec.bits_alloc,
        "frames": spec.frames, "data": jb(data), "start": start, "chain": chain, "res": res, "trail": trail,
        "final": {"ts": ts_name(o.meta().transfer_syntax()), "native": native, "pixels": jb(&pixels),
            "nframes": a(tags::NUMBER_OF_FRAMES), "rows": a(tags::ROWS), "cols": a(tags::COLUMNS),
            "spp": a(tags::SAMPLES_PER_PIXEL), "bits": a(tags::BITS_ALLOCATED)}})
}

fn c19(cases_path: &str, out: &str, random: usize) {
    let cases = read_ndjson(cases_path);
    let mut w = NdjsonWriter::create(out);
    let mut rep = Report::new();
    let mut distinct = std::collections::BTreeSet::new();
    for c in &cases {
        rep.cases += 1;
        let chain: Vec<String> = c["chain"].as_array().unwrap().iter().map(|x| x.as_str().unwrap().to_string()).collect();
        distinct.insert(format!("{}/{:?}/{}x{}x{}x{}x{}", c["start"], chain, c["rows"], c["cols"], c["spp"], c["bits"], c["frames"]));
        w.emit(&chain_event(&ImgSpec::from_json(c), &bytes_of(&c["data"]), c["start"].as_str().unwrap(), &chain));
    }
    let mut rng = Rng::new(seed_from_env() ^ 0xC19);
    let names = ["IVRLE", "EVRLE", "EVRBE", "EncUncomp", "DeflFrame"];
    for _ in 0..random {
        rep.cases += 1;
        let bits = if rng.coin() { 8 } else { 16 };
        let (r, c) = (rng.range(1, 12) as u16, rng.range(1, 12) as u16);
        let spp = if rng.coin() { 1 } else { 3 };
        let spec = ImgSpec::simple(r, c, spp, bits, rng.range(1, 7) as u32);
        let data = rng.bytes(spec.frame_bytes() * spec.frames as usize);
        let start = *rng.pick(&names[..3]);
        let mut chain = Vec::new();
        let mut cur = start;
        let n = rng.range(1, 4);
        for k in 0..n {
            if rng.below(3) == 0 {
                chain.push("hop".to_string());
            }
            let mut t = *rng.pick(&names);
            if k == n - 1 {
                t = "EVRLE";
            }
            if t != cur {
                chain.push(t.to_string());
                cur = t;
            }
        }
        if cur != "EVRLE" {
            chain.push("EVRLE".to_string());
        }
        if !chain.iter().any(|x| x != "hop") {
            chain.push("EncUncomp".to_string());
            chain.push("EVRLE".to_string());
        }
        if rng.below(4) == 0 {
            chain.push("hop".to_string());
        }
        distinct.insert(format!("{start}/{chain:?}/{r}x{c}x{spp}x{bits}x{}", spec.frames));
        w.emit(&chain_event(&spec, &data, start, &chain));
    }
    let lines = w.finish();
    rep.extra.insert("events".into(), Value::from(lines as u64));
    rep.extra.insert("distinct_chains".into(), Value::from(distinct.len() as u64));
    let have: Vec<String> = encoder_syntaxes().into_iter().map(|(u, _)| u).collect();
    rep.extra.insert("encoder_syntaxes".into(), json!(have));
    rep.print();
}

fn main() {
    quiet_panics();
    let a = args_map();
    let random = a.get("random").map(|s| s.parse().unwrap()).unwrap_or(0);
    match a.get("_0").map(|s| s.as_str()) {
        Some("c19") => c19(&a["cases"], &a["out"], random),
        Some("c18") => c18(&a["cases"], &a["out"], random, a.contains_key("big")),
        _ => {
            eprintln!("usage: drv_encaps c18|c19 --cases F --out F [--random N]");
            std::process::exit(2);
        }
    }
}
