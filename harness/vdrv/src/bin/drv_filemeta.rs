//! C09 conformance driver: file meta group integrity and preamble handling.
//!
//!   drv_filemeta replay --cases <ndjson> --trace <ndjson> --dir <scratch dir> [--selftest true]
//!   drv_filemeta random --n <N> --trace <ndjson> --dir <scratch dir> [--corrupt true]
//!
//! `replay` consumes the cases TLC printed from specs/objects/Gen_FileMeta.tla:
//!   kind "ops":  { base, init: Expect, steps: [ {target, act:{a,kind,n}, ok, exp: Expect} ] }
//!   kind "file": { base, init: Expect, shape, entry, option, outcome }
//!   Expect = { tab: {field: {p,n,s,c}}, gl, written, layout: [{elem,vr,hdr,vlen}], reread: {..} }
//! The table is built with FileMetaTableBuilder, operations are applied with
//! ApplyOp::apply; after every step the driver observes the real table:
//! information_group_length, the bytes `write()` really produces, the group length
//! encoded in them, an element scan of those bytes and the table obtained by
//! `FileMetaTable::from_reader`.  It (A) compares the observation for equality with
//! what TLC expected and (B) logs it as an "obs" event for Trace_FileMeta.tla,
//! which judges it with the layout operators of FileMeta.tla.  No length is
//! computed here.
//!
//! Abstract -> concrete: an attribute of length n with content id "x"/"y" is the
//! character '1'/'2' (UI) or 'A'/'B' (SH, AE) repeated n times; private information
//! is the byte 7 repeated; for complete files the transfer syntax UID is the real
//! UID with the length the table asks for (17 IVRLE, 19 EVRLE, 22 Deflated EVRLE).

use dicom_core::ops::{ApplyOp, AttributeAction, AttributeOp, AttributeSelector};
use dicom_core::{DataElement, PrimitiveValue, Tag, VR};
use dicom_object::file::ReadPreamble;
use dicom_object::{FileMetaTable, FileMetaTableBuilder, InMemDicomObject, OpenFileOptions};
use serde_json::{json, Map, Value};
use vcommon::*;

const FIELDS: &[&str] = &["ver", "cls", "inst", "ts", "impl", "ivn", "src", "snd", "rcv", "pcu", "priv"];

fn is_ui(f: &str) -> bool {
    matches!(f, "cls" | "inst" | "ts" | "impl" | "pcu")
}
fn ch(f: &str, c: &str) -> char {
    match (is_ui(f), c) {
        (true, "y") => '2',
        (true, _) => '1',
        (false, "y") => 'B',
        (false, _) => 'A',
    }
}
fn cid(f: &str, s: &str) -> String {
    // content id of a trimmed string: "" empty, "x"/"y" uniform, "?" anything else
    if s.is_empty() {
        return String::new();
    }
    for c in ["x", "y"] {
        if s.chars().all(|k| k == ch(f, c)) {
            return c.to_string();
        }
    }
    "?".to_string()
}
fn text(f: &str, c: &str, n: usize) -> String {
    std::iter::repeat(ch(f, c)).take(n).collect()
}
fn real_ts(n: usize) -> Option<&'static str> {
    match n {
        17 => Some("1.2.840.10008.1.2"),
        19 => Some("1.2.840.10008.1.2.1"),
        22 => Some("1.2.840.10008.1.2.1.99"),
        _ => None,
    }
}

fn trim(s: &str) -> &str {
    s.trim_end_matches([' ', '\0'])
}

fn proj_str(f: &str, v: Option<&String>) -> Value {
    match v {
        None => json!({"p": false, "n": 0, "s": 0, "c": ""}),
        Some(s) => json!({"p": true, "n": trim(s).len(), "s": s.len(), "c": cid(f, trim(s))}),
    }
}

fn project(t: &FileMetaTable) -> Value {
    let mut m = Map::new();
    m.insert("ver".into(), json!({"p": true, "n": 2, "s": 2, "c": if t.information_version == [0, 1] { "v" } else { "?" }}));
    m.insert("cls".into(), proj_str("cls", Some(&t.media_storage_sop_class_uid)));
    m.insert("inst".into(), proj_str("inst", Some(&t.media_storage_sop_instance_uid)));
    m.insert("ts".into(), proj_str("ts", Some(&t.transfer_syntax)));
    m.insert("impl".into(), proj_str("impl", Some(&t.implementation_class_uid)));
    m.insert("ivn".into(), proj_str("ivn", t.implementation_version_name.as_ref()));
    m.insert("src".into(), proj_str("src", t.source_application_entity_title.as_ref()));
    m.insert("snd".into(), proj_str("snd", t.sending_application_entity_title.as_ref()));
    m.insert("rcv".into(), proj_str("rcv", t.receiving_application_entity_title.as_ref()));
    m.insert("pcu".into(), proj_str("pcu", t.private_information_creator_uid.as_ref()));
    m.insert(
        "priv".into(),
        match &t.private_information {
            None => json!({"p": false, "n": 0, "s": 0, "c": ""}),
            Some(b) => {
                let trimmed = if b.len() % 2 == 0 && b.last() == Some(&0) { &b[..b.len() - 1] } else { &b[..] };
                let c = if trimmed.is_empty() { "" } else if trimmed.iter().all(|x| *x == 7) { "x" } else { "?" };
                json!({"p": true, "n": trimmed.len(), "s": b.len(), "c": c})
            }
        },
    );
    Value::Object(m)
}

/// Build the table the abstract `tab` describes with the public builder.
fn build(tab: &Value, ts_override: Option<&str>) -> Result<FileMetaTable, String> {
    let n = |f: &str| j_usize(&tab[f]["n"]);
    let p = |f: &str| tab[f]["p"].as_bool().unwrap();
    let c = |f: &str| tab[f]["c"].as_str().unwrap_or("x").to_string();
    let mut b = FileMetaTableBuilder::new()
        .information_version([0, 1])
        .media_storage_sop_class_uid(text("cls", &c("cls"), n("cls")))
        .media_storage_sop_instance_uid(text("inst", &c("inst"), n("inst")))
        .transfer_syntax(ts_override.map(|s| s.to_string()).unwrap_or_else(|| text("ts", &c("ts"), n("ts"))))
        .implementation_class_uid(text("impl", &c("impl"), n("impl")));
    if p("ivn") {
        b = b.implementation_version_name(text("ivn", &c("ivn"), n("ivn")));
    }
    if p("src") {
        b = b.source_application_entity_title(text("src", &c("src"), n("src")));
    }
    if p("snd") {
        b = b.sending_application_entity_title(text("snd", &c("snd"), n("snd")));
    }
    if p("rcv") {
        b = b.receiving_application_entity_title(text("rcv", &c("rcv"), n("rcv")));
    }
    if p("pcu") {
        b = b.private_information_creator_uid(text("pcu", &c("pcu"), n("pcu")));
    }
    if p("priv") {
        b = b.private_information(vec![7u8; n("priv")]);
    }
    match catch(|| b.build()) {
        Ok(Ok(t)) => Ok(t),
        Ok(Err(e)) => Err(format!("build failed: {e}")),
        Err(p) => Err(format!("build panicked: {p}")),
    }
}

fn target_tag(t: &str) -> Tag {
    match t {
        "gl" => Tag(0x0002, 0x0000),
        "ver" => Tag(0x0002, 0x0001),
        "cls" => Tag(0x0002, 0x0002),
        "inst" => Tag(0x0002, 0x0003),
        "ts" => Tag(0x0002, 0x0010),
        "impl" => Tag(0x0002, 0x0012),
        "ivn" => Tag(0x0002, 0x0013),
        "src" => Tag(0x0002, 0x0016),
        "snd" => Tag(0x0002, 0x0017),
        "rcv" => Tag(0x0002, 0x0018),
        "pcu" => Tag(0x0002, 0x0100),
        "priv" => Tag(0x0002, 0x0102),
        "other2" => Tag(0x0002, 0x0026),
        "foreign" => Tag(0x0010, 0x0010),
        _ => panic!("bad target {t}"),
    }
}

fn decode_op(target: &str, act: &Value) -> AttributeOp {
    let selector: AttributeSelector = if target == "nested" {
        (Tag(0x0002, 0x0102), 0, Tag(0x0002, 0x0010)).into()
    } else {
        target_tag(target).into()
    };
    let n = act["n"].as_u64().unwrap_or(0) as usize;
    let s = || text(target, "y", n);
    let pv = || {
        if act["kind"] == "num" {
            PrimitiveValue::from(1u16)
        } else {
            PrimitiveValue::from(s())
        }
    };
    let action = match j_str(&act["a"]) {
        "Remove" => AttributeAction::Remove,
        "Empty" => AttributeAction::Empty,
        "SetVr" => AttributeAction::SetVr(VR::LO),
        "Truncate" => AttributeAction::Truncate(n),
        "PushStr" => AttributeAction::PushStr("B".into()),
        "PushU16" => AttributeAction::PushU16(1),
        "PushI32" => AttributeAction::PushI32(1),
        "PushF64" => AttributeAction::PushF64(1.0),
        "Set" => AttributeAction::Set(pv()),
        "SetStr" => AttributeAction::SetStr(s().into()),
        "SetIfMissing" => AttributeAction::SetIfMissing(pv()),
        "SetStrIfMissing" => AttributeAction::SetStrIfMissing(s().into()),
        "Replace" => AttributeAction::Replace(pv()),
        "ReplaceStr" => AttributeAction::ReplaceStr(s().into()),
        a => panic!("bad action {a}"),
    };
    AttributeOp { selector, action }
}

/// Element scan of the written group (after the 12-byte group length element).
/// Element boundaries are found with the explicit VR header rule (2-byte length,
/// or 2 reserved bytes + 4-byte length for OB); the sizes found are compared by TLC.
fn scan(bytes: &[u8]) -> Value {
    let mut out = Vec::new();
    let mut p = 12usize;
    while p + 8 <= bytes.len() {
        let group = u16::from_le_bytes([bytes[p], bytes[p + 1]]);
        let elem = u16::from_le_bytes([bytes[p + 2], bytes[p + 3]]);
        let vr = String::from_utf8_lossy(&bytes[p + 4..p + 6]).to_string();
        let (hdr, vlen) = if vr == "OB" || vr == "UN" || vr == "OW" || vr == "SQ" || vr == "UT" {
            if p + 12 > bytes.len() {
                break;
            }
            (12usize, u32::from_le_bytes([bytes[p + 8], bytes[p + 9], bytes[p + 10], bytes[p + 11]]) as usize)
        } else {
            (8usize, u16::from_le_bytes([bytes[p + 6], bytes[p + 7]]) as usize)
        };
        if group != 2 {
            out.push(json!({"elem": elem, "vr": format!("group {group:04X}"), "hdr": hdr, "vlen": vlen}));
            break;
        }
        out.push(json!({"elem": elem, "vr": vr, "hdr": hdr, "vlen": vlen}));
        p += hdr + vlen;
    }
    if p != bytes.len() {
        out.push(json!({"elem": 65535, "vr": "trailing", "hdr": 0, "vlen": bytes.len() as i64 - p as i64}));
    }
    Value::Array(out)
}

struct Obs {
    tab: Value,
    gl: u32,
    written: usize,
    enc_gl: u32,
    layout: Value,
    reread_ok: bool,
    reread: Value,
    lib_eq: bool,
    note: String,
}

fn observe(t: &FileMetaTable) -> Obs {
    let mut bytes = Vec::new();
    let mut note = String::new();
    match catch(|| t.write(&mut bytes)) {
        Ok(Ok(())) => {}
        Ok(Err(e)) => note = format!("write failed: {e}"),
        Err(p) => note = format!("write panicked: {p}"),
    }
    let enc_gl = if bytes.len() >= 12 { u32::from_le_bytes([bytes[8], bytes[9], bytes[10], bytes[11]]) } else { u32::MAX >> 1 };
    let mut src = b"DICM".to_vec();
    src.extend_from_slice(&bytes);
    let (reread_ok, reread, lib_eq) = match catch(|| FileMetaTable::from_reader(&src[..])) {
        Ok(Ok(t2)) => (true, project(&t2), &t2 == t),
        Ok(Err(e)) => {
            note = format!("{note} read back failed: {e}");
            (false, json!({}), false)
        }
        Err(p) => {
            note = format!("{note} read back panicked: {p}");
            (false, json!({}), false)
        }
    };
    Obs {
        tab: project(t),
        gl: t.information_group_length,
        written: bytes.len(),
        enc_gl,
        layout: scan(&bytes),
        reread_ok,
        reread,
        lib_eq,
        note,
    }
}

fn obs_event(o: &Obs, res: &str, unchanged: bool, ctx: &str) -> Value {
    json!({"ev": "obs", "res": res, "ctx": ctx, "tab": o.tab, "gl": o.gl, "written": o.written, "enc_gl": o.enc_gl,
           "layout": o.layout, "reread_ok": o.reread_ok, "reread": if o.reread_ok { o.reread.clone() } else { o.tab.clone() },
           "lib_eq": o.lib_eq, "unchanged": unchanged, "note": o.note})
}

fn same_fields(a: &Value, b: &Value, keys: &[&str]) -> bool {
    FIELDS.iter().all(|f| keys.iter().all(|k| a[*f][*k] == b[*f][*k]))
}

/// compare an observation with TLC's expectation; returns (level, what, detail)
fn compare(o: &Obs, exp: &Value) -> Option<(&'static str, String, String)> {
    if !same_fields(&o.tab, &exp["tab"], &["p", "n", "c"]) {
        return Some(("aux", "table differs from the model".into(), format!("table {} model {}", o.tab, exp["tab"])));
    }
    if !same_fields(&o.tab, &exp["tab"], &["s"]) {
        return Some(("aux", "stored padding differs from the model".into(), format!("table {} model {}", o.tab, exp["tab"])));
    }
    if json!(o.gl) != exp["gl"] {
        return Some(("strict", "information_group_length".into(), format!("information_group_length {} expected {}", o.gl, exp["gl"])));
    }
    if json!(o.written) != exp["written"] || json!(o.enc_gl) != exp["gl"] {
        return Some(("strict", "written size".into(), format!("written {} bytes (encoded group length {}), expected {} ({}) {}", o.written, o.enc_gl, exp["written"], exp["gl"], o.note)));
    }
    if o.layout != exp["layout"] {
        return Some(("strict", "written elements".into(), format!("layout {} expected {}", o.layout, exp["layout"])));
    }
    if !o.reread_ok {
        return Some(("strict", "read back".into(), format!("written group cannot be read back: {}", o.note)));
    }
    if !same_fields(&o.reread, &exp["reread"], &["p", "n", "c"]) || !o.lib_eq {
        return Some(("strict", "read back".into(), format!("read back {} expected {} lib_eq {}", o.reread, exp["reread"], o.lib_eq)));
    }
    None
}

fn target_class(t: &str) -> &'static str {
    match t {
        "cls" | "inst" | "ts" | "impl" => "required string attribute",
        "ivn" | "src" | "snd" | "rcv" | "pcu" => "optional string attribute",
        "nested" => "nested selector",
        _ => "attribute outside the operable set",
    }
}

struct Ctx {
    rep: Report,
    trace: NdjsonWriter,
    counts: std::collections::BTreeMap<String, usize>,
    obs: usize,
    steps: usize,
    err_steps: usize,
    distinct: std::collections::HashSet<String>,
    dir: String,
    files: usize,
    /// log every observation for TLC (random mode); in replay mode the observations are
    /// compared with TLC's expectations directly and only file read-backs are logged
    log_all: bool,
}
impl Ctx {
    fn mismatch(&mut self, level: &str, fp: String, detail: String, case: &Value, extra: Value) {
        let key = format!("{level}|{fp}");
        let c = self.counts.entry(key).or_insert(0);
        *c += 1;
        if *c <= 2 {
            self.rep.mismatch(json!({"level": level, "fingerprint": fp, "detail": detail, "case": case, "extra": extra}));
        } else {
            self.rep.mismatch_count += 1;
        }
    }
}

fn run_ops_case(cx: &mut Ctx, case: &Value, selftest: bool, ci: usize) {
    let init = &case["init"];
    let mut t = match build(&init["tab"], None) {
        Ok(t) => t,
        Err(e) => {
            cx.mismatch("strict", "builder fails".into(), e, case, json!({}));
            return;
        }
    };
    if cx.log_all {
        cx.trace.emit(&json!({"ev": "reset", "case": ci}));
    }
    let mut o = observe(&t);
    if selftest && ci % 5 == 2 {
        o.gl += 2; // deliberately wrong observation
    }
    cx.obs += 1;
    if cx.log_all {
        cx.trace.emit(&obs_event(&o, "build", true, "after build()"));
    }
    cx.distinct.insert(format!("{}", o.tab));
    if let Some((lvl, what, d)) = compare(&o, init) {
        let fp = if lvl == "strict" { format!("{what} wrong after build()") } else { format!("{what} after build()") };
        cx.mismatch(lvl, fp, d, case, json!({"observed": obs_event(&o, "build", true, "")}));
        return;
    }
    for (si, step) in j_arr(&case["steps"]).iter().enumerate() {
        let target = j_str(&step["target"]);
        let op = decode_op(target, &step["act"]);
        let before = project(&t);
        let before_gl = t.information_group_length;
        let res = catch(|| t.apply(op));
        cx.steps += 1;
        let ok = matches!(res, Ok(Ok(())));
        if !ok {
            cx.err_steps += 1;
        }
        let o = observe(&t);
        cx.obs += 1;
        let unchanged = before == o.tab && before_gl == o.gl;
        let actname = j_str(&step["act"]["a"]);
        let ctxs = format!("{actname} on {}", target_class(target));
        if cx.log_all {
            cx.trace.emit(&obs_event(&o, if ok { "ok" } else { "err" }, unchanged, &ctxs));
        }
        cx.distinct.insert(format!("{}|{}|{}", before, target, step["act"]));
        if res.is_err() {
            cx.mismatch("strict", format!("apply panics: {ctxs}"), format!("{res:?}"), case, json!({"step": si}));
            return;
        }
        if !ok && !unchanged {
            cx.mismatch("strict", format!("table changed although the operation failed: {ctxs}"), format!("before {before} after {}", o.tab), case, json!({"step": si}));
            return;
        }
        if ok != step["ok"].as_bool().unwrap() {
            cx.mismatch("aux", format!("returns {} where the model has {}: {ctxs}", if ok { "Ok" } else { "Err" }, if ok { "Err" } else { "Ok" }),
                format!("{res:?}"), case, json!({"step": si}));
            return;
        }
        if let Some((lvl, what, d)) = compare(&o, &step["exp"]) {
            let fp = if lvl == "strict" { format!("{what} wrong after {ctxs}") } else { format!("{what} after {ctxs}") };
            cx.mismatch(lvl, fp, d, case, json!({"step": si, "observed": obs_event(&o, "", unchanged, "")}));
            return;
        }
    }
}

/// data set projection: tag, VR and value items as text without trailing padding
fn project_dataset(o: &InMemDicomObject) -> Value {
    use dicom_core::header::Header;
    Value::Array(
        o.iter()
            .map(|e| {
                let items: Vec<String> = match e.value().primitive() {
                    Some(p) => p.to_multi_str().iter().map(|s| trim(s).to_string()).collect(),
                    None => vec!["<sequence>".to_string()],
                };
                json!({"tag": e.tag().to_string(), "vr": e.vr().to_string(), "v": items})
            })
            .collect(),
    )
}

fn dataset(with_sop: bool) -> InMemDicomObject {
    let mut o = InMemDicomObject::new_empty();
    if with_sop {
        o.put(DataElement::new(Tag(0x0008, 0x0016), VR::UI, PrimitiveValue::from("1.2.840.10008.5.1.4.1.1.7")));
        o.put(DataElement::new(Tag(0x0008, 0x0018), VR::UI, PrimitiveValue::from("1.2.3.4.5")));
    }
    o.put(DataElement::new(Tag(0x0010, 0x0010), VR::PN, PrimitiveValue::from("DOE^JOHN")));
    o.put(DataElement::new(Tag(0x0028, 0x0010), VR::US, PrimitiveValue::from(2u16)));
    o
}

fn run_file_case(cx: &mut Ctx, case: &Value, ci: usize) {
    let init = &case["init"];
    let tsn = j_usize(&init["tab"]["ts"]["n"]);
    let Some(ts) = real_ts(tsn) else {
        return; // this base table has no usable transfer syntax UID: not a file case
    };
    let table = match build(&init["tab"], Some(ts)) {
        Ok(t) => t,
        Err(e) => {
            cx.mismatch("strict", "builder fails".into(), e, case, json!({}));
            return;
        }
    };
    cx.files += 1;
    // data set variant chosen by the generator (file size relative to the 132-byte window)
    let ds = &case["ds"];
    let data_set = match ds["kind"].as_str().unwrap_or("full") {
        "none" => InMemDicomObject::new_empty(),
        "pn" => {
            let mut o = InMemDicomObject::new_empty();
            o.put(DataElement::new(Tag(0x0010, 0x0010), VR::PN, PrimitiveValue::from("A".repeat(j_usize(&ds["pn"])))));
            o
        }
        _ => dataset(true),
    };
    let file = data_set.with_exact_meta(table.clone());
    let mut bytes = Vec::new();
    if let Err(e) = catch(|| file.write_all(&mut bytes)).map_err(|p| p).and_then(|r| r.map_err(|e| e.to_string())) {
        cx.mismatch("strict", "write_all fails".into(), e, case, json!({}));
        return;
    }
    let p0 = format!("{}/c{}_full.dcm", cx.dir, ci);
    match catch(|| file.write_to_file(&p0)) {
        Ok(Ok(())) => {
            let fb = std::fs::read(&p0).unwrap_or_default();
            if fb != bytes {
                cx.mismatch("strict", "write_to_file and write_all produce different files".into(), format!("{} vs {} bytes", fb.len(), bytes.len()), case, json!({}));
            }
        }
        other => cx.mismatch("strict", "write_to_file fails".into(), format!("{other:?}"), case, json!({})),
    }
    let bare = case["bare"].as_u64().unwrap_or(0) as usize;
    if bare > 0 && bytes.len() != 128 + bare {
        cx.mismatch("aux", "complete file has another length than the model computed".into(),
            format!("{} bytes without preamble, model {}", bytes.len() - 128, bare), case, json!({}));
    }
    let size = case["size"].as_str().unwrap_or("").to_string();
    let shape = j_str(&case["shape"]);
    let entry = j_str(&case["entry"]);
    let option = j_str(&case["option"]);
    let data: Vec<u8> = if shape == "with" { bytes.clone() } else { bytes[128..].to_vec() };
    let opt = match option {
        "Auto" => ReadPreamble::Auto,
        "Always" => ReadPreamble::Always,
        _ => ReadPreamble::Never,
    };
    let path = format!("{}/c{}_{}.dcm", cx.dir, ci, shape);
    std::fs::write(&path, &data).expect("write scratch file");
    let read = |use_default: bool| {
        catch(|| {
            if entry == "path" {
                if use_default {
                    dicom_object::open_file(&path)
                } else {
                    OpenFileOptions::new().read_preamble(opt).open_file(&path)
                }
            } else if use_default {
                dicom_object::from_reader(&data[..])
            } else {
                OpenFileOptions::new().read_preamble(opt).from_reader(&data[..])
            }
        })
    };
    let mut variants = vec![false];
    if option == "Auto" {
        variants.push(true); // the plain open_file / from_reader functions
    }
    for use_default in variants {
        let (observed, detail) = match read(use_default) {
            Ok(Ok(back)) => {
                // observe the table that was read (TLC judges its group length)
                let o = observe(back.meta());
                cx.obs += 1;
                cx.trace.emit(&json!({"ev": "reset", "case": ci}));
                cx.trace.emit(&obs_event(&o, "file-read", true, &format!("file read back ({shape} preamble, {entry}, {option})")));
                // identical up to trailing padding: the library's table equality (documented to
                // ignore padding), the table projection, and the data set projection
                let meta_eq = back.meta() == file.meta() && same_fields(&project(back.meta()), &project(&table), &["p", "n", "c"]);
                let obj_eq = project_dataset(&back) == project_dataset(&file);
                if meta_eq && obj_eq {
                    ("same", String::new())
                } else {
                    ("differs", format!("meta equal: {meta_eq} (group length {} vs {}), data set equal: {obj_eq}; meta {} vs {}; data set {} vs {}",
                        back.meta().information_group_length, table.information_group_length, project(back.meta()), project(&table),
                        project_dataset(&back), project_dataset(&file)))
                }
            }
            Ok(Err(e)) => ("fail", format!("{e}")),
            Err(p) => ("fail", format!("panic {p}")),
        };
        let expected = j_str(&case["outcome"]);
        cx.distinct.insert(format!("file|{}|{}|{shape}|{entry}|{option}|{use_default}", init["tab"], case["ds"]));
        if expected == "same" && observed != "same" {
            let how = if observed == "fail" { "cannot be read" } else { "is read back different" };
            cx.mismatch("strict", format!("file {shape} preamble ({size}), opened by {entry} with ReadPreamble::{option}: {how}"), detail, case, json!({"default_fn": use_default, "file_bytes": data.len()}));
        } else if expected == "fail" && observed != "fail" {
            cx.mismatch("aux", format!("file {shape} preamble, opened by {entry} with ReadPreamble::{option}: read ({observed}) where the model expects a failure"), detail, case, json!({}));
        }
    }
    let _ = std::fs::remove_file(&path);
    let _ = std::fs::remove_file(&p0);
}

fn rand_table(rng: &mut Rng) -> Value {
    let mut m = Map::new();
    let ev = |n: usize| n + n % 2;
    m.insert("ver".into(), json!({"p": true, "n": 2, "s": 2, "c": "v"}));
    for f in ["cls", "inst", "ts", "impl"] {
        let n = rng.below(71) as usize;
        m.insert(f.into(), json!({"p": true, "n": n, "s": ev(n), "c": if n == 0 { "" } else { "x" }}));
    }
    for f in ["ivn", "src", "snd", "rcv", "pcu"] {
        if rng.coin() {
            let n = rng.below(if f == "pcu" { 65 } else { 17 }) as usize;
            m.insert(f.into(), json!({"p": true, "n": n, "s": ev(n), "c": if n == 0 { "" } else { "x" }}));
        } else {
            m.insert(f.into(), json!({"p": false, "n": 0, "s": 0, "c": ""}));
        }
    }
    if rng.coin() {
        let n = rng.below(71) as usize;
        m.insert("priv".into(), json!({"p": true, "n": n, "s": n, "c": if n == 0 { "" } else { "x" }}));
    } else {
        m.insert("priv".into(), json!({"p": false, "n": 0, "s": 0, "c": ""}));
    }
    Value::Object(m)
}

fn random_mode(cx: &mut Ctx, n: usize, corrupt: bool) {
    let mut rng = Rng::new(seed_from_env() ^ 0xC09);
    let targets = ["cls", "inst", "ts", "impl", "ivn", "src", "snd", "rcv", "pcu", "ivn", "src", "pcu", "ver", "priv", "gl", "other2", "foreign", "nested"];
    let acts = ["Remove", "Empty", "SetVr", "Truncate", "PushStr", "PushU16", "PushI32", "PushF64", "Set", "SetStr", "SetStr", "SetIfMissing",
        "SetStrIfMissing", "Replace", "ReplaceStr"];
    for ci in 0..n {
        let tab = rand_table(&mut rng);
        let Ok(mut t) = build(&tab, None) else { continue };
        cx.rep.cases += 1;
        cx.trace.emit(&json!({"ev": "reset", "case": ci}));
        let mut o = observe(&t);
        if corrupt && ci == 3 {
            o.written += 1;
        }
        cx.obs += 1;
        cx.trace.emit(&obs_event(&o, "build", true, "after build()"));
        cx.distinct.insert(format!("{}", o.tab));
        let len = rng.below(9) as usize;
        for _ in 0..len {
            let target = *rng.pick(&targets);
            let a = *rng.pick(&acts);
            let act = json!({"a": a, "kind": if rng.below(5) == 0 { "num" } else { "text" }, "n": rng.below(71)});
            let op = decode_op(target, &act);
            let before = project(&t);
            let before_gl = t.information_group_length;
            let res = catch(|| t.apply(op));
            cx.steps += 1;
            let ok = matches!(res, Ok(Ok(())));
            if !ok {
                cx.err_steps += 1;
            }
            let o = observe(&t);
            cx.obs += 1;
            let unchanged = before == o.tab && before_gl == o.gl;
            cx.trace.emit(&obs_event(&o, if ok { "ok" } else { "err" }, unchanged, &format!("{a} on {}", target_class(target))));
            cx.distinct.insert(format!("{}|{}|{}", before, target, act));
        }
    }
    // complete files whose meta group lacks the media storage UIDs: the reader fills
    // them in from the data set; the table it returns is observed like any other
    for (k, ts) in ["1.2.840.10008.1.2", "1.2.840.10008.1.2.1", "1.2.840.10008.1.2.1.99"].iter().enumerate() {
        let mut tab = rand_table(&mut rng);
        tab["cls"] = json!({"p": true, "n": 0, "s": 0, "c": ""});
        if k != 1 {
            tab["inst"] = json!({"p": true, "n": 0, "s": 0, "c": ""});
        }
        let Ok(table) = build(&tab, Some(ts)) else { continue };
        let file = dataset(true).with_exact_meta(table);
        let mut bytes = Vec::new();
        if file.write_all(&mut bytes).is_err() {
            continue;
        }
        for data in [&bytes[..], &bytes[128..]] {
            if let Ok(Ok(back)) = catch(|| dicom_object::from_reader(data)) {
                let o = observe(back.meta());
                cx.obs += 1;
                cx.trace.emit(&json!({"ev": "reset", "case": 100000 + k}));
                cx.trace.emit(&obs_event(&o, "file-read", true, "file read back, media storage UIDs taken from the data set"));
            }
        }
    }
}

fn main() {
    quiet_panics();
    let args = args_map();
    let mode = args.get("_0").cloned().unwrap_or_default();
    let dir = args.get("dir").cloned().unwrap_or_else(|| ".".into());
    std::fs::create_dir_all(&dir).expect("scratch dir");
    let mut cx = Ctx {
        rep: Report::new(),
        trace: NdjsonWriter::create(&args["trace"]),
        counts: Default::default(),
        obs: 0,
        steps: 0,
        err_steps: 0,
        distinct: Default::default(),
        dir,
        files: 0,
        log_all: mode == "random" || args.contains_key("logall"),
    };
    cx.rep.cap = 1000;
    match mode.as_str() {
        "replay" => {
            let selftest = args.contains_key("selftest");
            let cases = read_ndjson(&args["cases"]);
            for (ci, case) in cases.iter().enumerate() {
                cx.rep.cases += 1;
                if case["kind"] == "file" {
                    run_file_case(&mut cx, case, ci);
                } else {
                    run_ops_case(&mut cx, case, selftest, ci);
                }
            }
        }
        "random" => {
            let n: usize = args.get("n").map(|s| s.parse().unwrap()).unwrap_or(200);
            random_mode(&mut cx, n, args.contains_key("corrupt"));
        }
        _ => panic!("usage: drv_filemeta replay|random ..."),
    }
    let Ctx { mut rep, trace, counts, obs, steps, err_steps, distinct, files, .. } = cx;
    let events = trace.finish();
    rep.extra.insert("events".into(), json!(events));
    rep.extra.insert("observations".into(), json!(obs));
    rep.extra.insert("steps".into(), json!(steps));
    rep.extra.insert("err_steps".into(), json!(err_steps));
    rep.extra.insert("file_cases".into(), json!(files));
    rep.extra.insert("distinct".into(), json!(distinct.len()));
    rep.extra.insert("by_fingerprint".into(), json!(counts));
    rep.print();
}
