//! C34 conformance driver: public I/O operations over instrumented sinks/sources with
//! an injected failure at every byte offset.
//!
//!   drv_io run --cases <ndjson from Gen_Io> --out <trace.ndjson> [--stride N]
//!
//! For each case the operation is first run fault-free (to learn `total`), then once
//! per failing offset; every run is logged as events for specs/io/Trace_Io.tla.

use dicom_core::value::{DataSetSequence, PixelFragmentSequence, PrimitiveValue, Value as DcmValue};
use dicom_core::{DataElement, Tag, VR};
use dicom_dictionary_std::{tags, uids};
use dicom_encoding::TransferSyntaxIndex;
use dicom_object::meta::{FileMetaTable, FileMetaTableBuilder};
use dicom_object::{FileDicomObject, InMemDicomObject, OpenFileOptions};
use dicom_transfer_syntax_registry::TransferSyntaxRegistry;
use dicom_ul::association::{PDataReader, PDataWriter};
use dicom_ul::pdu::*;
use serde_json::{json, Value};
use std::cell::RefCell;
use std::io::{Read, Write};
use std::pin::Pin;
use std::rc::Rc;
use std::task::{Context, Poll, Waker};
use vcommon::*;

type Log = Rc<RefCell<Vec<Value>>>;

fn push_io(log: &Log, k: usize) {
    if k == 0 {
        return;
    }
    let mut l = log.borrow_mut();
    if let Some(last) = l.last_mut() {
        if last["ev"] == "io" {
            let n = last["k"].as_u64().unwrap() + k as u64;
            last["k"] = json!(n);
            return;
        }
    }
    l.push(json!({"ev":"io","k":k}));
}

struct LogSink {
    log: Log,
    accepted: usize,
    limit: Option<usize>,
    zero: bool,
}
impl Write for LogSink {
    fn write(&mut self, buf: &[u8]) -> std::io::Result<usize> {
        if buf.is_empty() {
            return Ok(0);
        }
        let room = match self.limit {
            None => buf.len(),
            Some(l) => l.saturating_sub(self.accepted).min(buf.len()),
        };
        if room == 0 {
            self.log.borrow_mut().push(json!({"ev":"iofail","kind": if self.zero {"zero"} else {"error"}}));
            return if self.zero {
                Ok(0)
            } else {
                Err(std::io::Error::other("injected write failure"))
            };
        }
        self.accepted += room;
        push_io(&self.log, room);
        Ok(room)
    }
    fn flush(&mut self) -> std::io::Result<()> {
        Ok(())
    }
}

struct LogSource {
    log: Log,
    data: Vec<u8>,
    pos: usize,
    limit: Option<usize>,
    seg: usize,
}
impl LogSource {
    fn step(&mut self, cap: usize) -> std::io::Result<Vec<u8>> {
        let end = self.limit.map(|l| l.min(self.data.len())).unwrap_or(self.data.len());
        if let Some(l) = self.limit {
            if self.pos >= l {
                self.log.borrow_mut().push(json!({"ev":"iofail","kind":"error"}));
                return Err(std::io::Error::other("injected read failure"));
            }
        }
        let k = (end - self.pos).min(cap).min(self.seg);
        let out = self.data[self.pos..self.pos + k].to_vec();
        self.pos += k;
        push_io(&self.log, k);
        Ok(out)
    }
}
impl Read for LogSource {
    fn read(&mut self, buf: &mut [u8]) -> std::io::Result<usize> {
        if buf.is_empty() {
            return Ok(0);
        }
        let d = self.step(buf.len())?;
        buf[..d.len()].copy_from_slice(&d);
        Ok(d.len())
    }
}
impl tokio::io::AsyncRead for LogSource {
    fn poll_read(mut self: Pin<&mut Self>, _cx: &mut Context<'_>, buf: &mut tokio::io::ReadBuf<'_>) -> Poll<std::io::Result<()>> {
        if buf.remaining() == 0 {
            return Poll::Ready(Ok(()));
        }
        let d = self.step(buf.remaining())?;
        buf.put_slice(&d);
        Poll::Ready(Ok(()))
    }
}

fn ts_uid(ts: &str) -> &'static str {
    match ts {
        "ivrle" => uids::IMPLICIT_VR_LITTLE_ENDIAN,
        "evrle" => uids::EXPLICIT_VR_LITTLE_ENDIAN,
        "evrbe" => uids::EXPLICIT_VR_BIG_ENDIAN,
        "deflated" => uids::DEFLATED_EXPLICIT_VR_LITTLE_ENDIAN,
        _ => panic!("ts {ts}"),
    }
}

fn make_obj(shape: &str) -> InMemDicomObject {
    let mut obj = InMemDicomObject::from_element_iter([
        DataElement::new(tags::SOP_CLASS_UID, VR::UI, uids::SECONDARY_CAPTURE_IMAGE_STORAGE),
        DataElement::new(tags::SOP_INSTANCE_UID, VR::UI, "1.2.3.4.5.6.7"),
        DataElement::new(tags::PATIENT_NAME, VR::PN, "Doe^John"),
        DataElement::new(tags::PATIENT_ID, VR::LO, "ID1"),
        DataElement::new(tags::ROWS, VR::US, PrimitiveValue::from(2u16)),
    ]);
    if shape == "nested" || shape == "pixel" || shape == "large" || shape == "encaps" {
        let item = InMemDicomObject::from_element_iter([
            DataElement::new(tags::CODE_VALUE, VR::SH, "C1"),
            DataElement::new(tags::CODE_MEANING, VR::LO, "meaning"),
        ]);
        let inner = InMemDicomObject::from_element_iter([DataElement::new(
            tags::CONCEPT_NAME_CODE_SEQUENCE,
            VR::SQ,
            DataSetSequence::from(vec![item.clone()]),
        )]);
        obj.put(DataElement::new(
            tags::PROCEDURE_CODE_SEQUENCE,
            VR::SQ,
            DataSetSequence::from(vec![item, inner, InMemDicomObject::new_empty()]),
        ));
    }
    if shape == "encaps" {
        // encapsulated pixel data: offset table + two fragments, then a trailing element
        obj.put(DataElement::new(
            tags::PIXEL_DATA,
            VR::OB,
            DcmValue::from(PixelFragmentSequence::new(vec![0u32, 16], vec![vec![1u8; 8], vec![2u8; 12]])),
        ));
        obj.put(DataElement::new(Tag(0x7FE1, 0x0010), VR::LO, "TRAILER"));
    }
    if shape == "pixel" || shape == "large" {
        // odd length, and the last element of the data set: the writer's own padding byte is the very last
        // byte of the output
        let n = if shape == "large" { 70_001u32 } else { 601u32 };
        let px: Vec<u8> = (0..n).map(|i| (i * 7 % 253) as u8).collect();
        obj.put(DataElement::new(tags::PIXEL_DATA, VR::OB, PrimitiveValue::from(px)));
        obj.put(DataElement::new(Tag(0x0009, 0x0010), VR::LO, "PRIVATE CREATOR"));
        obj.put(DataElement::new(Tag(0x0009, 0x1001), VR::UN, PrimitiveValue::from(vec![1u8, 2, 3, 4])));
        // odd-length values: the writer adds a padding byte of its own after the value
        obj.put(DataElement::new(Tag(0x0009, 0x1002), VR::OB, PrimitiveValue::from(vec![9u8, 8, 7])));
        obj.put(DataElement::new(Tag(0x0009, 0x1003), VR::UN, PrimitiveValue::from(vec![5u8])));
        obj.put(DataElement::new(tags::IMAGE_COMMENTS, VR::LT, "odd"));
    }
    obj
}

fn make_file(shape: &str, ts: &str) -> FileDicomObject<InMemDicomObject> {
    make_obj(shape)
        .with_meta(
            FileMetaTableBuilder::new()
                .transfer_syntax(ts_uid(ts))
                .media_storage_sop_class_uid(uids::SECONDARY_CAPTURE_IMAGE_STORAGE)
                .media_storage_sop_instance_uid("1.2.3.4.5.6.7"),
        )
        .expect("meta")
}

fn make_pdu(shape: &str) -> Pdu {
    match shape {
        "rq" => Pdu::AssociationRQ(AssociationRQ {
            protocol_version: 1,
            calling_ae_title: "CALLING".into(),
            called_ae_title: "CALLED".into(),
            application_context_name: "1.2.840.10008.3.1.1.1".into(),
            presentation_contexts: vec![
                PresentationContextProposed {
                    id: 1,
                    abstract_syntax: uids::VERIFICATION.into(),
                    transfer_syntaxes: vec![uids::IMPLICIT_VR_LITTLE_ENDIAN.into(), uids::EXPLICIT_VR_LITTLE_ENDIAN.into()],
                },
                PresentationContextProposed {
                    id: 3,
                    abstract_syntax: uids::CT_IMAGE_STORAGE.into(),
                    transfer_syntaxes: vec![uids::EXPLICIT_VR_LITTLE_ENDIAN.into()],
                },
            ],
            user_variables: vec![
                UserVariableItem::MaxLength(16384),
                UserVariableItem::ImplementationClassUID("1.2.3".into()),
                UserVariableItem::ImplementationVersionName("V1".into()),
                UserVariableItem::SopClassExtendedNegotiationSubItem(uids::CT_IMAGE_STORAGE.into(), vec![1, 0, 1]),
                UserVariableItem::ScuScpRoleSelectionSubItem(uids::CT_IMAGE_STORAGE.into(), RequestorRoles { scu: true, scp: false }),
                UserVariableItem::UserIdentityItem(UserIdentity::new(true, UserIdentityType::UsernamePassword, b"user".to_vec(), b"pw".to_vec())),
            ],
        }),
        "ac" => Pdu::AssociationAC(AssociationAC {
            protocol_version: 1,
            calling_ae_title: "CALLING".into(),
            called_ae_title: "CALLED".into(),
            application_context_name: "1.2.840.10008.3.1.1.1".into(),
            presentation_contexts: vec![PresentationContextResult {
                id: 1,
                reason: PresentationContextResultReason::Acceptance,
                transfer_syntax: uids::IMPLICIT_VR_LITTLE_ENDIAN.into(),
            }],
            user_variables: vec![UserVariableItem::MaxLength(16384), UserVariableItem::ImplementationClassUID("1.2.3".into())],
        }),
        "rj" => Pdu::AssociationRJ(AssociationRJ {
            result: AssociationRJResult::Permanent,
            source: AssociationRJSource::ServiceUser(AssociationRJServiceUserReason::CalledAETitleNotRecognized),
        }),
        "pdata" => Pdu::PData {
            data: vec![
                PDataValue {
                    presentation_context_id: 1,
                    value_type: PDataValueType::Command,
                    is_last: true,
                    data: (0..40u8).collect(),
                },
                PDataValue {
                    presentation_context_id: 1,
                    value_type: PDataValueType::Data,
                    is_last: false,
                    data: (0..90u8).collect(),
                },
            ],
        },
        "relrq" => Pdu::ReleaseRQ,
        "relrp" => Pdu::ReleaseRP,
        "abort" => Pdu::AbortRQ {
            source: AbortRQSource::ServiceProvider(AbortRQServiceProviderReason::UnexpectedPdu),
        },
        _ => panic!("pdu shape {shape}"),
    }
}

fn pdata_stream(shape: &str) -> (Vec<u8>, usize) {
    // built with the real writer, fault-free
    let n = if shape == "one_pdu" { 300 } else { 2500 };
    let payload: Vec<u8> = (0..n).map(|i| (i % 251) as u8).collect();
    let mut out = Vec::new();
    {
        let mut w = PDataWriter::new_for_verif(&mut out, 1, 1018);
        w.write_all(&payload).unwrap();
        w.finish().unwrap();
    }
    (out, n)
}

/// run a write operation over `sink`; returns "ok"/"err"
fn do_write(op: &str, ts: &str, shape: &str, sink: &mut LogSink) -> Result<bool, String> {
    match op {
        "ds" => {
            let obj = make_obj(shape);
            let tsx = TransferSyntaxRegistry.get(ts_uid(ts)).expect("ts");
            catch(|| obj.write_dataset_with_ts(&mut *sink, tsx).is_ok())
        }
        "file_all" => {
            let f = make_file(shape, ts);
            catch(|| f.write_all(&mut *sink).is_ok())
        }
        "file_ds" => {
            let f = make_file(shape, ts);
            catch(|| f.write_dataset(&mut *sink).is_ok())
        }
        "meta" => {
            let f = make_file(shape, "evrle");
            catch(|| f.meta().write(&mut *sink).is_ok())
        }
        "pdu" => {
            let pdu = make_pdu(shape);
            catch(|| write_pdu(&mut *sink, &pdu).is_ok())
        }
        "pdata_writer" => {
            let n = if shape == "one_pdu" { 300 } else { 2500 };
            let payload: Vec<u8> = (0..n).map(|i| (i % 251) as u8).collect();
            catch(|| {
                let mut w = PDataWriter::new_for_verif(&mut *sink, 1, 1018);
                // typical use: several write_all calls then finish
                let mut ok = true;
                for ch in payload.chunks(700) {
                    if w.write_all(ch).is_err() {
                        ok = false;
                        break;
                    }
                }
                if ok {
                    w.finish().is_ok()
                } else {
                    // a caller that saw an error drops the writer
                    std::mem::forget(w);
                    false
                }
            })
        }
        _ => panic!("write op {op}"),
    }
}

fn source_bytes(op: &str, ts: &str, shape: &str) -> Vec<u8> {
    match op {
        "open" => {
            let f = make_file(shape, ts);
            let mut v = Vec::new();
            f.write_all(&mut v).expect("reference write");
            v
        }
        "read_ds" => {
            let obj = make_obj(shape);
            let tsx = TransferSyntaxRegistry.get(ts_uid(ts)).expect("ts");
            let mut v = Vec::new();
            if ts == "deflated" {
                // complete deflate stream: take the data set part of a whole file
                let f = make_file(shape, ts);
                f.write_dataset(&mut v).expect("reference write");
            } else {
                obj.write_dataset_with_ts(&mut v, tsx).expect("reference write");
            }
            v
        }
        "meta_read" => {
            let f = make_file(shape, "evrle");
            let mut v = Vec::new();
            f.meta().write(&mut v).expect("meta write");
            v
        }
        "rx_pdu" | "rx_pdu_async" => {
            let mut v = Vec::new();
            write_pdu(&mut v, &make_pdu("rq")).unwrap();
            if shape == "three_pdus" {
                write_pdu(&mut v, &make_pdu("pdata")).unwrap();
                write_pdu(&mut v, &make_pdu("relrq")).unwrap();
            }
            v
        }
        "pdata_read" => pdata_stream(shape).0,
        _ => panic!("read op {op}"),
    }
}

fn do_read(op: &str, ts: &str, shape: &str, src: LogSource) -> Result<bool, String> {
    match op {
        "open" => catch(move || OpenFileOptions::new().read_preamble(dicom_object::file::ReadPreamble::Always).from_reader(src).is_ok()),
        "read_ds" => {
            let tsx = TransferSyntaxRegistry.get(ts_uid(ts)).expect("ts");
            catch(move || InMemDicomObject::read_dataset_with_ts(src, tsx).is_ok())
        }
        "meta_read" => catch(move || FileMetaTable::from_reader(src).is_ok()),
        "rx_pdu" => catch(move || {
            let mut src = src;
            let mut rb = bytes::BytesMut::new();
            let n = if shape == "three_pdus" { 3 } else { 1 };
            for _ in 0..n {
                if dicom_ul::association::read_pdu_from_wire(&mut src, &mut rb, 16384, true).is_err() {
                    return false;
                }
            }
            true
        }),
        "rx_pdu_async" => catch(move || {
            let mut src = src;
            let mut rb = bytes::BytesMut::new();
            let n = if shape == "three_pdus" { 3 } else { 1 };
            for _ in 0..n {
                let mut fut = Box::pin(dicom_ul::association::read_pdu_from_wire_async(&mut src, &mut rb, 16384, true));
                let r = loop {
                    let mut cx = Context::from_waker(Waker::noop());
                    if let Poll::Ready(r) = fut.as_mut().poll(&mut cx) {
                        break r;
                    }
                };
                drop(fut);
                if r.is_err() {
                    return false;
                }
            }
            true
        }),
        "pdata_read" => catch(move || {
            let mut rb = bytes::BytesMut::new();
            let mut r = PDataReader::new(src, 16384, &mut rb);
            let mut v = Vec::new();
            r.read_to_end(&mut v).is_ok()
        }),
        _ => panic!("read op {op}"),
    }
}

use std::future::Future;

fn main() {
    quiet_panics();
    let args = args_map();
    let cases = read_ndjson(args.get("cases").expect("--cases"));
    let mut tr = NdjsonWriter::create(args.get("out").expect("--out"));
    let stride: usize = args.get("stride").map(|s| s.parse().unwrap()).unwrap_or(1);
    let mut rep = Report::new();
    let mut runs = 0usize;
    let mut drift = 0usize;
    let mut per_case = Vec::new();
    for c in &cases {
        rep.cases += 1;
        let dir = j_str(&c["dir"]);
        let op = j_str(&c["op"]);
        let ts = j_str(&c["ts"]);
        let shape = j_str(&c["shape"]);
        let zero = j_str(&c["fail"]) == "zero";
        let pipe = format!("{op}/{ts}/{shape}/{}", j_str(&c["fail"]));
        if op == "file_path_devfull" {
            if !std::path::Path::new("/dev/full").exists() {
                continue;
            }
            let f = make_file(shape, ts);
            let r = catch(|| f.write_to_file("/dev/full").is_ok());
            tr.emit(&json!({"ev":"case","dir":"w","pipe":pipe,"total":0,"fail_at":0}));
            // every write to /dev/full fails with ENOSPC; the object is non-empty
            tr.emit(&json!({"ev":"iofail","kind":"enospc"}));
            tr.emit(&json!({"ev":"ret","res": match r { Ok(true) => "ok", Ok(false) => "err", Err(_) => "panic" }}));
            tr.emit(&json!({"ev":"end"}));
            runs += 1;
            continue;
        }
        // fault-free reference run
        let total;
        let src_bytes;
        if dir == "w" {
            let log: Log = Rc::new(RefCell::new(Vec::new()));
            let mut sink = LogSink { log: log.clone(), accepted: 0, limit: None, zero };
            let r = do_write(op, ts, shape, &mut sink);
            if r != Ok(true) {
                rep.mismatch(json!({"pipe": pipe, "problem": "fault-free reference run failed", "r": format!("{r:?}")}));
                continue;
            }
            total = sink.accepted;
            src_bytes = Vec::new();
        } else {
            src_bytes = source_bytes(op, ts, shape);
            total = src_bytes.len();
        }
        let offsets: Vec<usize> = if j_str(&c["offsets"]) == "all" {
            (0..=total).step_by(stride).collect()
        } else {
            let mut rng = Rng::new(seed_from_env() ^ (total as u64) << 8);
            let mut v: Vec<usize> = vec![0, 1, total.saturating_sub(1), total, total / 2];
            for _ in 0..200 {
                v.push(rng.below(total as u64 + 1) as usize);
            }
            // buffer boundaries of the usual 8 KiB writers and the tail of the output
            for k in 1..=(total / 8192) {
                for d in [-1i64, 0, 1] {
                    v.push((k as i64 * 8192 + d).clamp(0, total as i64) as usize);
                }
            }
            for d in 0..40 {
                v.push(total.saturating_sub(d));
            }
            v.sort();
            v.dedup();
            v
        };
        let mut lost = 0usize;
        for f in offsets {
            // a failing offset == total never fails for writes (nothing more to write)
            let log: Log = Rc::new(RefCell::new(Vec::new()));
            tr.emit(&json!({"ev":"case","dir":dir,"pipe":pipe,"total":total,"fail_at":f}));
            let r = if dir == "w" {
                let mut sink = LogSink { log: log.clone(), accepted: 0, limit: Some(f), zero };
                do_write(op, ts, shape, &mut sink)
            } else {
                let src = LogSource { log: log.clone(), data: src_bytes.clone(), pos: 0, limit: Some(f), seg: 4096 };
                do_read(op, ts, shape, src)
            };
            let failed = log.borrow().iter().any(|e| e["ev"] == "iofail");
            for e in log.borrow().iter() {
                tr.emit(e);
            }
            let res = match &r {
                Ok(true) => "ok",
                Ok(false) => "err",
                Err(_) => "panic",
            };
            if res == "ok" && failed {
                lost += 1;
            }
            tr.emit(&json!({"ev":"ret","res":res,"msg": r.err().unwrap_or_default()}));
            tr.emit(&json!({"ev":"end"}));
            runs += 1;
        }
        // drift wrt the pipeline kind predicted by IoPipeline.tla
        let kind = j_str(&c["kind"]);
        let predicted_lossy = kind == "buffered_noflush" || kind == "trailer_at_drop";
        if predicted_lossy != (lost > 0) {
            drift += 1;
        }
        per_case.push(json!({"pipe": pipe, "total": total, "kind": kind, "swallowed_failures": lost}));
    }
    let n = tr.finish();
    rep.extra.insert("events".into(), json!(n));
    rep.extra.insert("runs".into(), json!(runs));
    rep.extra.insert("drift".into(), json!(drift));
    rep.extra.insert("per_case".into(), Value::Array(per_case));
    rep.print();
}
