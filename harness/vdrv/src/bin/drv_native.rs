//! C21 conformance driver: native pixel data frame extraction.
//!
//!   drv_native replay --cases <ndjson>          TLC cases (stored bytes + expected samples) -> real code
//!   drv_native record --n <N> --out <ndjson>    seeded random geometries/bytes -> events for Trace_NativePixel
//!
//! Observed for every image: decode_pixel_data().data(), decode_pixel_data_frame(k).data(),
//! DecodedPixelData::frame_data(k) on the whole result, PixelDataObject::frame_pixel_data(k).

#[path = "../pixel_common.rs"]
mod pixel_common;

use dicom_encoding::adapters::PixelDataObject;
use dicom_pixeldata::PixelDecoder;
use pixel_common::*;
use serde_json::{json, Value};
use vcommon::*;

type R = Result<Vec<u8>, String>;

struct Obs {
    whole: R,
    per: Vec<R>,
    fd: Vec<R>,
    fpd: Vec<R>,
}

fn flat<T, E: std::fmt::Display>(r: Result<Result<T, E>, String>) -> Result<T, String> {
    match r {
        Ok(Ok(v)) => Ok(v),
        Ok(Err(e)) => Err(format!("error: {e}")),
        Err(p) => Err(format!("panic: {p}")),
    }
}

fn res_json(r: &R) -> Value {
    match r {
        Ok(b) => json!({"res": "ok", "data": jb(b)}),
        Err(e) => json!({"res": "err", "msg": e.chars().take(200).collect::<String>()}),
    }
}
fn res_list(rs: &[R]) -> Value {
    Value::Array(rs.iter().map(res_json).collect())
}

fn spec_of(bits: u16, spp: u16, rows: u16, cols: u16, frames: u32) -> ImgSpec {
    let mut s = ImgSpec::simple(rows, cols, spp, bits, frames);
    if bits == 1 {
        s.bits_stored = 1;
        s.high_bit = 0;
    }
    s
}

fn observe(spec: &ImgSpec, data: &[u8], ts: &str, as_words: bool) -> Obs {
    let obj = native_object(spec, data, ts, as_words);
    let decoded = flat(catch(|| obj.decode_pixel_data()));
    let whole = decoded.as_ref().map(|d| d.data().to_vec()).map_err(|e| e.clone());
    let mut per = Vec::new();
    let mut fd = Vec::new();
    let mut fpd = Vec::new();
    for k in 0..spec.frames {
        per.push(flat(catch(|| obj.decode_pixel_data_frame(k).map(|d| d.data().to_vec()))));
        fd.push(match &decoded {
            Ok(d) => flat(catch(|| d.frame_data(k).map(|s| s.to_vec()))),
            Err(e) => Err(e.clone()),
        });
        fpd.push(
            match catch(|| PixelDataObject::frame_pixel_data(&obj, k).map(|c| c.to_vec())) {
                Ok(Some(v)) => Ok(v),
                Ok(None) => Err("none".to_string()),
                Err(p) => Err(format!("panic: {p}")),
            },
        );
    }
    Obs { whole, per, fd, fpd }
}

fn replay(cases_path: &str) {
    let cases = read_ndjson(cases_path);
    let mut rep = Report::new();
    let mut runs = 0u64;
    rep.cap = 100000;
    let mut per_key: std::collections::BTreeMap<String, u64> = Default::default();
    for c in &cases {
        rep.cases += 1;
        let g = |k: &str| c[k].as_u64().unwrap();
        let spec = spec_of(g("bits") as u16, g("spp") as u16, g("rows") as u16, g("cols") as u16, g("frames") as u32);
        let data = bytes_of(&c["data"]);
        let e_whole = bytes_of(&c["whole"]);
        let e_per = bytes_list_of(&c["per"]);
        let e_stored = bytes_list_of(&c["stored"]);
        let mut variants: Vec<(&str, bool)> = vec![(EVRLE, false), (IVRLE, false)];
        if spec.bits_alloc == 16 && data.len() % 2 == 0 {
            variants.push((EVRLE, true));
        }
        for (ts, words) in variants {
            runs += 1;
            let o = observe(&spec, &data, ts, words);
            let shape = format!("bits={}", spec.bits_alloc);
            let mut bad = |what: &str, exp: Value, got: Value| {
                // keep the first few mismatches of every abstract kind in full, count the rest
                let key = format!("{what}/{shape}/pad={}", c["pad"]);
                let n = per_key.entry(key).or_insert(0);
                *n += 1;
                if *n <= 3 {
                    rep.mismatch(json!({"what": what, "shape": shape, "ts": ts, "words": words,
                        "padded": c["pad"], "case": c, "expected": exp, "got": got}));
                } else {
                    rep.mismatch_count += 1;
                }
            };
            match &o.whole {
                Ok(b) if *b == e_whole => {}
                r => bad("whole", jb(&e_whole), res_json(r)),
            }
            for k in 0..spec.frames as usize {
                match &o.per[k] {
                    Ok(b) if *b == e_per[k] => {}
                    r => bad("frame", jb(&e_per[k]), res_json(r)),
                }
                match &o.fd[k] {
                    Ok(b) if *b == e_per[k] => {}
                    r => bad("frame_data", jb(&e_per[k]), res_json(r)),
                }
                match &o.fpd[k] {
                    Ok(b) if *b == e_stored[k] => {}
                    r => bad("frame_pixel_data", jb(&e_stored[k]), res_json(r)),
                }
            }
        }
    }
    rep.extra.insert("runs".into(), Value::from(runs));
    rep.extra.insert("mismatch_kinds".into(), json!(per_key));
    rep.print();
}

fn record(n: usize, out: &str) {
    let mut rng = Rng::new(seed_from_env() ^ 0xC21);
    let mut w = NdjsonWriter::create(out);
    let mut rep = Report::new();
    let mut distinct = std::collections::BTreeSet::new();
    for i in 0..n {
        rep.cases += 1;
        let bits: u16 = *rng.pick(&[1u16, 1, 8, 16]);
        let spp: u16 = if bits == 1 { 1 } else { *rng.pick(&[1u16, 3]) };
        let (rows, cols) = if i % 5 == 0 {
            (rng.range(12, 17) as u16, rng.range(12, 17) as u16)
        } else {
            (rng.range(1, 17) as u16, rng.range(1, 17) as u16)
        };
        let frames = rng.range(1, 7) as u32;
        let spec = spec_of(bits, spp, rows, cols, frames);
        let samples = rows as usize * cols as usize * spp as usize * frames as usize;
        let stored = if bits == 1 { samples.div_ceil(8) } else { samples * (bits as usize / 8) };
        let mut data = rng.bytes(stored);
        let padded = stored % 2 == 1 && rng.coin();
        if padded {
            data.push(0);
        }
        let ts = if rng.coin() { EVRLE } else { IVRLE };
        let words = bits == 16 && rng.coin();
        let o = observe(&spec, &data, ts, words);
        distinct.insert(format!("{bits}/{spp}/{rows}/{cols}/{frames}/{padded}"));
        w.emit(&json!({
            "ev": "case", "bits": bits, "spp": spp, "rows": rows, "cols": cols, "frames": frames,
            "padded": padded, "ts": ts, "words": words, "data": jb(&data),
            "whole": res_json(&o.whole), "per": res_list(&o.per), "fd": res_list(&o.fd), "fpd": res_list(&o.fpd),
        }));
    }
    let lines = w.finish();
    rep.extra.insert("events".into(), Value::from(lines as u64));
    rep.extra.insert("distinct_shapes".into(), Value::from(distinct.len() as u64));
    rep.print();
}

fn main() {
    quiet_panics();
    let a = args_map();
    match a.get("_0").map(|s| s.as_str()) {
        Some("replay") => replay(&a["cases"]),
        Some("record") => record(a.get("n").map(|s| s.parse().unwrap()).unwrap_or(100), &a["out"]),
        _ => {
            eprintln!("usage: drv_native replay --cases F | record --n N --out F");
            std::process::exit(2);
        }
    }
}
