//! C12 conformance driver: partial dates, times, date-times and their ranges.
//!
//!   drv_datetime replay --cases <ndjson>
//!        TLC cases {kind:"val", v, text, blen1, blen2, e, l} and {kind:"range", a, b, text, res}
//!        executed on DicomDate/DicomTime/DicomDateTime constructors, to_encoded,
//!        parse_*_partial, PrimitiveValue::calculate_byte_len / to_date.., AsRange::earliest /
//!        latest, parse_*_range; mismatches reported.
//!   drv_datetime record --tier quick|thorough --out <dir>
//!        native enumeration (partial dates of years 0..9999, h/m/s combinations) and seeded
//!        sampling (fractions, offsets, date-times, ranges): events for Trace_DateTime.tla in
//!        batches trace_NNN.ndjson.
//!
//! The driver has no oracle; it projects real values to components and compares with what
//! TLC expects (replay) or records them for TLC (record).

use dicom_core::chrono::{FixedOffset, NaiveDate, NaiveDateTime, NaiveTime, Datelike, Timelike};
use dicom_core::smallvec::smallvec;
use dicom_core::value::deserialize::{parse_date_partial, parse_datetime_partial, parse_time_partial};
use dicom_core::value::range::{parse_date_range, parse_datetime_range, parse_time_range};
use dicom_core::value::{AsRange, DicomDate, DicomDateTime, DicomTime, PreciseDateTime, PrimitiveValue};
use serde_json::{json, Value};
use vcommon::*;

/// keep at most 3 full mismatch records per distinct fingerprint (all are counted)
trait MismatchFp {
    fn mismatch_fp(&mut self, v: Value);
}
impl MismatchFp for Report {
    fn mismatch_fp(&mut self, v: Value) {
        self.mismatch_count += 1;
        let same = self.mismatches.iter().filter(|m| m["fp"] == v["fp"]).count();
        if same < 3 && self.mismatches.len() < self.cap {
            self.mismatches.push(v);
        }
    }
}

#[derive(Clone, Debug, PartialEq)]
struct V {
    kind: String,
    dprec: String,
    y: u32,
    m: u32,
    d: u32,
    tprec: String,
    h: u32,
    mi: u32,
    s: u32,
    f: u32,
    fp: u32,
    tz: bool,
    off: i32,
}

impl V {
    fn zero(kind: &str) -> V {
        V { kind: kind.into(), dprec: "none".into(), y: 0, m: 0, d: 0, tprec: "none".into(), h: 0, mi: 0, s: 0, f: 0, fp: 0, tz: false, off: 0 }
    }
    fn from_json(j: &Value) -> V {
        V {
            kind: j_str(&j["kind"]).into(),
            dprec: j_str(&j["dprec"]).into(),
            y: j_usize(&j["y"]) as u32,
            m: j_usize(&j["m"]) as u32,
            d: j_usize(&j["d"]) as u32,
            tprec: j_str(&j["tprec"]).into(),
            h: j_usize(&j["h"]) as u32,
            mi: j_usize(&j["mi"]) as u32,
            s: j_usize(&j["s"]) as u32,
            f: j_usize(&j["f"]) as u32,
            fp: j_usize(&j["fp"]) as u32,
            tz: j["tz"].as_bool().unwrap(),
            off: j_i64(&j["off"]) as i32,
        }
    }
    fn to_json(&self) -> Value {
        json!({"kind": self.kind, "dprec": self.dprec, "y": self.y, "m": self.m, "d": self.d, "tprec": self.tprec,
               "h": self.h, "mi": self.mi, "s": self.s, "f": self.f, "fp": self.fp, "tz": self.tz, "off": self.off})
    }
    fn class(&self) -> String {
        format!("{} {}{}{}{}", self.kind, self.dprec, if self.tprec == "none" { String::new() } else { format!("+{}", self.tprec) },
                if self.tprec == "f" { format!("{}", self.fp) } else { String::new() }, if self.tz { " tz" } else { "" })
    }
}

fn cps_json(s: &str) -> Value {
    Value::Array(s.chars().map(|c| Value::from(c as u32)).collect())
}
fn from_cps(v: &Value) -> String {
    j_arr(v).iter().map(|x| char::from_u32(x.as_u64().unwrap() as u32).unwrap()).collect()
}

// ---- building real values from components ---------------------------------------------------

fn build_date(v: &V) -> Result<DicomDate, String> {
    match v.dprec.as_str() {
        "Y" => DicomDate::from_y(v.y as u16),
        "M" => DicomDate::from_ym(v.y as u16, v.m as u8),
        "D" => DicomDate::from_ymd(v.y as u16, v.m as u8, v.d as u8),
        p => return Err(format!("no date precision {p}")),
    }
    .map_err(|e| format!("date constructor: {e}"))
}

/// times: public constructors exist for hour/minute/second precision and for 3- and 6-digit
/// fractions; other fraction precisions can only be obtained by parsing (documented)
fn build_time(v: &V, prefer_parse: bool) -> Result<DicomTime, String> {
    match v.tprec.as_str() {
        "h" => DicomTime::from_h(v.h as u8).map_err(|e| e.to_string()),
        "m" => DicomTime::from_hm(v.h as u8, v.mi as u8).map_err(|e| e.to_string()),
        "s" => DicomTime::from_hms(v.h as u8, v.mi as u8, v.s as u8).map_err(|e| e.to_string()),
        "f" => {
            if v.fp == 3 && !prefer_parse {
                DicomTime::from_hms_milli(v.h as u8, v.mi as u8, v.s as u8, v.f).map_err(|e| e.to_string())
            } else if v.fp == 6 && !prefer_parse {
                DicomTime::from_hms_micro(v.h as u8, v.mi as u8, v.s as u8, v.f).map_err(|e| e.to_string())
            } else {
                let text = format!("{:02}{:02}{:02}.{:0w$}", v.h, v.mi, v.s, v.f, w = v.fp as usize);
                match parse_time_partial(text.as_bytes()) {
                    Ok((t, rest)) if rest.is_empty() => Ok(t),
                    Ok((_, rest)) => Err(format!("parse_time_partial left {} bytes of {text}", rest.len())),
                    Err(e) => Err(format!("parse_time_partial({text}): {e}")),
                }
            }
        }
        p => Err(format!("no time precision {p}")),
    }
}

fn build_dt(v: &V, prefer_parse: bool) -> Result<DicomDateTime, String> {
    let date = build_date(v)?;
    let tz = if v.tz { Some(FixedOffset::east_opt(v.off).ok_or("offset out of chrono range")?) } else { None };
    if v.tprec == "none" {
        Ok(match tz {
            Some(o) => DicomDateTime::from_date_with_time_zone(date, o),
            None => DicomDateTime::from_date(date),
        })
    } else {
        let time = build_time(v, prefer_parse)?;
        match tz {
            Some(o) => DicomDateTime::from_date_and_time_with_time_zone(date, time, o),
            None => DicomDateTime::from_date_and_time(date, time),
        }
        .map_err(|e| e.to_string())
    }
}

// ---- projecting real values to components ---------------------------------------------------

fn proj_date(v: &mut V, d: &DicomDate) {
    v.y = *d.year() as u32;
    v.dprec = "Y".into();
    if let Some(m) = d.month() {
        v.m = *m as u32;
        v.dprec = "M".into();
    }
    if let Some(x) = d.day() {
        v.d = *x as u32;
        v.dprec = "D".into();
    }
}
fn proj_time(v: &mut V, t: &DicomTime) {
    v.h = *t.hour() as u32;
    v.tprec = "h".into();
    if let Some(m) = t.minute() {
        v.mi = *m as u32;
        v.tprec = "m".into();
    }
    if let Some(s) = t.second() {
        v.s = *s as u32;
        v.tprec = "s".into();
    }
    let fp = t.fraction_precision();
    if fp > 0 {
        v.tprec = "f".into();
        v.fp = fp as u32;
        v.f = t.fraction_str().parse::<u32>().unwrap_or(u32::MAX);
    }
}
fn proj_dt(dt: &DicomDateTime) -> V {
    let mut v = V::zero("DT");
    proj_date(&mut v, dt.date());
    if let Some(t) = dt.time() {
        proj_time(&mut v, t);
    }
    if let Some(o) = dt.time_zone() {
        v.tz = true;
        v.off = o.local_minus_utc();
    }
    v
}

fn inst_date(d: &NaiveDate) -> Value {
    json!({"y": d.year(), "m": d.month(), "d": d.day(), "h": 0, "mi": 0, "s": 0, "us": 0})
}
/// chrono keeps a leap second as second 59 with nanosecond >= 1e9
fn time_parts(t: &NaiveTime) -> (u32, u32, u32, u32) {
    let ns = t.nanosecond();
    if ns >= 1_000_000_000 {
        (t.hour(), t.minute(), t.second() + 1, (ns - 1_000_000_000) / 1000)
    } else {
        (t.hour(), t.minute(), t.second(), ns / 1000)
    }
}
fn inst_time(t: &NaiveTime) -> Value {
    let (h, mi, s, us) = time_parts(t);
    json!({"y": 0, "m": 0, "d": 0, "h": h, "mi": mi, "s": s, "us": us})
}
fn inst_ndt(x: &NaiveDateTime) -> Value {
    let (h, mi, s, us) = time_parts(&x.time());
    json!({"y": x.date().year(), "m": x.date().month(), "d": x.date().day(), "h": h, "mi": mi, "s": s, "us": us})
}
fn zero_inst() -> Value {
    json!({"y": 0, "m": 0, "d": 0, "h": 0, "mi": 0, "s": 0, "us": 0})
}
fn bound_none() -> Value {
    json!({"ok": false, "i": zero_inst(), "tz": false, "off": 0})
}
fn bound_pdt(p: &PreciseDateTime) -> Value {
    match p {
        PreciseDateTime::Naive(x) => json!({"ok": true, "i": inst_ndt(x), "tz": false, "off": 0}),
        PreciseDateTime::TimeZone(x) => json!({"ok": true, "i": inst_ndt(&x.naive_local()), "tz": true, "off": x.offset().local_minus_utc()}),
    }
}

/// everything the code says about one value
struct Obs {
    res: String,
    text: String,
    back: V,
    blen1: usize,
    blen2: usize,
    e: Value,
    l: Value,
    /// parse through PrimitiveValue::to_date/to_time/to_datetime agrees with the direct parse
    via_value_same: bool,
}

fn observe(v: &V, prefer_parse: bool) -> Obs {
    let v = v.clone();
    let r = catch(move || -> Result<Obs, String> {
        match v.kind.as_str() {
            "DA" => {
                let x = build_date(&v)?;
                let text = x.to_encoded();
                let (b, rest) = parse_date_partial(text.as_bytes()).map_err(|e| format!("parse_date_partial: {e}"))?;
                if !rest.is_empty() {
                    return Err("parse_date_partial left bytes".into());
                }
                let mut back = V::zero("DA");
                proj_date(&mut back, &b);
                let via = PrimitiveValue::from(text.as_str()).to_date().map(|d| d == b).unwrap_or(false);
                Ok(Obs {
                    res: "ok".into(),
                    text,
                    back,
                    blen1: PrimitiveValue::from(x).calculate_byte_len(),
                    blen2: PrimitiveValue::Date(smallvec![x, x]).calculate_byte_len(),
                    e: x.earliest().map(|d| json!({"ok": true, "i": inst_date(&d), "tz": false, "off": 0})).unwrap_or_else(|_| bound_none()),
                    l: x.latest().map(|d| json!({"ok": true, "i": inst_date(&d), "tz": false, "off": 0})).unwrap_or_else(|_| bound_none()),
                    via_value_same: via,
                })
            }
            "TM" => {
                let x = build_time(&v, prefer_parse)?;
                let text = x.to_encoded();
                let (b, rest) = parse_time_partial(text.as_bytes()).map_err(|e| format!("parse_time_partial: {e}"))?;
                if !rest.is_empty() {
                    return Err("parse_time_partial left bytes".into());
                }
                let mut back = V::zero("TM");
                proj_time(&mut back, &b);
                let via = PrimitiveValue::from(text.as_str()).to_time().map(|d| d == b).unwrap_or(false);
                Ok(Obs {
                    res: "ok".into(),
                    text,
                    back,
                    blen1: PrimitiveValue::from(x).calculate_byte_len(),
                    blen2: PrimitiveValue::Time(smallvec![x, x]).calculate_byte_len(),
                    e: x.earliest().map(|d| json!({"ok": true, "i": inst_time(&d), "tz": false, "off": 0})).unwrap_or_else(|_| bound_none()),
                    l: x.latest().map(|d| json!({"ok": true, "i": inst_time(&d), "tz": false, "off": 0})).unwrap_or_else(|_| bound_none()),
                    via_value_same: via,
                })
            }
            _ => {
                let x = build_dt(&v, prefer_parse)?;
                let text = x.to_encoded();
                let b = parse_datetime_partial(text.as_bytes()).map_err(|e| format!("parse_datetime_partial: {e}"))?;
                let back = proj_dt(&b);
                let via = PrimitiveValue::from(text.as_str()).to_datetime().map(|d| d == b).unwrap_or(false);
                Ok(Obs {
                    res: "ok".into(),
                    text,
                    back,
                    blen1: PrimitiveValue::from(x).calculate_byte_len(),
                    blen2: PrimitiveValue::DateTime(smallvec![x, x]).calculate_byte_len(),
                    e: x.earliest().map(|p| bound_pdt(&p)).unwrap_or_else(|_| bound_none()),
                    l: x.latest().map(|p| bound_pdt(&p)).unwrap_or_else(|_| bound_none()),
                    via_value_same: via,
                })
            }
        }
    });
    let failed = |res: String| Obs { res, text: String::new(), back: V::zero("invalid"), blen1: 0, blen2: 0, e: bound_none(), l: bound_none(), via_value_same: false };
    match r {
        Ok(Ok(o)) => o,
        Ok(Err(msg)) => failed(format!("err: {msg}")),
        Err(msg) => failed(format!("panic: {msg}")),
    }
}

/// compact event for the date sweep (same content as a "val" event of kind DA)
fn da_event(v: &V, o: &Obs) -> Value {
    let ok = o.res == "ok" && o.e["ok"] == true && o.l["ok"] == true && o.e["tz"] == false && o.l["tz"] == false;
    json!({"ev": "da", "p": v.dprec, "y": v.y, "m": v.m, "d": v.d, "ok": ok, "text": cps_json(&o.text),
           "bp": o.back.dprec, "by": o.back.y, "bm": o.back.m, "bd": o.back.d, "b1": o.blen1, "b2": o.blen2,
           "ey": o.e["i"]["y"], "em": o.e["i"]["m"], "ed": o.e["i"]["d"], "ly": o.l["i"]["y"], "lm": o.l["i"]["m"], "ld": o.l["i"]["d"]})
}

fn obs_event(v: &V, o: &Obs) -> Value {
    let res = if o.res == "ok" { "ok" } else if o.res.starts_with("panic") { "panic" } else { "err" };
    json!({"ev": "val", "class": v.class(), "v": v.to_json(), "res": res, "detail": o.res, "text": cps_json(&o.text), "back": o.back.to_json(),
           "blen1": o.blen1, "blen2": o.blen2, "e": o.e, "l": o.l})
}

// ---- ranges -----------------------------------------------------------------------------------

fn encode_real(v: &V) -> Result<String, String> {
    match v.kind.as_str() {
        "DA" => Ok(build_date(v)?.to_encoded()),
        "TM" => Ok(build_time(v, false)?.to_encoded()),
        _ => Ok(build_dt(v, false)?.to_encoded()),
    }
}

fn range_result(vkind: &str, text: &str) -> Value {
    let vkind = vkind.to_string();
    let text = text.to_string();
    let bad = || json!({"ok": false, "hasStart": false, "start": zero_inst(), "hasEnd": false, "end": zero_inst(), "tz": false, "offStart": 0, "offEnd": 0});
    match catch(move || match vkind.as_str() {
        "DA" => parse_date_range(text.as_bytes()).ok().map(|r| {
            json!({"ok": true, "hasStart": r.start().is_some(), "start": r.start().map(inst_date).unwrap_or_else(zero_inst),
                   "hasEnd": r.end().is_some(), "end": r.end().map(inst_date).unwrap_or_else(zero_inst), "tz": false, "offStart": 0, "offEnd": 0})
        }),
        "TM" => parse_time_range(text.as_bytes()).ok().map(|r| {
            json!({"ok": true, "hasStart": r.start().is_some(), "start": r.start().map(inst_time).unwrap_or_else(zero_inst),
                   "hasEnd": r.end().is_some(), "end": r.end().map(inst_time).unwrap_or_else(zero_inst), "tz": false, "offStart": 0, "offEnd": 0})
        }),
        _ => parse_datetime_range(text.as_bytes()).ok().map(|r| {
            let side = |p: Option<PreciseDateTime>| match p {
                None => (false, zero_inst(), false, 0),
                Some(PreciseDateTime::Naive(x)) => (true, inst_ndt(&x), false, 0),
                Some(PreciseDateTime::TimeZone(x)) => (true, inst_ndt(&x.naive_local()), true, x.offset().local_minus_utc()),
            };
            let (hs, st, tzs, os) = side(r.start());
            let (he, en, tze, oe) = side(r.end());
            json!({"ok": true, "hasStart": hs, "start": st, "hasEnd": he, "end": en, "tz": tzs || tze, "offStart": os, "offEnd": oe})
        }),
    }) {
        Ok(Some(v)) => v,
        Ok(None) => bad(),
        Err(_) => {
            let mut b = bad();
            b["panic"] = Value::from(true);
            b
        }
    }
}

// ---- replay ----------------------------------------------------------------------------------

fn replay(cases: &str) {
    let mut rep = Report::new();
    let mut nontrivial = 0usize;
    for case in read_ndjson(cases) {
        rep.cases += 1;
        match j_str(&case["kind"]) {
            "val" => {
                let v = V::from_json(&case["v"]);
                nontrivial += 1;
                let exp_text = from_cps(&case["text"]);
                for prefer_parse in [false, true] {
                    if prefer_parse && !(v.tprec == "f" && (v.fp == 3 || v.fp == 6)) {
                        continue;
                    }
                    let o = observe(&v, prefer_parse);
                    let cls = v.class();
                    if o.res != "ok" {
                        let what = if o.res.starts_with("panic") { "panics" } else { "fails" };
                        rep.mismatch_fp(json!({"fp": format!("constructing/encoding/parsing a valid value {what} ({cls})"), "case": case, "detail": o.res}));
                        continue;
                    }
                    if o.text != exp_text {
                        rep.mismatch_fp(json!({"fp": format!("to_encoded differs from Encode ({cls})"), "case": case, "got": o.text}));
                    }
                    if o.back != v {
                        rep.mismatch_fp(json!({"fp": format!("parse of the encoded text differs from the value ({cls})"), "case": case, "got": o.back.to_json()}));
                    }
                    if !o.via_value_same {
                        rep.mismatch_fp(json!({"fp": format!("PrimitiveValue::to_date/to_time/to_datetime disagrees with parse_*_partial ({cls})"), "case": case}));
                    }
                    if o.blen1 as u64 != case["blen1"].as_u64().unwrap() || o.blen2 as u64 != case["blen2"].as_u64().unwrap() {
                        rep.mismatch_fp(json!({"fp": format!("reported byte length differs from the encoded length ({cls})"), "case": case, "got": [o.blen1, o.blen2]}));
                    }
                    for (name, got, exp) in [("earliest", &o.e, &case["e"]), ("latest", &o.l, &case["l"])] {
                        let leap = if v.s == 60 { ", leap second" } else { "" };
                        if got["ok"] != true {
                            rep.mismatch_fp(json!({"fp": format!("{name}() fails on a valid value ({cls}{leap})"), "case": case}));
                        } else if &got["i"] != exp || got["tz"] != Value::from(v.tz) || got["off"] != Value::from(v.off) {
                            rep.mismatch_fp(json!({"fp": format!("{name}() differs from the specification ({cls}{leap})"), "case": case, "got": got}));
                        }
                    }
                }
            }
            "range" => {
                nontrivial += 1;
                let vkind = j_str(&case["vkind"]).to_string();
                let text = from_cps(&case["text"]);
                let has_a = case["hasA"].as_bool().unwrap();
                let has_b = case["hasB"].as_bool().unwrap();
                let shape = format!("{}{}-{}", vkind, if has_a { " A" } else { " " }, if has_b { "B" } else { "" });
                let leap = (has_a && case["a"]["s"] == 60) || (has_b && case["b"]["s"] == 60);
                let shape = if leap { format!("{shape}, leap second") } else { shape };
                // the range text built from the real encoders must be the text of the specification
                let mut real_text = String::new();
                if has_a {
                    real_text.push_str(&encode_real(&V::from_json(&case["a"])).unwrap_or_else(|e| format!("<{e}>")));
                }
                real_text.push('-');
                if has_b {
                    real_text.push_str(&encode_real(&V::from_json(&case["b"])).unwrap_or_else(|e| format!("<{e}>")));
                }
                if real_text != text {
                    rep.mismatch_fp(json!({"fp": format!("range text from to_encoded differs ({shape})"), "case": case, "got": real_text}));
                }
                let got = range_result(&vkind, &text);
                let exp = &case["res"];
                let tz_a = has_a && case["a"]["tz"] == true;
                let tz_b = has_b && case["b"]["tz"] == true;
                let ok = got["ok"] == true
                    && got["hasStart"] == exp["hasStart"]
                    && got["hasEnd"] == exp["hasEnd"]
                    && (!has_a || (got["start"] == exp["start"] && got["tz"] == Value::from(tz_a) && (!tz_a || got["offStart"] == case["a"]["off"])))
                    && (!has_b || (got["end"] == exp["end"] && got["tz"] == Value::from(tz_b) && (!tz_b || got["offEnd"] == case["b"]["off"])));
                if !ok {
                    let what = if got.get("panic").is_some() { "panics" } else if got["ok"] != true { "fails" } else { "differs" };
                    rep.mismatch_fp(json!({"fp": format!("range parse {what} ({shape})"), "case": case, "text": text, "got": got}));
                }
            }
            k => panic!("unknown case kind {k}"),
        }
    }
    rep.extra.insert("nontrivial".into(), Value::from(nontrivial as u64));
    rep.print();
}

// ---- record -----------------------------------------------------------------------------------

struct Out {
    dir: String,
    w: Option<NdjsonWriter>,
    files: Vec<Value>,
    in_file: usize,
    total: usize,
    batch: usize,
}
impl Out {
    fn emit(&mut self, v: &Value) {
        if self.w.is_none() {
            let path = format!("{}/trace_{:03}.ndjson", self.dir, self.files.len());
            self.w = Some(NdjsonWriter::create(&path));
            self.files.push(json!({"path": path, "events": 0}));
        }
        self.w.as_mut().unwrap().emit(v);
        self.in_file += 1;
        self.total += 1;
        if self.in_file >= self.batch {
            self.roll();
        }
    }
    fn roll(&mut self) {
        if let Some(w) = self.w.take() {
            let n = w.finish();
            let last = self.files.len() - 1;
            self.files[last]["events"] = Value::from(n as u64);
        }
        self.in_file = 0;
    }
}

fn is_leap(y: u32) -> bool {
    NaiveDate::from_ymd_opt(y as i32, 2, 29).is_some()
}
fn dim(y: u32, m: u32) -> u32 {
    // month lengths asked from chrono only to enumerate existing days (input generation)
    (28..=31).rev().find(|d| NaiveDate::from_ymd_opt(y as i32, m, *d).is_some()).unwrap()
}

fn da(dprec: &str, y: u32, m: u32, d: u32) -> V {
    let mut v = V::zero("DA");
    v.dprec = dprec.into();
    v.y = y;
    v.m = m;
    v.d = d;
    v
}
fn tm(tprec: &str, h: u32, mi: u32, s: u32, f: u32, fp: u32) -> V {
    let mut v = V::zero("TM");
    v.tprec = tprec.into();
    v.h = h;
    v.mi = mi;
    v.s = s;
    v.f = f;
    v.fp = fp;
    v
}

fn rand_date(rng: &mut Rng, kind: &str, force_day: bool) -> V {
    let y = match rng.below(6) {
        0 => *rng.pick(&[0u32, 1, 4, 100, 400, 1600, 1900, 2000, 2023, 2024, 9999]),
        _ => rng.below(10000) as u32,
    };
    let mut v = V::zero(kind);
    v.y = y;
    v.dprec = "Y".into();
    let p = if force_day { 2 } else { rng.below(3) };
    if p >= 1 {
        v.m = 1 + rng.below(12) as u32;
        v.dprec = "M".into();
    }
    if p >= 2 {
        let n = dim(y, v.m);
        v.d = if rng.below(4) == 0 { n } else { 1 + rng.below(n as u64) as u32 };
        v.dprec = "D".into();
    }
    v
}
fn rand_time_into(rng: &mut Rng, v: &mut V) {
    let p = rng.below(4);
    v.h = rng.below(24) as u32;
    v.tprec = "h".into();
    if p >= 1 {
        v.mi = rng.below(60) as u32;
        v.tprec = "m".into();
    }
    if p >= 2 {
        v.s = if rng.below(10) == 0 { 60 } else { rng.below(60) as u32 };
        if v.s == 60 && rng.coin() {
            v.h = 23;
            v.mi = 59;
        }
        v.tprec = "s".into();
    }
    if p >= 3 {
        v.fp = 1 + rng.below(6) as u32;
        let max = 10u32.pow(v.fp);
        v.f = match rng.below(5) {
            0 => 0,
            1 => max - 1,
            _ => rng.below(max as u64) as u32,
        };
        v.tprec = "f".into();
    }
}
fn rand_offset(rng: &mut Rng) -> i32 {
    match rng.below(6) {
        0 => 0,
        1 => 14 * 3600,
        2 => -12 * 3600,
        3 => 60 * rng.range(0, 14 * 60) as i32,
        4 => -60 * rng.range(0, 12 * 60) as i32,
        _ => 900 * rng.range(-48, 56) as i32,
    }
}
fn rand_dt(rng: &mut Rng) -> V {
    let with_time = rng.coin();
    let mut v = rand_date(rng, "DT", with_time);
    if with_time {
        rand_time_into(rng, &mut v);
    }
    if rng.coin() {
        v.tz = true;
        v.off = rand_offset(rng);
    }
    v
}

fn emit_range(out: &mut Out, vkind: &str, a: Option<&V>, b: Option<&V>) {
    let mut text = String::new();
    let mut ok = true;
    if let Some(a) = a {
        match encode_real(a) {
            Ok(s) => text.push_str(&s),
            Err(_) => ok = false,
        }
    }
    text.push('-');
    if let Some(b) = b {
        match encode_real(b) {
            Ok(s) => text.push_str(&s),
            Err(_) => ok = false,
        }
    }
    let res = if ok { range_result(vkind, &text) } else { range_result(vkind, "") };
    let zero = V::zero("invalid");
    let leap = a.map(|x| x.s == 60).unwrap_or(false) || b.map(|x| x.s == 60).unwrap_or(false);
    out.emit(&json!({"ev": "range", "vkind": vkind, "leap": leap, "hasA": a.is_some(), "a": a.unwrap_or(&zero).to_json(), "hasB": b.is_some(),
        "b": b.unwrap_or(&zero).to_json(), "text": cps_json(&text), "res": res}));
}

fn record(tier: &str, out_dir: &str) {
    std::fs::create_dir_all(out_dir).expect("mkdir");
    let quick = tier != "thorough";
    let mut out = Out { dir: out_dir.into(), w: None, files: vec![], in_file: 0, total: 0, batch: if quick { 12_500 } else { 150_000 } };
    let mut rng = Rng::new(seed_from_env() ^ 0xC12);
    let mut not_ok = 0usize;
    let val = |out: &mut Out, v: &V, prefer_parse: bool, not_ok: &mut usize| {
        let o = observe(v, prefer_parse);
        if o.res != "ok" {
            *not_ok += 1;
        }
        // the date sweep uses the compact event form (every 50th date also in the full form)
        if v.kind == "DA" && out.total % 50 != 0 {
            out.emit(&da_event(v, &o));
        } else {
            out.emit(&obs_event(v, &o));
        }
    };

    // 1. partial dates: every year at year precision; months and days of all years (thorough)
    //    or of boundary + seeded years (quick)
    let boundary = [0u32, 1, 4, 100, 400, 1582, 1600, 1700, 1900, 2000, 2023, 2024, 2100, 9996, 9999];
    let mut month_years: Vec<u32> = boundary.to_vec();
    let mut day_years: Vec<u32> = boundary.to_vec();
    if quick {
        for _ in 0..150 {
            month_years.push(rng.below(10000) as u32);
        }
        for _ in 0..25 {
            day_years.push(rng.below(10000) as u32);
        }
    } else {
        month_years = (0..10000).collect();
        day_years = (0..10000).collect();
    }
    let mut leap_years_seen = 0usize;
    for y in 0..10000u32 {
        val(&mut out, &da("Y", y, 0, 0), false, &mut not_ok);
    }
    for &y in &month_years {
        for m in 1..=12 {
            val(&mut out, &da("M", y, m, 0), false, &mut not_ok);
        }
    }
    for &y in &day_years {
        if is_leap(y) {
            leap_years_seen += 1;
        }
        for m in 1..=12 {
            for d in 1..=dim(y, m) {
                val(&mut out, &da("D", y, m, d), false, &mut not_ok);
            }
        }
    }
    // 2. times: all hours, all hour/minute pairs, hour/minute/second triples (all in thorough)
    for h in 0..24 {
        val(&mut out, &tm("h", h, 0, 0, 0, 0), false, &mut not_ok);
        for mi in 0..60 {
            val(&mut out, &tm("m", h, mi, 0, 0, 0), false, &mut not_ok);
            for s in 0..=60 {
                if quick && !(s == 0 || s >= 59 || (h * 61 + mi * 7 + s) % 13 == 0) {
                    continue;
                }
                val(&mut out, &tm("s", h, mi, s, 0, 0), false, &mut not_ok);
            }
        }
    }
    // 3. fractions 1..6 digits (constructed and parsed), seeded
    let nf = if quick { 3000 } else { 60000 };
    for i in 0..nf {
        let mut v = V::zero("TM");
        loop {
            rand_time_into(&mut rng, &mut v);
            if v.tprec == "f" {
                break;
            }
            v = V::zero("TM");
        }
        val(&mut out, &v, i % 2 == 1, &mut not_ok);
    }
    // 4. date-times, seeded
    let nd = if quick { 4000 } else { 80000 };
    for i in 0..nd {
        let v = rand_dt(&mut rng);
        val(&mut out, &v, i % 2 == 1, &mut not_ok);
    }
    // 5. ranges, seeded; premise kept by construction: A before B by year (dates, date-times) or
    //    by hour (times); equal offsets or offsets on values at least a year apart
    let nr = if quick { 1500 } else { 30000 };
    for _ in 0..nr {
        match rng.below(3) {
            0 => {
                let mut a = rand_date(&mut rng, "DA", false);
                let mut b = rand_date(&mut rng, "DA", false);
                if a.y > b.y {
                    std::mem::swap(&mut a, &mut b);
                }
                if a.y == b.y {
                    b = a.clone();
                }
                match rng.below(4) {
                    0 => emit_range(&mut out, "DA", Some(&a), None),
                    1 => emit_range(&mut out, "DA", None, Some(&b)),
                    _ => emit_range(&mut out, "DA", Some(&a), Some(&b)),
                }
            }
            1 => {
                let mut a = V::zero("TM");
                rand_time_into(&mut rng, &mut a);
                let mut b = V::zero("TM");
                rand_time_into(&mut rng, &mut b);
                if a.h > b.h {
                    std::mem::swap(&mut a, &mut b);
                }
                if a.h == b.h {
                    b = a.clone();
                }
                match rng.below(4) {
                    0 => emit_range(&mut out, "TM", Some(&a), None),
                    1 => emit_range(&mut out, "TM", None, Some(&b)),
                    _ => emit_range(&mut out, "TM", Some(&a), Some(&b)),
                }
            }
            _ => {
                let mut a = rand_dt(&mut rng);
                let mut b = rand_dt(&mut rng);
                if a.y > b.y {
                    std::mem::swap(&mut a, &mut b);
                }
                if a.y == b.y {
                    b = a.clone();
                }
                // both with or both without offset; not "west then east"
                b.tz = a.tz;
                if !a.tz {
                    b.off = 0;
                } else if a.y != b.y {
                    b.off = if rng.coin() { a.off } else { rand_offset(&mut rng) };
                    if a.off < 0 && b.off >= 0 {
                        b.off = a.off;
                    }
                }
                match rng.below(4) {
                    0 => emit_range(&mut out, "DT", Some(&a), None),
                    1 => emit_range(&mut out, "DT", None, Some(&b)),
                    _ => emit_range(&mut out, "DT", Some(&a), Some(&b)),
                }
            }
        }
    }
    out.roll();
    let mut rep = Report::new();
    rep.cases = out.total;
    rep.extra.insert("trace_files".into(), Value::Array(out.files.clone()));
    rep.extra.insert("events".into(), Value::from(out.total as u64));
    rep.extra.insert("not_ok".into(), Value::from(not_ok as u64));
    rep.extra.insert("day_years".into(), Value::from(day_years.len() as u64));
    rep.extra.insert("leap_years_in_day_sweep".into(), Value::from(leap_years_seen as u64));
    rep.print();
}


// ---- growth families (thorough tier, observation only): events for Trace_Grow.tla ---------------

fn fmt_v(v: &V) -> String {
    // the text form of a value written by the driver (input construction, also for invalid components)
    let mut s = String::new();
    match v.dprec.as_str() {
        "Y" => s.push_str(&format!("{:04}", v.y)),
        "M" => s.push_str(&format!("{:04}{:02}", v.y, v.m)),
        "D" => s.push_str(&format!("{:04}{:02}{:02}", v.y, v.m, v.d)),
        _ => {}
    }
    match v.tprec.as_str() {
        "h" => s.push_str(&format!("{:02}", v.h)),
        "m" => s.push_str(&format!("{:02}{:02}", v.h, v.mi)),
        "s" => s.push_str(&format!("{:02}{:02}{:02}", v.h, v.mi, v.s)),
        "f" => s.push_str(&format!("{:02}{:02}{:02}.{:0w$}", v.h, v.mi, v.s, v.f, w = v.fp as usize)),
        _ => {}
    }
    if v.tz {
        s.push(if v.off < 0 { '-' } else { '+' });
        s.push_str(&format!("{:02}{:02}", v.off.abs() / 3600, v.off.abs() % 3600 / 60));
    }
    s
}

fn g_rand_v(rng: &mut Rng, kind: &str) -> V {
    match kind {
        "DA" => rand_date(rng, "DA", false),
        "TM" => {
            let mut v = V::zero("TM");
            rand_time_into(rng, &mut v);
            v
        }
        _ => rand_dt(rng),
    }
}

/// a text for a date/time conversion: valid, padded, with trailing characters, with an impossible
/// component, truncated, or arbitrary digits
fn g_dt_text(rng: &mut Rng, kind: &str) -> (String, &'static str) {
    let mut v = g_rand_v(rng, kind);
    match rng.below(8) {
        0 | 1 => (fmt_v(&v), "valid"),
        2 => (format!("{}{}", fmt_v(&v), if rng.coin() { " " } else { "  " }), "valid, space padded"),
        3 => (format!("{}{}", fmt_v(&v), rng.pick(&["x", "00", "-", "Z", ".", "\\20200101", " 1"])), "trailing characters"),
        4 => {
            match rng.below(6) {
                0 if v.dprec != "Y" && v.dprec != "none" => v.m = *rng.pick(&[0u32, 13, 99]),
                1 if v.dprec == "D" => {
                    v.m = 2;
                    v.d = *rng.pick(&[30u32, 31, 0, 32]);
                }
                2 if v.tprec != "none" => v.h = *rng.pick(&[24u32, 99]),
                3 if v.tprec == "m" || v.tprec == "s" || v.tprec == "f" => v.mi = 60,
                4 if v.tprec == "s" || v.tprec == "f" => v.s = 61,
                _ if v.tz => v.off = *rng.pick(&[15 * 3600, -13 * 3600, 14 * 3600 + 60]),
                _ => {
                    if v.dprec == "D" {
                        v.m = 4;
                        v.d = 31;
                    } else {
                        return (format!("{}9", fmt_v(&v)), "odd number of digits");
                    }
                }
            }
            (fmt_v(&v), "impossible component")
        }
        5 => {
            let t = fmt_v(&v);
            let k = rng.below(t.len() as u64 + 1) as usize;
            (t[..k].to_string(), "truncated")
        }
        6 => ((0..rng.below(16)).map(|_| char::from(b'0' + rng.below(10) as u8)).collect(), "random digits"),
        _ => (rng.pick(&["", " ", "abcd", "2020-01-01", "10:30", "2020/01/01", "20200101T1030", "\u{661}\u{662}\u{663}\u{664}", "+0100", "2020 01"]).to_string(), "other text"),
    }
}

fn g_todt(w: &mut NdjsonWriter, rng: &mut Rng) {
    let kind = *rng.pick(&["DA", "TM", "DT"]);
    let multi = rng.coin();
    let n = if rng.below(3) == 0 { 1 + rng.below(3) as usize } else { 1 };
    let use_str = n == 1 && rng.coin();
    let mut texts = vec![];
    let mut classes = vec![];
    for _ in 0..n {
        let (t, c) = g_dt_text(rng, kind);
        texts.push(t);
        classes.push(c);
    }
    let pv = if use_str { PrimitiveValue::Str(texts[0].clone()) } else { PrimitiveValue::Strs(texts.iter().cloned().collect()) };
    let kind2 = kind.to_string();
    let r = catch(move || -> Option<Vec<V>> {
        match (kind2.as_str(), multi) {
            ("DA", false) => pv.to_date().ok().map(|d| { let mut v = V::zero("DA"); proj_date(&mut v, &d); vec![v] }),
            ("DA", true) => pv.to_multi_date().ok().map(|ds| ds.iter().map(|d| { let mut v = V::zero("DA"); proj_date(&mut v, d); v }).collect()),
            ("TM", false) => pv.to_time().ok().map(|d| { let mut v = V::zero("TM"); proj_time(&mut v, &d); vec![v] }),
            ("TM", true) => pv.to_multi_time().ok().map(|ds| ds.iter().map(|d| { let mut v = V::zero("TM"); proj_time(&mut v, d); v }).collect()),
            (_, false) => pv.to_datetime().ok().map(|d| vec![proj_dt(&d)]),
            (_, true) => pv.to_multi_datetime().ok().map(|ds| ds.iter().map(proj_dt).collect()),
        }
    });
    let v = json!({"var": if use_str { "Str" } else { "Strs" }, "items": texts.iter().map(|t| cps_json(t)).collect::<Vec<_>>()});
    let (panic, res) = match r {
        Ok(Some(vs)) => (false, json!({"ok": true, "vals": vs.iter().map(|x| x.to_json()).collect::<Vec<_>>()})),
        Ok(None) => (false, json!({"ok": false, "vals": []})),
        Err(_) => (true, json!({"ok": false, "vals": []})),
    };
    w.emit(&json!({"ev": "todt", "kind": kind, "multi": multi, "what": classes.join(" | "), "text_shown": texts.join("\\"), "v": v, "panic": panic, "res": res}));
}

fn g_range_result(kind: &str, text: &str, via_value: bool) -> Value {
    let (kind, text) = (kind.to_string(), text.to_string());
    let bad = |panic: bool| json!({"ok": false, "hasStart": false, "start": zero_inst(), "hasEnd": false, "end": zero_inst(),
                                   "tzStart": false, "tzEnd": false, "offStart": 0, "offEnd": 0, "panic": panic});
    let r = catch(move || {
        let pv = PrimitiveValue::from(text.as_str());
        match kind.as_str() {
            "DA" => {
                let r = if via_value { pv.to_date_range().ok() } else { parse_date_range(text.as_bytes()).ok() };
                r.map(|r| json!({"ok": true, "hasStart": r.start().is_some(), "start": r.start().map(inst_date).unwrap_or_else(zero_inst),
                    "hasEnd": r.end().is_some(), "end": r.end().map(inst_date).unwrap_or_else(zero_inst), "tzStart": false, "tzEnd": false, "offStart": 0, "offEnd": 0}))
            }
            "TM" => {
                let r = if via_value { pv.to_time_range().ok() } else { parse_time_range(text.as_bytes()).ok() };
                r.map(|r| json!({"ok": true, "hasStart": r.start().is_some(), "start": r.start().map(inst_time).unwrap_or_else(zero_inst),
                    "hasEnd": r.end().is_some(), "end": r.end().map(inst_time).unwrap_or_else(zero_inst), "tzStart": false, "tzEnd": false, "offStart": 0, "offEnd": 0}))
            }
            _ => {
                let r = if via_value { pv.to_datetime_range().ok() } else { parse_datetime_range(text.as_bytes()).ok() };
                r.map(|r| {
                    let side = |p: Option<PreciseDateTime>| match p {
                        None => (false, zero_inst(), false, 0),
                        Some(PreciseDateTime::Naive(x)) => (true, inst_ndt(&x), false, 0),
                        Some(PreciseDateTime::TimeZone(x)) => (true, inst_ndt(&x.naive_local()), true, x.offset().local_minus_utc()),
                    };
                    let (hs, st, tzs, os) = side(r.start());
                    let (he, en, tze, oe) = side(r.end());
                    json!({"ok": true, "hasStart": hs, "start": st, "hasEnd": he, "end": en, "tzStart": tzs, "tzEnd": tze, "offStart": os, "offEnd": oe})
                })
            }
        }
    });
    match r {
        Ok(Some(v)) => v,
        Ok(None) => bad(false),
        Err(_) => bad(true),
    }
}

fn g_torange(w: &mut NdjsonWriter, rng: &mut Rng, fixed: Option<(&str, &str, &str)>) {
    let (kind, text, what): (String, String, String) = match fixed {
        Some((k, t, c)) => (k.into(), t.into(), c.into()),
        None => {
            let kind = *rng.pick(&["DA", "TM", "DT", "DT", "DT"]);
            let mut a = g_rand_v(rng, kind);
            let mut b = g_rand_v(rng, kind);
            let mut what = "two values";
            // order by year / hour most of the time
            if rng.below(8) != 0 {
                if kind == "TM" {
                    if a.h > b.h { std::mem::swap(&mut a, &mut b); }
                } else if a.y > b.y {
                    std::mem::swap(&mut a, &mut b);
                }
            } else {
                what = "possibly inverted";
            }
            let ta = fmt_v(&a);
            let tb = fmt_v(&b);
            let text = match rng.below(10) {
                0 => { what = "open end"; format!("{ta}-") }
                1 => { what = "open start"; format!("-{tb}") }
                2 => { what = "no separator"; ta.clone() }
                3 => { what = "other text"; rng.pick(&["-", "--", "", "2020--2021", "2020-2021-2022", "20200101 - 20200102", "-2020-"]).to_string() }
                _ => format!("{ta}-{tb}"),
            };
            (kind.into(), text, what.into())
        }
    };
    let via_value = rng.coin();
    let res = g_range_result(&kind, &text, via_value);
    w.emit(&json!({"ev": "torange", "kind": kind, "what": what, "text_shown": text, "text": cps_json(&text), "via_value": via_value,
                   "panic": res["panic"] == true, "res": res}));
}

fn g_ctor(w: &mut NdjsonWriter) {
    // dates: every month/day combination of four years, and out-of-range components
    let mut emit = |what: &str, v: &V, res: Result<bool, String>| {
        let r = match res { Ok(true) => "ok", Ok(false) => "err", Err(_) => "panic" };
        w.emit(&json!({"ev": "ctor", "what": what, "v": v.to_json(), "res": r}));
    };
    for y in [1900u32, 2000, 2023, 2024, 0, 9999, 10000] {
        for m in 0..=13u32 {
            for d in [0u32, 1, 28, 29, 30, 31, 32] {
                let v = da("D", y, m, d);
                emit("DicomDate::from_ymd", &v, catch(move || DicomDate::from_ymd(y as u16, m as u8, d as u8).is_ok()));
            }
            let v = da("M", y, m, 0);
            emit("DicomDate::from_ym", &v, catch(move || DicomDate::from_ym(y as u16, m as u8).is_ok()));
        }
        let v = da("Y", y, 0, 0);
        emit("DicomDate::from_y", &v, catch(move || DicomDate::from_y(y as u16).is_ok()));
    }
    for h in [0u32, 23, 24, 99] {
        emit("DicomTime::from_h", &tm("h", h, 0, 0, 0, 0), catch(move || DicomTime::from_h(h as u8).is_ok()));
        for mi in [0u32, 59, 60] {
            emit("DicomTime::from_hm", &tm("m", h, mi, 0, 0, 0), catch(move || DicomTime::from_hm(h as u8, mi as u8).is_ok()));
            for s in [0u32, 59, 60, 61] {
                emit("DicomTime::from_hms", &tm("s", h, mi, s, 0, 0), catch(move || DicomTime::from_hms(h as u8, mi as u8, s as u8).is_ok()));
                for f in [0u32, 999, 1000] {
                    emit("DicomTime::from_hms_milli", &tm("f", h, mi, s, f, 3), catch(move || DicomTime::from_hms_milli(h as u8, mi as u8, s as u8, f).is_ok()));
                }
                for f in [0u32, 999_999, 1_000_000] {
                    emit("DicomTime::from_hms_micro", &tm("f", h, mi, s, f, 6), catch(move || DicomTime::from_hms_micro(h as u8, mi as u8, s as u8, f).is_ok()));
                }
            }
        }
    }
    // date-times: time on an imprecise date; offsets beyond -1200..+1400 or with seconds
    for (dprec, m, d) in [("Y", 0u32, 0u32), ("M", 6, 0), ("D", 6, 15)] {
        let mut v = V::zero("DT");
        v.dprec = dprec.into();
        v.y = 2020;
        v.m = m;
        v.d = d;
        v.tprec = "h".into();
        v.h = 10;
        let v2 = v.clone();
        emit("DicomDateTime::from_date_and_time", &v, catch(move || build_dt(&v2, false).is_ok()));
    }
    let mut extra: Vec<Value> = vec![];
    for off in [0i32, 14 * 3600, 14 * 3600 + 60, 15 * 3600, -12 * 3600, -12 * 3600 - 60, -18 * 3600, 3630, 86399] {
        let mut v = V::zero("DT");
        v.dprec = "D".into();
        v.y = 2020;
        v.m = 6;
        v.d = 15;
        v.tz = true;
        v.off = off;
        let v2 = v.clone();
        emit("DicomDateTime::from_date_with_time_zone", &v, catch(move || build_dt(&v2, false).is_ok()));
        // what does such a value encode to, and does the text parse back?
        let v3 = v.clone();
        if let Ok(Ok(dt)) = catch(move || build_dt(&v3, false)) {
            let text = dt.to_encoded();
            let back = parse_datetime_partial(text.as_bytes()).map(|b| b == dt).unwrap_or(false);
            extra.push(json!({"ev": "ctor", "what": format!("DicomDateTime with offset {off} s; to_encoded gives {text}, which parses back to the same value: {back}"),
                              "v": v.to_json(), "res": "ok"}));
        }
    }
    for e in extra.iter() {
        w.emit(e);
    }
}

fn grow(n: usize, out_dir: &str) {
    std::fs::create_dir_all(out_dir).expect("mkdir");
    let path = format!("{out_dir}/grow.ndjson");
    let mut w = NdjsonWriter::create(&path);
    let mut rng = Rng::new(seed_from_env() ^ 0x6012);
    for _ in 0..n {
        g_todt(&mut w, &mut rng);
    }
    let fixed = [
        ("DT", "0100-0500-0400+0100", "west offset in A, east offset in B, early years"),
        ("DT", "2020-0500-2021+0100", "west offset in A, east offset in B"),
        ("DT", "2020+0100-2021-0500", "east offset in A, west offset in B"),
        ("DT", "2020-0500-2021-0500", "west offsets on both sides"),
        ("DT", "2020-2021+0100", "offset on B only"),
        ("DT", "2020+0100-2021", "offset on A only"),
        ("DT", "2020-0500", "a year and a west offset, or two years"),
        ("DT", "1000-1200", "two years, or a year and a west offset"),
        ("DT", "20200101-20191231", "inverted"),
        ("DA", "20200101-20191231", "inverted"),
        ("TM", "1030-0930", "inverted"),
        ("TM", "235960-", "leap second, open end"),
        ("DA", "2020-", "open end"),
        ("DA", "-2020", "open start"),
        ("DA", "2020", "no separator"),
        ("DA", "-", "separator only"),
    ];
    for f in fixed.iter() {
        g_torange(&mut w, &mut rng, Some(*f));
    }
    for _ in 0..n {
        g_torange(&mut w, &mut rng, None);
    }
    g_ctor(&mut w);
    let lines = w.finish();
    let mut rep = Report::new();
    rep.cases = lines;
    rep.extra.insert("trace".into(), Value::from(path));
    rep.extra.insert("events".into(), Value::from(lines as u64));
    rep.print();
}

fn main() {
    quiet_panics();
    let a = args_map();
    let mode = a.get("_0").map(String::as_str).unwrap_or("");
    match mode {
        "replay" => replay(a.get("cases").expect("--cases")),
        "record" => record(
            a.get("tier").map(String::as_str).unwrap_or("quick"),
            &a.get("out").cloned().unwrap_or_else(|| "work/C12/rec".into()),
        ),
        "grow" => grow(
            a.get("n").and_then(|s| s.parse().ok()).unwrap_or(3000),
            &a.get("out").cloned().unwrap_or_else(|| "work/C12/grow".into()),
        ),
        "probe" => {
            // debugging aid: what does the code make of one range text
            let text = a.get("text").expect("--text");
            println!("{}", range_result(a.get("kind").map(String::as_str).unwrap_or("DT"), text));
        }
        _ => {
            eprintln!("usage: drv_datetime replay --cases F | record --tier quick|thorough --out D");
            std::process::exit(2);
        }
    }
}
