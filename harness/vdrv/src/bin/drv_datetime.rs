//! C12 conformance driver: partial dates, times, date-times and their ranges.
//!
//!   drv_datetime replay --cases <ndjson>
//!        TLC cases {kind:"val", v, text, blen1, blen2, e, l} and {kind:"range", a, b, text, res}
//!        executed on DicomDate/DicomTime/DicomDateTime constructors, to_encoded,
//!        parse_*_partial, PrimitiveValue::calculate_byte_len / to_date.., AsRange::earliest /
//!        latest, parse_*_range; mismatches reported.
//!   drv_datetime record --tier quick|thorough --out <dir>
//!        native enumeration (partial dates of years 0..9999, h/m/s combinations) and seeded
//!        sampling (fractions, offsets, date-times, ranges): events for Trace_DateTime.tla in
//!        batches trace_NNN.ndjson.
//!
//! The driver has no oracle; it projects real values to components and compares with what
//! TLC expects (replay) or records them for TLC (record).

use dicom_core::chrono::{FixedOffset, NaiveDate, NaiveDateTime, NaiveTime, Datelike, Timelike};
use dicom_core::smallvec::smallvec;
use dicom_core::value::deserialize::{parse_date_partial, parse_datetime_partial, parse_time_partial};
use dicom_core::value::range::{parse_date_range, parse_datetime_range, parse_time_range};
use dicom_core::value::{AsRange, DicomDate, DicomDateTime, DicomTime, PreciseDateTime, PrimitiveValue};
use serde_json::{json, Value};
use vcommon::*;

/// keep at most 3 full mismatch records per distinct fingerprint (all are counted)
trait MismatchFp {
    fn mismatch_fp(&mut self, v: Value);
}
impl MismatchFp for Report {
    fn mismatch_fp(&mut self, v: Value) {
        self.mismatch_count += 1;
        let same = self.mismatches.iter().filter(|m| m["fp"] == v["fp"]).count();
        if same < 3 && self.mismatches.len() < self.cap {
            self.mismatches.push(v);
        }
    }
}

#[derive(Clone, Debug, PartialEq)]
struct V {
    kind: String,
    dprec: String,
    y: u32,
    m: u32,
    d: u32,
    tprec: String,
    h: u32,
    mi: u32,
    s: u32,
    f: u32,
    fp: u32,
    tz: bool,
    off: i32,
}

impl V {
    fn zero(kind: &str) -> V {
        V { kind: kind.into(), dprec: "none".into(), y: 0, m: 0, d: 0, tprec: "none".into(), h: 0, mi: 0, s: 0, f: 0, fp: 0, tz: false, off: 0 }
    }
    fn from_json(j: &Value) -> V {
        V {
            kind: j_str(&j["kind"]).into(),
            dprec: j_str(&j["dprec"]).into(),
            y: j_usize(&j["y"]) as u32,
            m: j_usize(&j["m"]) as u32,
            d: j_usize(&j["d"]) as u32,
            tprec: j_str(&j["tprec"]).into(),
            h: j_usize(&j["h"]) as u32,
            mi: j_usize(&j["mi"]) as u32,
            s: j_usize(&j["s"]) as u32,
            f: j_usize(&j["f"]) as u32,
            fp: j_usize(&j["fp"]) as u32,
            tz: j["tz"].as_bool().unwrap(),
            off: j_i64(&j["off"]) as i32,
        }
    }
    fn to_json(&self) -> Value {
        json!({"kind": self.kind, "dprec": self.dprec, "y": self.y, "m": self.m, "d": self.d, "tprec": self.tprec,
               "h": self.h, "mi": self.mi, "s": self.s, "f": self.f, "fp": self.fp, "tz": self.tz, "off": self.off})
    }
    fn class(&self) -> String {
        format!("{} {}{}{}{}", self.kind, self.dprec, if self.tprec == "none" { String::new() } else { format!("+{}", self.tprec) },
                if self.tprec == "f" { format!("{}", self.fp) } else { String::new() }, if self.tz { " tz" } else { "" })
    }
}

fn cps_json(s: &str) -> Value {
    Value::Array(s.chars().map(|c| Value::from(c as u32)).collect())
}
fn from_cps(v: &Value) -> String {
    j_arr(v).iter().map(|x| char::from_u32(x.as_u64().unwrap() as u32).unwrap()).collect()
}

// ---- building real values from components ---------------------------------------------------

fn build_date(v: &V) -> Result<DicomDate, String> {
    match v.dprec.as_str() {
        "Y" => DicomDate::from_y(v.y as u16),
        "M" => DicomDate::from_ym(v.y as u16, v.m as u8),
        "D" => DicomDate::from_ymd(v.y as u16, v.m as u8, v.d as u8),
        p => return Err(format!("no date precision {p}")),
    }
    .map_err(|e| format!("date constructor: {e}"))
}

/// times: public constructors exist for hour/minute/second precision and for 3- and 6-digit
/// fractions; other fraction precisions can only be obtained by parsing (documented)
fn build_time(v: &V, prefer_parse: bool) -> Result<DicomTime, String> {
    match v.tprec.as_str() {
        "h" => DicomTime::from_h(v.h as u8).map_err(|e| e.to_string()),
        "m" => DicomTime::from_hm(v.h as u8, v.mi as u8).map_err(|e| e.to_string()),
        "s" => DicomTime::from_hms(v.h as u8, v.mi as u8, v.s as u8).map_err(|e| e.to_string()),
        "f" => {
            if v.fp == 3 && !prefer_parse {
                DicomTime::from_hms_milli(v.h as u8, v.mi as u8, v.s as u8, v.f).map_err(|e| e.to_string())
            } else if v.fp == 6 && !prefer_parse {
                DicomTime::from_hms_micro(v.h as u8, v.mi as u8, v.s as u8, v.f).map_err(|e| e.to_string())
            } else {
                let text = format!("{:02}{:02}{:02}.{:0w$}", v.h, v.mi, v.s, v.f, w = v.fp as usize);
                match parse_time_partial(text.as_bytes()) {
                    Ok((t, rest)) if rest.is_empty() => Ok(t),
                    Ok((_, rest)) => Err(format!("parse_time_partial left {} bytes of {text}", rest.len())),
                    Err(e) => Err(format!("parse_time_partial({text}): {e}")),
                }
            }
        }
        p => Err(format!("no time precision {p}")),
    }
}

fn build_dt(v: &V, prefer_parse: bool) -> Result<DicomDateTime, String> {
    let date = build_date(v)?;
    let tz = if v.tz { Some(FixedOffset::east_opt(v.off).ok_or("offset out of chrono range")?) } else { None };
    if v.tprec == "none" {
        Ok(match tz {
            Some(o) => DicomDateTime::from_date_with_time_zone(date, o),
            None => DicomDateTime::from_date(date),
        })
    } else {
        let time = build_time(v, prefer_parse)?;
        match tz {
            Some(o) => DicomDateTime::from_date_and_time_with_time_zone(date, time, o),
            None => DicomDateTime::from_date_and_time(date, time),
        }
        .map_err(|e| e.to_string())
    }
}

// ---- projecting real values to components ---------------------------------------------------

fn proj_date(v: &mut V, d: &DicomDate) {
    v.y = *d.year() as u32;
    v.dprec = "Y".into();
    if let Some(m) = d.month() {
        v.m = *m as u32;
        v.dprec = "M".into();
    }
    if let Some(x) = d.day() {
        v.d = *x as u32;
        v.dprec = "D".into();
    }
}
fn proj_time(v: &mut V, t: &DicomTime) {
    v.h = *t.hour() as u32;
    v.tprec = "h".into();
    if let Some(m) = t.minute() {
        v.mi = *m as u32;
        v.tprec = "m".into();
    }
    if let Some(s) = t.second() {
        v.s = *s as u32;
        v.tprec = "s".into();
    }
    let fp = t.fraction_precision();
    if fp > 0 {
        v.tprec = "f".into();
        v.fp = fp as u32;
        v.f = t.fraction_str().parse::<u32>().unwrap_or(u32::MAX);
    }
}
fn proj_dt(dt: &DicomDateTime) -> V {
    let mut v = V::zero("DT");
    proj_date(&mut v, dt.date());
    if let Some(t) = dt.time() {
        proj_time(&mut v, t);
    }
    if let Some(o) = dt.time_zone() {
        v.tz = true;
        v.off = o.local_minus_utc();
    }
    v
}

fn inst_date(d: &NaiveDate) -> Value {
    json!({"y": d.year(), "m": d.month(), "d": d.day(), "h": 0, "mi": 0, "s": 0, "us": 0})
}
/// chrono keeps a leap second as second 59 with nanosecond >= 1e9
fn time_parts(t: &NaiveTime) -> (u32, u32, u32, u32) {
    let ns = t.nanosecond();
    if ns >= 1_000_000_000 {
        (t.hour(), t.minute(), t.second() + 1, (ns - 1_000_000_000) / 1000)
    } else {
        (t.hour(), t.minute(), t.second(), ns / 1000)
    }
}
fn inst_time(t: &NaiveTime) -> Value {
    let (h, mi, s, us) = time_parts(t);
    json!({"y": 0, "m": 0, "d": 0, "h": h, "mi": mi, "s": s, "us": us})
}
fn inst_ndt(x: &NaiveDateTime) -> Value {
    let (h, mi, s, us) = time_parts(&x.time());
    json!({"y": x.date().year(), "m": x.date().month(), "d": x.date().day(), "h": h, "mi": mi, "s": s, "us": us})
}
fn zero_inst() -> Value {
    json!({"y": 0, "m": 0, "d": 0, "h": 0, "mi": 0, "s": 0, "us": 0})
}
fn bound_none() -> Value {
    json!({"ok": false, "i": zero_inst(), "tz": false, "off": 0})
}
fn bound_pdt(p: &PreciseDateTime) -> Value {
    match p {
        PreciseDateTime::Naive(x) => json!({"ok": true, "i": inst_ndt(x), "tz": false, "off": 0}),
        PreciseDateTime::TimeZone(x) => json!({"ok": true, "i": inst_ndt(&x.naive_local()), "tz": true, "off": x.offset().local_minus_utc()}),
    }
}

/// everything the code says about one value
struct Obs {
    res: String,
    text: String,
    back: V,
    blen1: usize,
    blen2: usize,
    e: Value,
    l: Value,
    /// parse through PrimitiveValue::to_date/to_time/to_datetime agrees with the direct parse
    via_value_same: bool,
}

fn observe(v: &V, prefer_parse: bool) -> Obs {
    let v = v.clone();
    let r = catch(move || -> Result<Obs, String> {
        match v.kind.as_str() {
            "DA" => {
                let x = build_date(&v)?;
                let text = x.to_encoded();
                let (b, rest) = parse_date_partial(text.as_bytes()).map_err(|e| format!("parse_date_partial: {e}"))?;
                if !rest.is_empty() {
                    return Err("parse_date_partial left bytes".into());
                }
                let mut back = V::zero("DA");
                proj_date(&mut back, &b);
                let via = PrimitiveValue::from(text.as_str()).to_date().map(|d| d == b).unwrap_or(false);
                Ok(Obs {
                    res: "ok".into(),
                    text,
                    back,
                    blen1: PrimitiveValue::from(x).calculate_byte_len(),
                    blen2: PrimitiveValue::Date(smallvec![x, x]).calculate_byte_len(),
                    e: x.earliest().map(|d| json!({"ok": true, "i": inst_date(&d), "tz": false, "off": 0})).unwrap_or_else(|_| bound_none()),
                    l: x.latest().map(|d| json!({"ok": true, "i": inst_date(&d), "tz": false, "off": 0})).unwrap_or_else(|_| bound_none()),
                    via_value_same: via,
                })
            }
            "TM" => {
                let x = build_time(&v, prefer_parse)?;
                let text = x.to_encoded();
                let (b, rest) = parse_time_partial(text.as_bytes()).map_err(|e| format!("parse_time_partial: {e}"))?;
                if !rest.is_empty() {
                    return Err("parse_time_partial left bytes".into());
                }
                let mut back = V::zero("TM");
                proj_time(&mut back, &b);
                let via = PrimitiveValue::from(text.as_str()).to_time().map(|d| d == b).unwrap_or(false);
                Ok(Obs {
                    res: "ok".into(),
                    text,
                    back,
                    blen1: PrimitiveValue::from(x).calculate_byte_len(),
                    blen2: PrimitiveValue::Time(smallvec![x, x]).calculate_byte_len(),
                    e: x.earliest().map(|d| json!({"ok": true, "i": inst_time(&d), "tz": false, "off": 0})).unwrap_or_else(|_| bound_none()),
                    l: x.latest().map(|d| json!({"ok": true, "i": inst_time(&d), "tz": false, "off": 0})).unwrap_or_else(|_| bound_none()),
                    via_value_same: via,
                })
            }
            _ => {
                let x = build_dt(&v, prefer_parse)?;
                let text = x.to_encoded();
                let b = parse_datetime_partial(text.as_bytes()).map_err(|e| format!("parse_datetime_partial: {e}"))?;
                let back = proj_dt(&b);
                let via = PrimitiveValue::from(text.as_str()).to_datetime().map(|d| d == b).unwrap_or(false);
                Ok(Obs {
                    res: "ok".into(),
                    text,
                    back,
                    blen1: PrimitiveValue::from(x).calculate_byte_len(),
                    blen2: PrimitiveValue::DateTime(smallvec![x, x]).calculate_byte_len(),
                    e: x.earliest().map(|p| bound_pdt(&p)).unwrap_or_else(|_| bound_none()),
                    l: x.latest().map(|p| bound_pdt(&p)).unwrap_or_else(|_| bound_none()),
                    via_value_same: via,
                })
            }
        }
    });
    let failed = |res: String| Obs { res, text: String::new(), back: V::zero("invalid"), blen1: 0, blen2: 0, e: bound_none(), l: bound_none(), via_value_same: false };
    match r {
        Ok(Ok(o)) => o,
        Ok(Err(msg)) => failed(format!("err: {msg}")),
        Err(msg) => failed(format!("panic: {msg}")),
    }
}

/// compact event for the date sweep (same content as a "val" event of kind DA)
fn da_event(v: &V, o: &Obs) -> Value {
    let ok = o.res == "ok" && o.e["ok"] == true && o.l["ok"] == true && o.e["tz"] == false && o.l["tz"] == false;
    json!({"ev": "da", "p": v.dprec, "y": v.y, "m": v.m, "d": v.d, "ok": ok, "text": cps_json(&o.text),
           "bp": o.back.dprec, "by": o.back.y, "bm": o.back.m, "bd": o.back.d, "b1": o.blen1, "b2": o.blen2,
           "ey": o.e["i"]["y"], "em": o.e["i"]["m"], "ed": o.e["i"]["d"], "ly": o.l["i"]["y"], "lm": o.l["i"]["m"], "ld": o.l["i"]["d"]})
}

fn obs_event(v: &V, o: &Obs) -> Value {
    let res = if o.res == "ok" { "ok" } else if o.res.starts_with("panic") { "panic" } else { "err" };
    json!({"ev": "val", "class": v.class(), "v": v.to_json(), "res": res, "detail": o.res, "text": cps_json(&o.text), "back": o.back.to_json(),
           "blen1": o.blen1, "blen2": o.blen2, "e": o.e, "l": o.l})
}

// ---- ranges -----------------------------------------------------------------------------------

fn encode_real(v: &V) -> Result<String, String> {
    match v.kind.as_str() {
        "DA" => Ok(build_date(v)?.to_encoded()),
        "TM" => Ok(build_time(v, false)?.to_encoded()),
        _ => Ok(build_dt(v, false)?.to_encoded()),
    }
}

fn range_result(vkind: &str, text: &str) -> Value {
    let vkind = vkind.to_string();
    let text = text.to_string();
    let bad = || json!({"ok": false, "hasStart": false, "start": zero_inst(), "hasEnd": false, "end": zero_inst(), "tz": false, "offStart": 0, "offEnd": 0});
    match catch(move || match vkind.as_str() {
        "DA" => parse_date_range(text.as_bytes()).ok().map(|r| {
            json!({"ok": true, "hasStart": r.start().is_some(), "start": r.start().map(inst_date).unwrap_or_else(zero_inst),
                   "hasEnd": r.end().is_some(), "end": r.end().map(inst_date).unwrap_or_else(zero_inst), "tz": false, "offStart": 0, "offEnd": 0})
        }),
        "TM" => parse_time_range(text.as_bytes()).ok().map(|r| {
            json!({"ok": true, "hasStart": r.start().is_some(), "start": r.start().map(inst_time).unwrap_or_else(zero_inst),
                   "hasEnd": r.end().is_some(), "end": r.end().map(inst_time).unwrap_or_else(zero_inst), "tz": false, "offStart": 0, "offEnd": 0})
        }),
        _ => parse_datetime_range(text.as_bytes()).ok().map(|r| {
            let side = |p: Option<PreciseDateTime>| match p {
                None => (false, zero_inst(), false, 0),
                Some(PreciseDateTime::Naive(x)) => (true, inst_ndt(&x), false, 0),
                Some(PreciseDateTime::TimeZone(x)) => (true, inst_ndt(&x.naive_local()), true, x.offset().local_minus_utc()),
            };
            let (hs, st, tzs, os) = side(r.start());
            let (he, en, tze, oe) = side(r.end());
            json!({"ok": true, "hasStart": hs, "start": st, "hasEnd": he, "end": en, "tz": tzs || tze, "offStart": os, "offEnd": oe})
        }),
    }) {
        Ok(Some(v)) => v,
        Ok(None) => bad(),
        Err(_) => {
            let mut b = bad();
            b["panic"] = Value::from(true);
            b
        }
    }
}

// ---- replay ----------------------------------------------------------------------------------

fn replay(cases: &str) {
    let mut rep = Report::new();
    let mut nontrivial = 0usize;
    for case in read_ndjson(cases) {
        rep.cases += 1;
        match j_str(&case["kind"]) {
            "val" => {
                let v = V::from_json(&case["v"]);
                nontrivial += 1;
                let exp_text = from_cps(&case["text"]);
                for prefer_parse in [false, true] {
                    if prefer_parse && !(v.tprec == "f" && (v.fp == 3 || v.fp == 6)) {
                        continue;
                    }
                    let o = observe(&v, prefer_parse);
                    let cls = v.class();
                    if o.res != "ok" {
                        let what = if o.res.starts_with("panic") { "panics" } else { "fails" };
                        rep.mismatch_fp(json!({"fp": format!("constructing/encoding/parsing a valid value {what} ({cls})"), "case": case, "detail": o.res}));
                        continue;
                    }
                    if o.text != exp_text {
                        rep.mismatch_fp(json!({"fp": format!("to_encoded differs from Encode ({cls})"), "case": case, "got": o.text}));
                    }
                    if o.back != v {
                        rep.mismatch_fp(json!({"fp": format!("parse of the encoded text differs from the value ({cls})"), "case": case, "got": o.back.to_json()}));
                    }
                    if !o.via_value_same {
                        rep.mismatch_fp(json!({"fp": format!("PrimitiveValue::to_date/to_time/to_datetime disagrees with parse_*_partial ({cls})"), "case": case}));
                    }
                    if o.blen1 as u64 != case["blen1"].as_u64().unwrap() || o.blen2 as u64 != case["blen2"].as_u64().unwrap() {
                        rep.mismatch_fp(json!({"fp": format!("reported byte length differs from the encoded length ({cls})"), "case": case, "got": [o.blen1, o.blen2]}));
                    }
                    for (name, got, exp) in [("earliest", &o.e, &case["e"]), ("latest", &o.l, &case["l"])] {
                        let leap = if v.s == 60 { ", leap second" } else { "" };
                        if got["ok"] != true {
                            rep.mismatch_fp(json!({"fp": format!("{name}() fails on a valid value ({cls}{leap})"), "case": case}));
                        } else if &got["i"] != exp || got["tz"] != Value::from(v.tz) || got["off"] != Value::from(v.off) {
                            rep.mismatch_fp(json!({"fp": format!("{name}() differs from the specification ({cls}{leap})"), "case": case, "got": got}));
                        }
                    }
                }
            }
            "range" => {
                nontrivial += 1;
                let vkind = j_str(&case["vkind"]).to_string();
                let text = from_cps(&case["text"]);
                let has_a = case["hasA"].as_bool().unwrap();
                let has_b = case["hasB"].as_bool().unwrap();
                let shape = format!("{}{}-{}", vkind, if has_a { " A" } else { " " }, if has_b { "B" } else { "" });
                let leap = (has_a && case["a"]["s"] == 60) || (has_b && case["b"]["s"] == 60);
                let shape = if leap { format!("{shape}, leap second") } else { shape };
                // the range text built from the real encoders must be the text of the specification
                let mut real_text = String::new();
                if has_a {
                    real_text.push_str(&encode_real(&V::from_json(&case["a"])).unwrap_or_else(|e| format!("<{e}>")));
                }
                real_text.push('-');
                if has_b {
                    real_text.push_str(&encode_real(&V::from_json(&case["b"])).unwrap_or_else(|e| format!("<{e}>")));
                }
                if real_text != text {
                    rep.mismatch_fp(json!({"fp": format!("range text from to_encoded differs ({shape})"), "case": case, "got": real_text}));
                }
                let got = range_result(&vkind, &text);
                let exp = &case["res"];
                let tz_a = has_a && case["a"]["tz"] == true;
                let tz_b = has_b && case["b"]["tz"] == true;
                let ok = got["ok"] == true
                    && got["hasStart"] == exp["hasStart"]
                    && got["hasEnd"] == exp["hasEnd"]
                    && (!has_a || (got["start"] == exp["start"] && got["tz"] == Value::from(tz_a) && (!tz_a || got["offStart"] == case["a"]["off"])))
                    && (!has_b || (got["end"] == exp["end"] && got["tz"] == Value::from(tz_b) && (!tz_b || got["offEnd"] == case["b"]["off"])));
                if !ok {
                    let what = if got.get("panic").is_some() { "panics" } else if got["ok"] != true { "fails" } else { "differs" };
                    rep.mismatch_fp(json!({"fp": format!("range parse {what} ({shape})"), "case": case, "text": text, "got": got}));
                }
            }
            k => panic!("unknown case kind {k}"),
        }
    }
    rep.extra.insert("nontrivial".into(), Value::from(nontrivial as u64));
    rep.print();
}

// ---- record -----------------------------------------------------------------------------------

struct Out {
    dir: String,
    w: Option<NdjsonWriter>,
    files: Vec<Value>,
    in_file: usize,
    total: usize,
    batch: usize,
}
impl Out {
    fn emit(&mut self, v: &Value) {
        if self.w.is_none() {
            let path = format!("{}/trace_{:03}.ndjson", self.dir, self.files.len());
            self.w = Some(NdjsonWriter::create(&path));
            self.files.push(json!({"path": path, "events": 0}));
        }
        self.w.as_mut().unwrap().emit(v);
        self.in_file += 1;
        self.total += 1;
        if self.in_file >= self.batch {
            self.roll();
        }
    }
    fn roll(&mut self) {
        if let Some(w) = self.w.take() {
            let n = w.finish();
            let last = self.files.len() - 1;
            self.files[last]["events"] = Value::from(n as u64);
        }
        self.in_file = 0;
    }
}

fn is_leap(y: u32) -> bool {
    NaiveDate::from_ymd_opt(y as i32, 2, 29).is_some()
}
fn dim(y: u32, m: u32) -> u32 {
    // month lengths asked from chrono only to enumerate existing days (input generation)
    (28..=31).rev().find(|d| NaiveDate::from_ymd_opt(y as i32, m, *d).is_some()).unwrap()
}

fn da(dprec: &str, y: u32, m: u32, d: u32) -> V {
    let mut v = V::zero("DA");
    v.dprec = dprec.into();
    v.y = y;
    v.m = m;
    v.d = d;
    v
}
fn tm(tprec: &str, h: u32, mi: u32, s: u32, f: u32, fp: u32) -> V {
    let mut v = V::zero("TM");
    v.tprec = tprec.into();
    v.h = h;
    v.mi = mi;
    v.s = s;
    v.f = f;
    v.fp = fp;
    v
}

fn rand_date(rng: &mut Rng, kind: &str, force_day: bool) -> V {
    let y = match rng.below(6) {
        0 => *rng.pick(&[0u32, 1, 4, 100, 400, 1600, 1900, 2000, 2023, 2024, 9999]),
        _ => rng.below(10000) as u32,
    };
    let mut v = V::zero(kind);
    v.y = y;
    v.dprec = "Y".into();
    let p = if force_day { 2 } else { rng.below(3) };
    if p >= 1 {
        v.m = 1 + rng.below(12) as u32;
        v.dprec = "M".into();
    }
    if p >= 2 {
        let n = dim(y, v.m);
        v.d = if rng.below(4) == 0 { n } else { 1 + rng.below(n as u64) as u32 };
        v.dprec = "D".into();
    }
    v
}
fn rand_time_into(rng: &mut Rng, v: &mut V) {
    let p = rng.below(4);
    v.h = rng.below(24) as u32;
    v.tprec = "h".into();
    if p >= 1 {
        v.mi = rng.below(60) as u32;
        v.tprec = "m".into();
    }
    if p >= 2 {
        v.s = if rng.below(10) == 0 { 60 } else { rng.below(60) as u32 };
        if v.s == 60 && rng.coin() {
            v.h = 23;
            v.mi = 59;
        }
        v.tprec = "s".into();
    }
    if p >= 3 {
        v.fp = 1 + rng.below(6) as u32;
        let max = 10u32.pow(v.fp);
        v.f = match rng.below(5) {
            0 => 0,
            1 => max - 1,
            _ => rng.below(max as u64) as u32,
        };
        v.tprec = "f".into();
    }
}
fn rand_offset(rng: &mut Rng) -> i32 {
    match rng.below(6) {
        0 => 0,
        1 => 14 * 3600,
        2 => -12 * 3600,
        3 => 60 * rng.range(0, 14 * 60) as i32,
        4 => -60 * rng.range(0, 12 * 60) as i32,
        _ => 900 * rng.range(-48, 56) as i32,
    }
}
fn rand_dt(rng: &mut Rng) -> V {
    let with_time = rng.coin();
    let mut v = rand_date(rng, "DT", with_time);
    if with_time {
        rand_time_into(rng, &mut v);
    }
    if rng.coin() {
        v.tz = true;
        v.off = rand_offset(rng);
    }
    v
}

fn emit_range(out: &mut Out, vkind: &str, a: Option<&V>, b: Option<&V>) {
    let mut text = String::new();
    let mut ok = true;
    if let Some(a) = a {
        match encode_real(a) {
            Ok(s) => text.push_str(&s),
            Err(_) => ok = false,
        }
    }
    text.push('-');
    if let Some(b) = b {
        match encode_real(b) {
            Ok(s) => text.push_str(&s),
            Err(_) => ok = false,
        }
    }
    let res = if ok { range_result(vkind, &text) } else { range_result(vkind, "") };
    let zero = V::zero("invalid");
    let leap = a.map(|x| x.s == 60).unwrap_or(false) || b.map(|x| x.s == 60).unwrap_or(false);
    out.emit(&json!({"ev": "range", "vkind": vkind, "leap": leap, "hasA": a.is_some(), "a": a.unwrap_or(&zero).to_json(), "hasB": b.is_some(),
        "b": b.unwrap_or(&zero).to_json(), "text": cps_json(&text), "res": res}));
}

fn record(tier: &str, out_dir: &str) {
    std::fs::create_dir_all(out_dir).expect("mkdir");
    let quick = tier != "thorough";
    let mut out = Out { dir: out_dir.into(), w: None, files: vec![], in_file: 0, total: 0, batch: if quick { 12_500 } else { 150_000 } };
    let mut rng = Rng::new(seed_from_env() ^ 0xC12);
    let mut not_ok = 0usize;
    let val = |out: &mut Out, v: &V, prefer_parse: bool, not_ok: &mut usize| {
        let o = observe(v, prefer_parse);
        if o.res != "ok" {
            *not_ok += 1;
        }
        // the date sweep uses the compact event form (every 50th date also in the full form)
        if v.kind == "DA" && out.total % 50 != 0 {
            out.emit(&da_event(v, &o));
        } else {
            out.emit(&obs_event(v, &o));
        }
    };

    // 1. partial dates: every year at year precision; months and days of all years (thorough)
    //    or of boundary + seeded years (quick)
    let boundary = [0u32, 1, 4, 100, 400, 1582, 1600, 1700, 1900, 2000, 2023, 2024, 2100, 9996, 9999];
    let mut month_years: Vec<u32> = boundary.to_vec();
    let mut day_years: Vec<u32> = boundary.to_vec();
    if quick {
        for _ in 0..150 {
            month_years.push(rng.below(10000) as u32);
        }
        for _ in 0..25 {
            day_years.push(rng.below(10000) as u32);
        }
    } else {
        month_years = (0..10000).collect();
        day_years = (0..10000).collect();
    }
    let mut leap_years_seen = 0usize;
    for y in 0..10000u32 {
        val(&mut out, &da("Y", y, 0, 0), false, &mut not_ok);
    }
    for &y in &month_years {
        for m in 1..=12 {
            val(&mut out, &da("M", y, m, 0), false, &mut not_ok);
        }
    }
    for &y in &day_years {
        if is_leap(y) {
            leap_years_seen += 1;
        }
        for m in 1..=12 {
            for d in 1..=dim(y, m) {
                val(&mut out, &da("D", y, m, d), false, &mut not_ok);
            }
        }
    }
    // 2. times: all hours, all hour/minute pairs, hour/minute/second triples (all in thorough)
    for h in 0..24 {
        val(&mut out, &tm("h", h, 0, 0, 0, 0), false, &mut not_ok);
        for mi in 0..60 {
            val(&mut out, &tm("m", h, mi, 0, 0, 0), false, &mut not_ok);
            for s in 0..=60 {
                if quick && !(s == 0 || s >= 59 || (h * 61 + mi * 7 + s) % 13 == 0) {
                    continue;
                }
                val(&mut out, &tm("s", h, mi, s, 0, 0), false, &mut not_ok);
            }
        }
    }
    // 3. fractions 1..6 digits (constructed and parsed), seeded
    let nf = if quick { 3000 } else { 60000 };
    for i in 0..nf {
        let mut v = V::zero("TM");
        loop {
            rand_time_into(&mut rng, &mut v);
            if v.tprec == "f" {
                break;
            }
            v = V::zero("TM");
        }
        val(&mut out, &v, i % 2 == 1, &mut not_ok);
    }
    // 4. date-times, seeded
    let nd = if quick { 4000 } else { 80000 };
    for i in 0..nd {
        let v = rand_dt(&mut rng);
        val(&mut out, &v, i % 2 == 1, &mut not_ok);
    }
    // 5. ranges, seeded; premise kept by construction: A before B by year (dates, date-times) or
    //    by hour (times); equal offsets or offsets on values at least a year apart
    let nr = if quick { 1500 } else { 30000 };
    for _ in 0..nr {
        match rng.below(3) {
            0 => {
                let mut a = rand_date(&mut rng, "DA", false);
                let mut b = rand_date(&mut rng, "DA", false);
                if a.y > b.y {
                    std::mem::swap(&mut a, &mut b);
                }
                if a.y == b.y {
                    b = a.clone();
                }
                match rng.below(4) {
                    0 => emit_range(&mut out, "DA", Some(&a), None),
                    1 => emit_range(&mut out, "DA", None, Some(&b)),
                    _ => emit_range(&mut out, "DA", Some(&a), Some(&b)),
                }
            }
            1 => {
                let mut a = V::zero("TM");
                rand_time_into(&mut rng, &mut a);
                let mut b = V::zero("TM");
                rand_time_into(&mut rng, &mut b);
                if a.h > b.h {
                    std::mem::swap(&mut a, &mut b);
                }
                if a.h == b.h {
                    b = a.clone();
                }
                match rng.below(4) {
                    0 => emit_range(&mut out, "TM", Some(&a), None),
                    1 => emit_range(&mut out, "TM", None, Some(&b)),
                    _ => emit_range(&mut out, "TM", Some(&a), Some(&b)),
                }
            }
            _ => {
                let mut a = rand_dt(&mut rng);
                let mut b = rand_dt(&mut rng);
                if a.y > b.y {
                    std::mem::swap(&mut a, &mut b);
                }
                if a.y == b.y {
                    b = a.clone();
                }
                // both with or both without offset; not "west then east"
                b.tz = a.tz;
                if !a.tz {
                    b.off = 0;
                } else if a.y != b.y {
                    b.off = if rng.coin() { a.off } else { rand_offset(&mut rng) };
                    if a.off < 0 && b.off >= 0 {
                        b.off = a.off;
                    }
                }
                match rng.below(4) {
                    0 => emit_range(&mut out, "DT", Some(&a), None),
                    1 => emit_range(&mut out, "DT", None, Some(&b)),
                    _ => emit_range(&mut out, "DT", Some(&a), Some(&b)),
                }
            }
        }
    }
    out.roll();
    let mut rep = Report::new();
    rep.cases = out.total;
    rep.extra.insert("trace_files".into(), Value::Array(out.files.clone()));
    rep.extra.insert("events".into(), Value::from(out.total as u64));
    rep.extra.insert("not_ok".into(), Value::from(not_ok as u64));
    rep.extra.insert("day_years".into(), Value::from(day_years.len() as u64));
    rep.extra.insert("leap_years_in_day_sweep".into(), Value::from(leap_years_seen as u64));
    rep.print();
}

fn main() {
    quiet_panics();
    let a = args_map();
    let mode = a.get("_0").map(String::as_str).unwrap_or("");
    match mode {
        "replay" => replay(a.get("cases").expect("--cases")),
        "record" => record(
            a.get("tier").map(String::as_str).unwrap_or("quick"),
            &a.get("out").cloned().unwrap_or_else(|| "work/C12/rec".into()),
        ),
        "probe" => {
            // debugging aid: what does the code make of one range text
            let text = a.get("text").expect("--text");
            println!("{}", range_result(a.get("kind").map(String::as_str).unwrap_or("DT"), text));
        }
        _ => {
            eprintln!("usage: drv_datetime replay --cases F | record --tier quick|thorough --out D");
            std::process::exit(2);
        }
    }
}
