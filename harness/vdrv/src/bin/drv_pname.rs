//! C17 conformance driver: person names (PersonNameBuilder, to_dicom_string, from_text,
//! PrimitiveValue::from(PersonName) / to_person_name).
//!
//!   drv_pname replay --cases <ndjson> --out <dir>   TLC cases (components, expected text, expected
//!                                                   parse) executed on the real code; mismatches reported
//!   drv_pname record --n <N> --out <dir>            seeded random component texts -> trace.ndjson for
//!                                                   Trace_PersonName.tla
//!
//! The driver has no oracle: it transports code points, compares "expected by TLC" with
//! "observed" for equality (replay) or records what the code did (record).

use dicom_core::value::person_name::{PersonName, PersonNameBuilder};
use dicom_core::value::PrimitiveValue;
use serde_json::{json, Value};
use vcommon::*;

/// keep at most 3 full mismatch records per distinct fingerprint (all are counted)
trait MismatchFp {
    fn mismatch_fp(&mut self, v: Value);
}
impl MismatchFp for Report {
    fn mismatch_fp(&mut self, v: Value) {
        self.mismatch_count += 1;
        let same = self.mismatches.iter().filter(|m| m["fp"] == v["fp"]).count();
        if same < 3 && self.mismatches.len() < self.cap {
            self.mismatches.push(v);
        }
    }
}

fn cps(s: &str) -> Vec<u32> {
    s.chars().map(|c| c as u32).collect()
}
fn cps_json(s: &str) -> Value {
    Value::Array(cps(s).into_iter().map(Value::from).collect())
}
fn from_cps(v: &Value) -> String {
    j_arr(v)
        .iter()
        .map(|x| char::from_u32(x.as_u64().expect("code point") as u32).expect("valid scalar"))
        .collect()
}

/// components in DICOM order: family, given, middle, prefix, suffix
fn build(comps: &[String], empty_as_some: bool) -> PersonName<'static> {
    let mut b = PersonNameBuilder::new();
    if !comps[0].is_empty() || empty_as_some {
        b.with_family(comps[0].clone());
    }
    if !comps[1].is_empty() || empty_as_some {
        b.with_given(comps[1].clone());
    }
    if !comps[2].is_empty() || empty_as_some {
        b.with_middle(comps[2].clone());
    }
    if !comps[3].is_empty() || empty_as_some {
        b.with_prefix(comps[3].clone());
    }
    if !comps[4].is_empty() || empty_as_some {
        b.with_suffix(comps[4].clone());
    }
    b.build()
}

fn parts(p: &PersonName) -> Vec<String> {
    [p.family(), p.given(), p.middle(), p.prefix(), p.suffix()]
        .iter()
        .map(|o| o.unwrap_or("").to_string())
        .collect()
}
fn parts_json(p: &[String]) -> Value {
    Value::Array(p.iter().map(|s| cps_json(s)).collect())
}

/// what the code does with one component tuple, through one of the API routes
fn observe(comps: &[String], via: &str) -> Result<(String, Vec<String>, bool), String> {
    let comps = comps.to_vec();
    let via = via.to_string();
    catch(move || {
        let pn = build(&comps, false);
        match via.as_str() {
            "builder" => {
                let text = pn.to_dicom_string();
                let back = PersonName::from_text(&text);
                let same = back == pn;
                (text.clone(), parts(&back), same)
            }
            _ => {
                // through a primitive value
                let v = PrimitiveValue::from(pn.clone());
                let text = v.to_str().to_string();
                let back = v.to_person_name().expect("Str value converts to a person name");
                let same = back == pn;
                let p = parts(&back);
                (text, p, same)
            }
        }
    })
}


/// set the present components on a builder that may have been used before
fn fill(b: &mut PersonNameBuilder<'static>, comps: &[String]) {
    if !comps[0].is_empty() {
        b.with_family(comps[0].clone());
    }
    if !comps[1].is_empty() {
        b.with_given(comps[1].clone());
    }
    if !comps[2].is_empty() {
        b.with_middle(comps[2].clone());
    }
    if !comps[3].is_empty() {
        b.with_prefix(comps[3].clone());
    }
    if !comps[4].is_empty() {
        b.with_suffix(comps[4].clone());
    }
}
const REUSE_ROUTES: [&str; 3] = ["reuse build()", "reuse into() from &mut", "reuse into() from owned"];
/// the next name from ONE builder reused for a whole sequence of names, through a public
/// conversion route; every route is documented to leave the builder in its default state
fn next_from(b: &mut PersonNameBuilder<'static>, comps: &[String], route: &str) -> PersonName<'static> {
    fill(b, comps);
    match route {
        "reuse build()" => b.build(),
        "reuse into() from &mut" => {
            let r: &mut PersonNameBuilder<'static> = b;
            r.into()
        }
        _ => std::mem::take(b).into(),
    }
}
/// (text, components parsed back) of each name of a sequence built from one reused builder
fn reuse_sequence(seq: &[Vec<String>], route: &str) -> Result<Vec<(String, Vec<String>)>, String> {
    let seq = seq.to_vec();
    let route = route.to_string();
    catch(move || {
        let mut b = PersonNameBuilder::new();
        seq.iter()
            .map(|comps| {
                let pn = next_from(&mut b, comps, &route);
                let text = pn.to_dicom_string();
                let back = parts(&PersonName::from_text(&text));
                (text, back)
            })
            .collect()
    })
}
fn mask_of(comps: &[String]) -> usize {
    comps.iter().enumerate().map(|(i, c)| if c.is_empty() { 0 } else { 1 << i }).sum()
}

fn presence(comps: &[String]) -> String {
    comps.iter().map(|c| if c.is_empty() { '-' } else { 'P' }).collect()
}

fn replay(cases: &str, _out: &str) {
    let mut rep = Report::new();
    let mut nontrivial = 0usize;
    let mut drift_some_empty = 0usize;
    let mut drift_example = Value::Null;
    for case in read_ndjson(cases) {
        rep.cases += 1;
        let comps: Vec<String> = j_arr(&case["comps"]).iter().map(from_cps).collect();
        let exp_text = from_cps(&case["text"]);
        let exp_back: Vec<String> = j_arr(&case["back"]).iter().map(from_cps).collect();
        if comps.iter().any(|c| !c.is_empty()) {
            nontrivial += 1;
        }
        for via in ["builder", "value"] {
            match observe(&comps, via) {
                Err(msg) => rep.mismatch_fp(json!({"fp": format!("panic formatting/parsing a person name ({via})"),
                    "presence": presence(&comps), "case": case, "panic": msg})),
                Ok((text, back, same)) => {
                    if text != exp_text {
                        rep.mismatch_fp(json!({"fp": format!("to_dicom_string differs from ToText ({via}) presence={}", presence(&comps)),
                            "case": case, "got_text": cps_json(&text)}));
                    } else if back != exp_back || !same {
                        rep.mismatch_fp(json!({"fp": format!("from_text(to_dicom_string) differs from the components ({via}) presence={}", presence(&comps)),
                            "case": case, "got_back": parts_json(&back), "struct_equal": same}));
                    }
                }
            }
        }
        // parse of the text expected by the specification, independent of the printer
        let exp_text2 = exp_text.clone();
        match catch(move || parts(&PersonName::from_text(&exp_text2))) {
            Err(msg) => rep.mismatch_fp(json!({"fp": "panic in from_text", "case": case, "panic": msg})),
            Ok(back) => {
                if back != exp_back {
                    rep.mismatch_fp(json!({"fp": format!("from_text(ToText) differs from FromText presence={}", presence(&comps)),
                        "case": case, "got_back": parts_json(&back)}));
                }
            }
        }
        // informational: components given as present-but-empty strings (outside the premise
        // "present/absent components": an empty string is treated as a present component)
        if comps.iter().any(|c| c.is_empty()) {
            let c2 = comps.clone();
            if let Ok(t) = catch(move || build(&c2, true).to_dicom_string()) {
                if t != exp_text {
                    drift_some_empty += 1;
                    if drift_example.is_null() {
                        drift_example = json!({"comps": case["comps"], "text_with_empty_strings_set": t, "spec_text": exp_text});
                    }
                }
            }
        }
    }
    // one builder reused for a sequence of names: the 32 presence combinations ascending, descending
    // and in a seeded order, each name compared with the text TLC expects for ITS OWN components
    let all: Vec<(Vec<String>, String)> = read_ndjson(cases)
        .iter()
        .map(|c| (j_arr(&c["comps"]).iter().map(from_cps).collect(), from_cps(&c["text"])))
        .collect();
    let mut rng = Rng::new(seed_from_env() ^ 0xB17);
    let mut reuse_names = 0usize;
    if !all.is_empty() {
        for round in 0..6 {
            // one case per presence mask (a different pick every round), where the mask occurs
            let mut per_mask: Vec<Option<usize>> = vec![None; 32];
            let start = rng.below(all.len() as u64) as usize;
            for k in 0..all.len() {
                let i = (start + k * 7919) % all.len();
                let m = mask_of(&all[i].0);
                if per_mask[m].is_none() {
                    per_mask[m] = Some(i);
                }
            }
            let mut order: Vec<usize> = per_mask.iter().flatten().cloned().collect();
            match round % 3 {
                0 => {}
                1 => order.reverse(),
                _ => {
                    for i in (1..order.len()).rev() {
                        order.swap(i, rng.below(i as u64 + 1) as usize);
                    }
                }
            }
            let seq: Vec<Vec<String>> = order.iter().map(|i| all[*i].0.clone()).collect();
            for route in REUSE_ROUTES {
                match reuse_sequence(&seq, route) {
                    Err(msg) => rep.mismatch_fp(json!({"fp": format!("panic building names from a reused builder ({route})"), "panic": msg})),
                    Ok(got) => {
                        for (k, (text, back)) in got.iter().enumerate() {
                            reuse_names += 1;
                            let (comps, exp_text) = &all[order[k]];
                            if text != exp_text || back != comps {
                                let prev = if k > 0 { presence(&all[order[k - 1]].0) } else { "(first)".to_string() };
                                rep.mismatch_fp(json!({"fp": format!("a name built from a reused PersonNameBuilder differs from its own components ({route})"),
                                    "comps": parts_json(comps), "presence": presence(comps), "previous_name_presence": prev,
                                    "expected_text": cps_json(exp_text), "got_text": cps_json(text), "got_back": parts_json(back)}));
                                break;
                            }
                        }
                    }
                }
            }
        }
    }
    rep.extra.insert("reuse_names".into(), Value::from(reuse_names as u64));
    rep.extra.insert("nontrivial".into(), Value::from(nontrivial as u64));
    rep.extra.insert("drift_some_empty".into(), Value::from(drift_some_empty as u64));
    rep.extra.insert("drift_example".into(), drift_example);
    rep.print();
}

/// repertoire for random component texts (premise of C17: no '^', '=', no edge spaces;
/// control characters are not part of the PN repertoire)
fn rand_char(rng: &mut Rng, edge: bool) -> char {
    loop {
        let c = match rng.below(12) {
            0..=3 => rng.range(0x21, 0x7e) as u32,
            4 => {
                if edge {
                    rng.range(0x41, 0x5a) as u32
                } else {
                    0x20
                }
            }
            5 => rng.range(0xa1, 0xff) as u32,
            6 => rng.range(0x391, 0x3c9) as u32,
            7 => rng.range(0x410, 0x44f) as u32,
            8 => rng.range(0x4e00, 0x9fa5) as u32,
            9 => rng.range(0x3041, 0x30fe) as u32,
            10 => {
                if rng.coin() {
                    *rng.pick(&['\\', '/', '.', ',', '-', '\'', '"', '@']) as u32
                } else {
                    rng.range(0x1f600, 0x1f64f) as u32
                }
            }
            _ => rng.range(0xac00, 0xd7a3) as u32,
        };
        let ch = match char::from_u32(c) {
            Some(ch) => ch,
            None => continue,
        };
        if ch == '^' || ch == '=' || ch.is_control() {
            continue;
        }
        if edge && ch.is_whitespace() {
            continue;
        }
        if !edge && ch.is_whitespace() && ch != ' ' {
            continue;
        }
        return ch;
    }
}

fn rand_comp(rng: &mut Rng) -> String {
    let span = if rng.below(8) == 0 { 40 } else { 9 };
    let n = 1 + rng.below(span) as usize;
    (0..n).map(|i| rand_char(rng, i == 0 || i == n - 1)).collect()
}

fn record(n: usize, out: &str) {
    std::fs::create_dir_all(out).expect("mkdir");
    let path = format!("{out}/trace.ndjson");
    let mut w = NdjsonWriter::create(&path);
    let mut rng = Rng::new(seed_from_env() ^ 0xC17);
    let mut rep = Report::new();
    let mut nontrivial = 0usize;
    let mut panics = 0usize;
    for i in 0..n {
        let mask = i % 32; // all 32 presence combinations, round robin
        let comps: Vec<String> = (0..5).map(|k| if mask >> k & 1 == 1 { rand_comp(&mut rng) } else { String::new() }).collect();
        if mask != 0 {
            nontrivial += 1;
        }
        let via = if rng.below(3) == 0 { "value" } else { "builder" };
        rep.cases += 1;
        match observe(&comps, via) {
            Ok((text, back, same)) => w.emit(&json!({"ev": "pn", "via": via, "presence": presence(&comps), "comps": parts_json(&comps),
                "res": "ok", "struct_equal": same, "text": cps_json(&text), "back": parts_json(&back)})),
            Err(msg) => {
                panics += 1;
                w.emit(&json!({"ev": "pn", "via": via, "presence": presence(&comps), "comps": parts_json(&comps), "res": "panic", "msg": msg}))
            }
        }
    }
    // sequences of names from one reused builder (seeded order of presence combinations)
    for round in 0..(n / 160 + 1) {
        let route = REUSE_ROUTES[round % 3];
        let seq: Vec<Vec<String>> = (0..32)
            .map(|_| {
                let mask = rng.below(32);
                (0..5).map(|k| if mask >> k & 1 == 1 { rand_comp(&mut rng) } else { String::new() }).collect()
            })
            .collect();
        match reuse_sequence(&seq, route) {
            Ok(got) => {
                for (comps, (text, back)) in seq.iter().zip(got.iter()) {
                    rep.cases += 1;
                    if comps.iter().any(|c| !c.is_empty()) {
                        nontrivial += 1;
                    }
                    w.emit(&json!({"ev": "pn", "via": route, "presence": presence(comps), "comps": parts_json(comps), "res": "ok",
                        "struct_equal": back == comps, "text": cps_json(text), "back": parts_json(back)}));
                }
            }
            Err(msg) => {
                panics += 1;
                w.emit(&json!({"ev": "pn", "via": route, "presence": presence(&seq[0]), "comps": parts_json(&seq[0]), "res": "panic", "msg": msg}));
            }
        }
    }
    let lines = w.finish();
    rep.extra.insert("trace".into(), Value::from(path));
    rep.extra.insert("events".into(), Value::from(lines as u64));
    rep.extra.insert("nontrivial".into(), Value::from(nontrivial as u64));
    rep.extra.insert("panics".into(), Value::from(panics as u64));
    rep.print();
}


// ---- growth family (thorough tier, observation only): to_person_name on stored values ----------

fn grow(n: usize, out: &str) {
    std::fs::create_dir_all(out).expect("mkdir");
    let path = format!("{out}/grow.ndjson");
    let mut w = NdjsonWriter::create(&path);
    let mut rng = Rng::new(seed_from_env() ^ 0x6017);
    let mut cases: Vec<(String, Vec<String>)> = vec![
        ("Str".into(), vec!["Adams^John^Robert^Rev.^B.A. M.Div.".into()]),
        ("Str".into(), vec!["Adams^John ".into()]),
        ("Str".into(), vec!["Adams^ ".into()]),
        ("Str".into(), vec!["".into()]),
        ("Str".into(), vec!["^^^^".into()]),
        ("Str".into(), vec!["A^B^C^D^E^F".into()]),
        ("Str".into(), vec!["Yamada^Tarou=\u{5c71}\u{7530}^\u{592a}\u{90ce}=\u{3084}\u{307e}\u{3060}^\u{305f}\u{308d}\u{3046}".into()]),
        ("Strs".into(), vec![]),
        ("Strs".into(), vec!["Doe^Jane".into(), "Roe^Richard".into()]),
        ("Empty".into(), vec![]),
        ("U16".into(), vec![]),
    ];
    for i in 0..n {
        let k = 1 + rng.below(6) as usize;
        let mut t = String::new();
        for j in 0..k {
            if j > 0 {
                t.push('^');
            }
            if rng.below(3) != 0 {
                t.push_str(&rand_comp(&mut rng));
            }
        }
        for _ in 0..rng.below(3) {
            t.push(' ');
        }
        if i % 3 == 0 {
            cases.push(("Strs".into(), vec![t, "Second^Value".into()]));
        } else {
            cases.push(("Str".into(), vec![t]));
        }
    }
    for (var, texts) in cases {
        let pv = match var.as_str() {
            "Str" => PrimitiveValue::Str(texts[0].clone()),
            "Strs" => PrimitiveValue::Strs(texts.iter().cloned().collect()),
            "Empty" => PrimitiveValue::Empty,
            _ => PrimitiveValue::U16(Default::default()),
        };
        let r = catch(move || pv.to_person_name().ok().map(|p| parts(&p)));
        let v = json!({"var": var, "items": texts.iter().map(|t| cps_json(t)).collect::<Vec<_>>()});
        let empty5 = parts_json(&vec![String::new(); 5]);
        let (panic, res) = match r {
            Ok(Some(p)) => (false, json!({"ok": true, "comps": parts_json(&p)})),
            Ok(None) => (false, json!({"ok": false, "comps": empty5})),
            Err(_) => (true, json!({"ok": false, "comps": empty5})),
        };
        w.emit(&json!({"ev": "topn", "text_shown": texts.first().cloned().unwrap_or_default(), "v": v, "panic": panic, "res": res}));
    }
    let lines = w.finish();
    let mut rep = Report::new();
    rep.cases = lines;
    rep.extra.insert("trace".into(), Value::from(path));
    rep.extra.insert("events".into(), Value::from(lines as u64));
    rep.print();
}

fn main() {
    quiet_panics();
    let a = args_map();
    let mode = a.get("_0").map(String::as_str).unwrap_or("");
    let out = a.get("out").cloned().unwrap_or_else(|| "work/C17/out".into());
    match mode {
        "replay" => replay(a.get("cases").expect("--cases"), &out),
        "record" => record(a.get("n").and_then(|s| s.parse().ok()).unwrap_or(2000), &out),
        "grow" => grow(a.get("n").and_then(|s| s.parse().ok()).unwrap_or(2000), &out),
        _ => {
            eprintln!("usage: drv_pname replay --cases F --out D | record --n N --out D");
            std::process::exit(2);
        }
    }
}
