//! C11 conformance driver: numeric conversions and extend/truncate of PrimitiveValue.
//!
//!   drv_conv replay --cases <ndjson>
//!        TLC cases {kind:"int"|"float", v, T|w, multi, res} executed through PrimitiveValue,
//!        Value and DataElement; {kind:"hist", init, steps:[{op, ok, after}]} executed step by
//!        step with extend_* / truncate; mismatches reported.
//!   drv_conv record --n <N> --out <dir>
//!        seeded random values (full 64-bit range, padded numeric strings, float bit patterns)
//!        x conversions, and random extend/truncate sequences of length <= 30 ->
//!        trace.ndjson for Trace_Conv.tla.
//!
//! Numbers travel as {neg, d:[decimal digits]}; floats as tokens {k:"int", n} (integral value
//! exactly representable) or {k:"bits", b: hex}; "any" marks what the specification leaves open.
//! The driver projects and compares for equality; it holds no conversion oracle.

use dicom_core::header::EmptyObject;
use dicom_core::smallvec::SmallVec;
use dicom_core::value::{DicomDate, DicomDateTime, DicomTime, InMemFragment, PrimitiveValue, Value as DValue};
use dicom_core::{DataElement, Tag, VR};
use serde_json::{json, Value};
use vcommon::*;

/// keep at most 3 full mismatch records per distinct fingerprint (all are counted)
trait MismatchFp {
    fn mismatch_fp(&mut self, v: Value);
}
impl MismatchFp for Report {
    fn mismatch_fp(&mut self, v: Value) {
        self.mismatch_count += 1;
        let same = self.mismatches.iter().filter(|m| m["fp"] == v["fp"]).count();
        if same < 3 && self.mismatches.len() < self.cap {
            self.mismatches.push(v);
        }
    }
}

// ---- numbers -----------------------------------------------------------------------------------

fn n_json(x: i128) -> Value {
    let digits: Vec<Value> = x.unsigned_abs().to_string().bytes().map(|b| Value::from((b - b'0') as u32)).collect();
    json!({"neg": x < 0, "d": digits})
}
fn n_from(j: &Value) -> i128 {
    let s: String = j_arr(&j["d"]).iter().map(|d| char::from(b'0' + j_usize(d) as u8)).collect();
    let m: i128 = s.parse().expect("digits");
    if j["neg"].as_bool().unwrap() {
        -m
    } else {
        m
    }
}
fn cps_json(s: &str) -> Value {
    Value::Array(s.chars().map(|c| Value::from(c as u32)).collect())
}
fn from_cps(v: &Value) -> String {
    j_arr(v).iter().map(|x| char::from_u32(x.as_u64().unwrap() as u32).unwrap()).collect()
}

// ---- float tokens ------------------------------------------------------------------------------

fn tok_f32(x: f32) -> Value {
    if x.is_finite() && x.fract() == 0.0 && x.abs() <= 16_777_216.0 && !(x == 0.0 && x.is_sign_negative()) {
        json!({"k": "int", "n": n_json(x as i128), "b": ""})
    } else {
        json!({"k": "bits", "n": n_json(0), "b": format!("{:08x}", x.to_bits())})
    }
}
fn tok_f64(x: f64) -> Value {
    if x.is_finite() && x.fract() == 0.0 && x.abs() <= 9_007_199_254_740_992.0 && !(x == 0.0 && x.is_sign_negative()) {
        json!({"k": "int", "n": n_json(x as i128), "b": ""})
    } else {
        json!({"k": "bits", "n": n_json(0), "b": format!("{:016x}", x.to_bits())})
    }
}
fn f32_from(t: &Value) -> f32 {
    match j_str(&t["k"]) {
        "int" => n_from(&t["n"]) as f32,
        _ => f32::from_bits(u32::from_str_radix(j_str(&t["b"]), 16).expect("hex")),
    }
}
fn f64_from(t: &Value) -> f64 {
    match j_str(&t["k"]) {
        "int" => n_from(&t["n"]) as f64,
        _ => f64::from_bits(u64::from_str_radix(j_str(&t["b"]), 16).expect("hex")),
    }
}
fn tok_match(exp: &Value, got: &Value) -> bool {
    exp["k"] == "any" || (exp["k"] == got["k"] && exp["n"] == got["n"] && exp["b"] == got["b"])
}

// ---- values ------------------------------------------------------------------------------------

fn build(v: &Value) -> PrimitiveValue {
    let items = j_arr(&v["items"]);
    macro_rules! ints {
        ($variant:ident, $t:ty) => {
            PrimitiveValue::$variant(items.iter().map(|x| <$t>::try_from(n_from(x)).expect("item fits its variant")).collect())
        };
    }
    match j_str(&v["var"]) {
        "Empty" => PrimitiveValue::Empty,
        "Str" => PrimitiveValue::Str(from_cps(&items[0])),
        "Strs" => PrimitiveValue::Strs(items.iter().map(from_cps).collect()),
        "U8" => ints!(U8, u8),
        "I16" => ints!(I16, i16),
        "U16" => ints!(U16, u16),
        "I32" => ints!(I32, i32),
        "U32" => ints!(U32, u32),
        "I64" => ints!(I64, i64),
        "U64" => ints!(U64, u64),
        "F32" => PrimitiveValue::F32(items.iter().map(f32_from).collect()),
        "F64" => PrimitiveValue::F64(items.iter().map(f64_from).collect()),
        "Tags" => PrimitiveValue::Tags(items.iter().map(|x| Tag(0x0008, j_usize(x) as u16)).collect()),
        "Date" => PrimitiveValue::Date(items.iter().map(|x| DicomDate::from_y(2000 + j_usize(x) as u16).unwrap()).collect()),
        "Time" => PrimitiveValue::Time(items.iter().map(|x| DicomTime::from_h(j_usize(x) as u8).unwrap()).collect()),
        "DateTime" => PrimitiveValue::DateTime(
            items.iter().map(|x| DicomDateTime::from_date(DicomDate::from_y(2000 + j_usize(x) as u16).unwrap())).collect(),
        ),
        other => panic!("unknown variant {other}"),
    }
}

fn project(pv: &PrimitiveValue) -> Value {
    fn ints<T: Copy + Into<i128>>(name: &str, c: &SmallVec<[T; 2]>) -> Value {
        json!({"var": name, "items": c.iter().map(|x| n_json((*x).into())).collect::<Vec<_>>()})
    }
    match pv {
        PrimitiveValue::Empty => json!({"var": "Empty", "items": []}),
        PrimitiveValue::Str(s) => json!({"var": "Str", "items": [cps_json(s)]}),
        PrimitiveValue::Strs(c) => json!({"var": "Strs", "items": c.iter().map(|s| cps_json(s)).collect::<Vec<_>>()}),
        PrimitiveValue::U8(c) => ints("U8", c),
        PrimitiveValue::I16(c) => ints("I16", c),
        PrimitiveValue::U16(c) => ints("U16", c),
        PrimitiveValue::I32(c) => ints("I32", c),
        PrimitiveValue::U32(c) => ints("U32", c),
        PrimitiveValue::I64(c) => ints("I64", c),
        PrimitiveValue::U64(c) => ints("U64", c),
        PrimitiveValue::F32(c) => json!({"var": "F32", "items": c.iter().map(|x| tok_f32(*x)).collect::<Vec<_>>()}),
        PrimitiveValue::F64(c) => json!({"var": "F64", "items": c.iter().map(|x| tok_f64(*x)).collect::<Vec<_>>()}),
        PrimitiveValue::Tags(c) => json!({"var": "Tags", "items": c.iter().map(|t| t.1).collect::<Vec<_>>()}),
        PrimitiveValue::Date(c) => json!({"var": "Date", "items": c.iter().map(|d| *d.year() as i64 - 2000).collect::<Vec<_>>()}),
        PrimitiveValue::Time(c) => json!({"var": "Time", "items": c.iter().map(|t| *t.hour()).collect::<Vec<_>>()}),
        PrimitiveValue::DateTime(c) => json!({"var": "DateTime", "items": c.iter().map(|d| *d.date().year() as i64 - 2000).collect::<Vec<_>>()}),
    }
}

// ---- conversions through the three API levels -------------------------------------------------

type Elem = DataElement<EmptyObject, InMemFragment>;
type Val = DValue<EmptyObject, InMemFragment>;

trait AsI128 {
    fn as_i128(&self) -> i128;
}
macro_rules! as_i128 {
    ($($t:ty),*) => { $(impl AsI128 for $t { fn as_i128(&self) -> i128 { *self as i128 } })* };
}
as_i128!(u8, i8, u16, i16, u32, i32, u64, i64, usize, isize);

fn int_one<T: AsI128, E>(r: Result<T, E>) -> Value {
    match r {
        Ok(x) => json!({"ok": true, "n": n_json(x.as_i128())}),
        Err(_) => json!({"ok": false, "n": n_json(0)}),
    }
}
fn int_many<T: AsI128, E>(r: Result<Vec<T>, E>) -> Value {
    match r {
        Ok(xs) => json!({"ok": true, "ns": xs.iter().map(|x| n_json(x.as_i128())).collect::<Vec<_>>()}),
        Err(_) => json!({"ok": false, "ns": []}),
    }
}

fn conv_int(pv: &PrimitiveValue, t: &str, multi: bool, route: &str) -> Result<Value, String> {
    let pv = pv.clone();
    let (t, route) = (t.to_string(), route.to_string());
    catch(move || {
        let val: Val = Val::from(pv.clone());
        let elem: Elem = Elem::new(Tag(0x0028, 0x0010), VR::US, pv.clone());
        macro_rules! go {
            ($T:ty) => {
                match (route.as_str(), multi) {
                    ("prim", false) => int_one(pv.to_int::<$T>()),
                    ("prim", true) => int_many(pv.to_multi_int::<$T>()),
                    ("value", false) => int_one(val.to_int::<$T>()),
                    ("value", true) => int_many(val.to_multi_int::<$T>()),
                    (_, false) => int_one(elem.to_int::<$T>()),
                    (_, true) => int_many(elem.to_multi_int::<$T>()),
                }
            };
        }
        match t.as_str() {
            "u8" => go!(u8),
            "i8" => go!(i8),
            "u16" => go!(u16),
            "i16" => go!(i16),
            "u32" => go!(u32),
            "i32" => go!(i32),
            "u64" => go!(u64),
            "i64" => go!(i64),
            "usize" => go!(usize),
            "isize" => go!(isize),
            other => panic!("unknown target {other}"),
        }
    })
}

fn conv_float(pv: &PrimitiveValue, w: u64, multi: bool, route: &str) -> Result<Value, String> {
    let pv = pv.clone();
    let route = route.to_string();
    catch(move || {
        let val: Val = Val::from(pv.clone());
        let elem: Elem = Elem::new(Tag(0x0028, 0x0010), VR::US, pv.clone());
        let any = json!({"k": "any", "n": n_json(0), "b": ""});
        if w == 32 {
            if multi {
                let r = match route.as_str() {
                    "prim" => pv.to_multi_float32(),
                    "value" => val.to_multi_float32(),
                    _ => elem.to_multi_float32(),
                };
                match r {
                    Ok(xs) => json!({"ok": true, "fs": xs.iter().map(|x| tok_f32(*x)).collect::<Vec<_>>()}),
                    Err(_) => json!({"ok": false, "fs": []}),
                }
            } else {
                let r = match route.as_str() {
                    "prim" => pv.to_float32(),
                    "value" => val.to_float32(),
                    _ => elem.to_float32(),
                };
                match r {
                    Ok(x) => json!({"ok": true, "f": tok_f32(x)}),
                    Err(_) => json!({"ok": false, "f": any}),
                }
            }
        } else if multi {
            let r = match route.as_str() {
                "prim" => pv.to_multi_float64(),
                "value" => val.to_multi_float64(),
                _ => elem.to_multi_float64(),
            };
            match r {
                Ok(xs) => json!({"ok": true, "fs": xs.iter().map(|x| tok_f64(*x)).collect::<Vec<_>>()}),
                Err(_) => json!({"ok": false, "fs": []}),
            }
        } else {
            let r = match route.as_str() {
                "prim" => pv.to_float64(),
                "value" => val.to_float64(),
                _ => elem.to_float64(),
            };
            match r {
                Ok(x) => json!({"ok": true, "f": tok_f64(x)}),
                Err(_) => json!({"ok": false, "f": any}),
            }
        }
    })
}

fn float_res_match(exp: &Value, got: &Value, multi: bool) -> bool {
    if exp["ok"] != got["ok"] {
        return false;
    }
    if exp["ok"] == false {
        return true;
    }
    if multi {
        let (a, b) = (j_arr(&exp["fs"]), j_arr(&got["fs"]));
        a.len() == b.len() && a.iter().zip(b.iter()).all(|(x, y)| tok_match(x, y))
    } else {
        tok_match(&exp["f"], &got["f"])
    }
}
fn int_res_match(exp: &Value, got: &Value, multi: bool) -> bool {
    if exp["ok"] != got["ok"] {
        return false;
    }
    if exp["ok"] == false {
        return true;
    }
    if multi {
        exp["ns"] == got["ns"]
    } else {
        exp["n"] == got["n"]
    }
}

fn shape(v: &Value) -> String {
    let n = j_arr(&v["items"]).len();
    format!("{} {}", j_str(&v["var"]), match n {
        0 => "no items".to_string(),
        1 => "1 item".to_string(),
        k => format!("{k} items"),
    })
}

fn what(exp: &Value, got: &Value, multi: bool) -> &'static str {
    if exp["ok"] == true && got["ok"] == false {
        "error instead of the exact result"
    } else if exp["ok"] == false && got["ok"] == true {
        "a number where an error is required"
    } else if multi && exp.get("ns").or(exp.get("fs")).map(|a| j_arr(a).len()) != got.get("ns").or(got.get("fs")).map(|a| j_arr(a).len()) {
        "wrong number of results"
    } else {
        "a different number"
    }
}

// ---- extend / truncate --------------------------------------------------------------------------

fn apply_op(pv: &mut PrimitiveValue, op: &Value, via_value: bool) -> Result<bool, String> {
    let o = j_str(&op["o"]).to_string();
    let op = op.clone();
    let mut work = pv.clone();
    let r = catch(move || {
        let ok = match o.as_str() {
            "xstr" => work.extend_str(j_arr(&op["strs"]).iter().map(from_cps).collect::<Vec<String>>()).is_ok(),
            "xu16" => work.extend_u16(j_arr(&op["nums"]).iter().map(|x| n_from(x) as u16).collect::<Vec<_>>()).is_ok(),
            "xi16" => work.extend_i16(j_arr(&op["nums"]).iter().map(|x| n_from(x) as i16).collect::<Vec<_>>()).is_ok(),
            "xu32" => work.extend_u32(j_arr(&op["nums"]).iter().map(|x| n_from(x) as u32).collect::<Vec<_>>()).is_ok(),
            "xi32" => work.extend_i32(j_arr(&op["nums"]).iter().map(|x| n_from(x) as i32).collect::<Vec<_>>()).is_ok(),
            "xf32" => work.extend_f32(j_arr(&op["fls"]).iter().map(f32_from).collect::<Vec<_>>()).is_ok(),
            "xf64" => work.extend_f64(j_arr(&op["fls"]).iter().map(f64_from).collect::<Vec<_>>()).is_ok(),
            "trunc" => {
                let limit = j_usize(&op["limit"]);
                if via_value {
                    let mut v: Val = Val::from(work.clone());
                    v.truncate(limit);
                    work = v.into_primitive().expect("primitive stays primitive");
                } else {
                    work.truncate(limit);
                }
                true
            }
            other => panic!("unknown op {other}"),
        };
        (ok, work)
    });
    match r {
        Ok((ok, w)) => {
            *pv = w;
            Ok(ok)
        }
        Err(msg) => Err(msg),
    }
}

fn var_class(v: &str) -> &str {
    if v == "Str" || v == "Strs" {
        "text"
    } else {
        v
    }
}
/// model value (with wildcards) against the projected real value
fn same_value(m: &Value, got: &Value) -> bool {
    let mv = j_str(&m["var"]);
    if var_class(mv) != var_class(j_str(&got["var"])) {
        return false;
    }
    let (a, b) = (j_arr(&m["items"]), j_arr(&got["items"]));
    if a.len() != b.len() {
        return false;
    }
    a.iter().zip(b.iter()).all(|(x, y)| match var_class(mv) {
        "text" => x == &json!([-1]) || x == y,
        "F32" | "F64" => tok_match(x, y),
        "U8" | "I16" | "U16" | "I32" | "U32" | "I64" | "U64" => j_arr(&x["d"]).is_empty() || x == y,
        _ => x == y,
    })
}

fn op_name(op: &Value) -> String {
    match j_str(&op["o"]) {
        "xstr" => "extend_str".into(),
        "xu16" => "extend_u16".into(),
        "xi16" => "extend_i16".into(),
        "xu32" => "extend_u32".into(),
        "xi32" => "extend_i32".into(),
        "xf32" => "extend_f32".into(),
        "xf64" => "extend_f64".into(),
        _ => format!("truncate({})", if j_usize(&op["limit"]) == 0 { "0".to_string() } else { "k>0".to_string() }),
    }
}

// ---- replay ------------------------------------------------------------------------------------

fn replay(cases: &str) {
    let mut rep = Report::new();
    let mut nontrivial = 0usize;
    let mut steps_run = 0usize;
    let mut op_stats: std::collections::BTreeMap<String, u64> = Default::default();
    for case in read_ndjson(cases) {
        rep.cases += 1;
        match j_str(&case["kind"]) {
            "int" | "float" => {
                let is_int = case["kind"] == "int";
                let multi = case["multi"].as_bool().unwrap();
                let pv = build(&case["v"]);
                if !j_arr(&case["v"]["items"]).is_empty() {
                    nontrivial += 1;
                }
                let (name, target) = if is_int {
                    (if multi { "to_multi_int" } else { "to_int" }.to_string(), j_str(&case["T"]).to_string())
                } else {
                    let w = case["w"].as_u64().unwrap();
                    (format!("{}{}", if multi { "to_multi_float" } else { "to_float" }, w), format!("f{w}"))
                };
                for route in ["prim", "value", "element"] {
                    let got = if is_int { conv_int(&pv, &target, multi, route) } else { conv_float(&pv, case["w"].as_u64().unwrap(), multi, route) };
                    match got {
                        Err(msg) => rep.mismatch_fp(json!({"fp": format!("{name} panics ({} -> {target})", shape(&case["v"])), "route": route, "case": case, "panic": msg})),
                        Ok(got) => {
                            let ok = if is_int { int_res_match(&case["res"], &got, multi) } else { float_res_match(&case["res"], &got, multi) };
                            if !ok {
                                rep.mismatch_fp(json!({"fp": format!("{name} yields {} ({} -> {target})", what(&case["res"], &got, multi), shape(&case["v"])),
                                    "route": route, "case": case, "got": got}));
                            }
                        }
                    }
                }
            }
            "hist" => {
                nontrivial += 1;
                for via_value in [false, true] {
                    let mut pv = build(&case["init"]);
                    for (i, st) in j_arr(&case["steps"]).iter().enumerate() {
                        steps_run += 1;
                        let before = project(&pv);
                        let name = op_name(&st["op"]);
                        *op_stats.entry(format!("{} {}", j_str(&st["op"]["o"]), if st["ok"] == true { "ok" } else { "refused" })).or_insert(0) += 1;
                        match apply_op(&mut pv, &st["op"], via_value) {
                            Err(msg) => {
                                rep.mismatch_fp(json!({"fp": format!("{name} panics on a {} value", j_str(&before["var"])), "case": case, "step": i, "panic": msg}));
                                break;
                            }
                            Ok(ok) => {
                                let got = project(&pv);
                                if ok != st["ok"].as_bool().unwrap() {
                                    rep.mismatch_fp(json!({"fp": format!("{name} on a {} value: {}", j_str(&before["var"]), if ok { "accepted but documented to refuse" } else { "refused but documented to work" }),
                                        "case": case, "step": i, "got": got}));
                                    break;
                                }
                                if !same_value(&st["after"], &got) {
                                    rep.mismatch_fp(json!({"fp": format!("{name} on a {} value leaves different items", j_str(&before["var"])),
                                        "case": case, "step": i, "before": before, "got": got}));
                                    break;
                                }
                                // observations tied to the items: multiplicity() and the list conversion
                                if pv.multiplicity() as u64 != st["mult"].as_u64().unwrap() {
                                    rep.mismatch_fp(json!({"fp": format!("multiplicity() after {name} on a {} value is not the number of items", j_str(&before["var"])),
                                        "case": case, "step": i, "got": pv.multiplicity()}));
                                    break;
                                }
                                if st["convj"] == true {
                                    match conv_int(&pv, "i64", true, "prim") {
                                        Ok(c) if int_res_match(&st["conv"], &c, true) => {}
                                        other => {
                                            rep.mismatch_fp(json!({"fp": format!("to_multi_int after {name} on a {} value differs from the list model", j_str(&before["var"])),
                                                "case": case, "step": i, "got": format!("{:?}", other)}));
                                            break;
                                        }
                                    }
                                }
                            }
                        }
                    }
                }
            }
            k => panic!("unknown case kind {k}"),
        }
    }
    rep.extra.insert("nontrivial".into(), Value::from(nontrivial as u64));
    rep.extra.insert("steps_run".into(), Value::from(steps_run as u64));
    rep.extra.insert("op_stats".into(), json!(op_stats));
    rep.print();
}

// ---- record ------------------------------------------------------------------------------------

const INT_VARS: [&str; 7] = ["U8", "I16", "U16", "I32", "U32", "I64", "U64"];
const TARGETS: [&str; 10] = ["u8", "i8", "u16", "i16", "u32", "i32", "u64", "i64", "usize", "isize"];

fn range_of(t: &str) -> (i128, i128) {
    match t {
        "u8" | "U8" => (0, u8::MAX as i128),
        "i8" => (i8::MIN as i128, i8::MAX as i128),
        "u16" | "U16" => (0, u16::MAX as i128),
        "i16" | "I16" => (i16::MIN as i128, i16::MAX as i128),
        "u32" | "U32" => (0, u32::MAX as i128),
        "i32" | "I32" => (i32::MIN as i128, i32::MAX as i128),
        "u64" | "U64" | "usize" => (0, u64::MAX as i128),
        _ => (i64::MIN as i128, i64::MAX as i128),
    }
}

/// a number of the given type: uniform bits, or near a boundary of some integer type
fn rand_in(rng: &mut Rng, t: &str) -> i128 {
    let (lo, hi) = range_of(t);
    let x = match rng.below(4) {
        0 => {
            let (a, b) = range_of(*rng.pick(&TARGETS));
            let base = if rng.coin() { a } else { b };
            base + rng.range(-2, 2) as i128
        }
        1 => rng.range(-300, 300) as i128,
        _ => {
            let span = (hi - lo + 1) as u128;
            let r = ((rng.next_u64() as u128) << 64 | rng.next_u64() as u128) % span;
            lo + r as i128
        }
    };
    x.clamp(lo, hi)
}

fn rand_numeric_text(rng: &mut Rng) -> String {
    let t = *rng.pick(&TARGETS);
    let (lo, hi) = range_of(t);
    let x = match rng.below(3) {
        0 => (if rng.coin() { lo } else { hi }) + rng.range(-2, 2) as i128,
        1 => rng.range(-1000, 1000) as i128,
        _ => rand_in(rng, "i64"),
    };
    let mut s = String::new();
    for _ in 0..rng.below(3) {
        s.push(' ');
    }
    let body = x.unsigned_abs().to_string();
    if x < 0 {
        s.push('-');
    } else if rng.below(4) == 0 {
        s.push('+');
    }
    for _ in 0..(if rng.below(4) == 0 { rng.below(3) } else { 0 }) {
        s.push('0');
    }
    s.push_str(&body);
    for _ in 0..rng.below(3) {
        s.push(if rng.coin() { ' ' } else { '\0' });
    }
    s
}
fn rand_text(rng: &mut Rng) -> String {
    match rng.below(8) {
        0 => rng.pick(&["", " ", "abc", "1 2", "1.0", "+", "-", "0x10", "1e3", "--1", "1,5", "12a", "\u{661}", "\u{ff11}", "1-"]).to_string(),
        1 => rng.pick(&["1.5", "-6.75 ", " 3.0e2", "2E-3", "+0.125"]).to_string(),
        _ => rand_numeric_text(rng),
    }
}
fn rand_f32(rng: &mut Rng) -> f32 {
    match rng.below(4) {
        0 => rng.range(-100000, 100000) as f32,
        1 if rng.coin() => *rng.pick(&[0.1f32, 0.3, 16.16, 1.0e10, -2.5, 1.5]),
        1 => *rng.pick(&[0.0f32, -0.0, 1.5, f32::NAN, f32::INFINITY, f32::NEG_INFINITY, f32::MAX, f32::MIN_POSITIVE, 16777216.0, 16777218.0]),
        _ => f32::from_bits(rng.next_u64() as u32),
    }
}
fn rand_f64(rng: &mut Rng) -> f64 {
    match rng.below(4) {
        0 => rng.range(-100000, 100000) as f64,
        1 if rng.coin() => *rng.pick(&[0.1f64, 0.3, 16.16, 1e21, 1e-7, -2.5, 1.5]),
        1 => *rng.pick(&[0.0f64, -0.0, 1.5, f64::NAN, f64::INFINITY, f64::MAX, 9007199254740992.0, 9007199254740994.0, 1e300, -2.5e-300]),
        _ => f64::from_bits(rng.next_u64()),
    }
}

fn rand_value(rng: &mut Rng, max_items: u64) -> Value {
    let n = match rng.below(5) {
        0 => 0,
        1 => 1,
        _ => rng.below(max_items + 1),
    } as usize;
    match rng.below(14) {
        0 => json!({"var": "Empty", "items": []}),
        1 => json!({"var": "Str", "items": [cps_json(&rand_text(rng))]}),
        2 | 3 => json!({"var": "Strs", "items": (0..n).map(|_| cps_json(&rand_text(rng))).collect::<Vec<_>>()}),
        4..=10 => {
            let var = *rng.pick(&INT_VARS);
            json!({"var": var, "items": (0..n).map(|_| n_json(rand_in(rng, var))).collect::<Vec<_>>()})
        }
        11 => json!({"var": "F32", "items": (0..n).map(|_| tok_f32(rand_f32(rng))).collect::<Vec<_>>()}),
        12 => json!({"var": "F64", "items": (0..n).map(|_| tok_f64(rand_f64(rng))).collect::<Vec<_>>()}),
        _ => {
            let var = *rng.pick(&["Tags", "Date", "Time", "DateTime"]);
            json!({"var": var, "items": (1..=n.min(9)).collect::<Vec<_>>()})
        }
    }
}

fn rand_op(rng: &mut Rng) -> Value {
    let k = rng.below(4) as usize;
    let mut op = json!({"o": "trunc", "strs": [], "nums": [], "fls": [], "limit": 0});
    match rng.below(9) {
        0 => {
            op["o"] = "xstr".into();
            op["strs"] = Value::Array((0..k).map(|_| cps_json(&rand_text(rng))).collect());
        }
        1 => {
            op["o"] = "xu16".into();
            op["nums"] = Value::Array((0..k).map(|_| n_json(rand_in(rng, "u16"))).collect());
        }
        2 => {
            op["o"] = "xi16".into();
            op["nums"] = Value::Array((0..k).map(|_| n_json(rand_in(rng, "i16"))).collect());
        }
        3 => {
            op["o"] = "xu32".into();
            op["nums"] = Value::Array((0..k).map(|_| n_json(rand_in(rng, "u32"))).collect());
        }
        4 => {
            op["o"] = "xi32".into();
            op["nums"] = Value::Array((0..k).map(|_| n_json(rand_in(rng, "i32"))).collect());
        }
        5 => {
            op["o"] = "xf32".into();
            op["fls"] = Value::Array((0..k).map(|_| tok_f32(rand_f32(rng))).collect());
        }
        6 => {
            op["o"] = "xf64".into();
            op["fls"] = Value::Array((0..k).map(|_| tok_f64(rand_f64(rng))).collect());
        }
        _ => {
            op["limit"] = Value::from(if rng.below(3) == 0 { 0 } else { rng.below(7) });
        }
    }
    op
}

fn record(n: usize, out: &str) {
    std::fs::create_dir_all(out).expect("mkdir");
    let path = format!("{out}/trace.ndjson");
    let mut w = NdjsonWriter::create(&path);
    let mut rng = Rng::new(seed_from_env() ^ 0xC11);
    let mut panics = 0usize;
    let mut conv_events = 0usize;
    // 1. conversions of random values
    for _ in 0..n {
        let v = rand_value(&mut rng, 4);
        let pv = build(&v);
        let multi = rng.coin();
        let route = *rng.pick(&["prim", "value", "element"]);
        if rng.below(3) < 2 {
            let t = *rng.pick(&TARGETS);
            let res = conv_int(&pv, t, multi, route);
            if res.is_err() {
                panics += 1;
            }
            w.emit(&json!({"ev": "conv", "op": "int", "shape": shape(&v), "v": v, "T": t, "w": 0, "multi": multi, "route": route,
                "panic": res.is_err(), "res": res.unwrap_or_else(|_| if multi { json!({"ok": false, "ns": []}) } else { json!({"ok": false, "n": n_json(0)}) })}));
        } else {
            let wd = if rng.coin() { 32 } else { 64 };
            let res = conv_float(&pv, wd, multi, route);
            if res.is_err() {
                panics += 1;
            }
            let any = json!({"k": "any", "n": n_json(0), "b": ""});
            w.emit(&json!({"ev": "conv", "op": "float", "shape": shape(&v), "v": v, "T": "", "w": wd, "multi": multi, "route": route,
                "panic": res.is_err(), "res": res.unwrap_or_else(|_| if multi { json!({"ok": false, "fs": []}) } else { json!({"ok": false, "f": any}) })}));
        }
        conv_events += 1;
    }
    // 2. extend / truncate sequences
    let seqs = n / 20 + 1;
    let mut ops = 0usize;
    for _ in 0..seqs {
        let v = if rng.below(4) == 0 { json!({"var": "Str", "items": [cps_json(&rand_text(&mut rng))]}) } else { rand_value(&mut rng, 3) };
        let mut pv = build(&v);
        w.emit(&json!({"ev": "vinit", "v": project(&pv)}));
        let len = 1 + rng.below(30);
        for _ in 0..len {
            let op = rand_op(&mut rng);
            let before = project(&pv);
            let via_value = rng.coin();
            match apply_op(&mut pv, &op, via_value) {
                Ok(ok) => {
                    let conv = conv_int(&pv, "i64", true, "prim").unwrap_or_else(|_| json!({"ok": false, "ns": [], "panic": true}));
                    w.emit(&json!({"ev": "vop", "name": op_name(&op), "on": before["var"], "op": op, "res": "done", "ok": ok, "after": project(&pv),
                        "mult": pv.multiplicity(), "conv": conv}))
                }
                Err(msg) => {
                    panics += 1;
                    w.emit(&json!({"ev": "vop", "name": op_name(&op), "on": before["var"], "op": op, "res": "panic", "ok": false, "after": before,
                        "mult": 0, "conv": {"ok": false, "ns": []}, "msg": msg}));
                }
            }
            ops += 1;
        }
    }
    let lines = w.finish();
    let mut rep = Report::new();
    rep.cases = lines;
    rep.extra.insert("trace".into(), Value::from(path));
    rep.extra.insert("events".into(), Value::from(lines as u64));
    rep.extra.insert("conv_events".into(), Value::from(conv_events as u64));
    rep.extra.insert("sequences".into(), Value::from(seqs as u64));
    rep.extra.insert("sequence_ops".into(), Value::from(ops as u64));
    rep.extra.insert("panics".into(), Value::from(panics as u64));
    rep.print();
}


// ---- growth families (thorough tier, observation only) ------------------------------------------
// Events for Trace_Grow.tla: text conversions, tag conversions, floats from text, equality and
// encoded length.  Values may also be of the variants Tags (items [g,e]) and Date/Time/DateTime
// (items are DateTime!V records).

fn v_rec(kind: &str, dprec: &str, y: u32, m: u32, d: u32, tprec: &str, h: u32, mi: u32, s: u32, tz: bool, off: i32) -> Value {
    json!({"kind": kind, "dprec": dprec, "y": y, "m": m, "d": d, "tprec": tprec, "h": h, "mi": mi, "s": s, "f": 0, "fp": 0, "tz": tz, "off": off})
}
fn g_date(j: &Value) -> DicomDate {
    let (y, m, d) = (j_usize(&j["y"]) as u16, j_usize(&j["m"]) as u8, j_usize(&j["d"]) as u8);
    match j_str(&j["dprec"]) {
        "Y" => DicomDate::from_y(y),
        "M" => DicomDate::from_ym(y, m),
        _ => DicomDate::from_ymd(y, m, d),
    }
    .expect("valid date")
}
fn g_time(j: &Value) -> DicomTime {
    let (h, mi, s) = (j_usize(&j["h"]) as u8, j_usize(&j["mi"]) as u8, j_usize(&j["s"]) as u8);
    match j_str(&j["tprec"]) {
        "h" => DicomTime::from_h(h),
        "m" => DicomTime::from_hm(h, mi),
        _ => DicomTime::from_hms(h, mi, s),
    }
    .expect("valid time")
}
fn g_datetime(j: &Value) -> DicomDateTime {
    use dicom_core::chrono::FixedOffset;
    let date = g_date(j);
    let tz = if j["tz"] == true { Some(FixedOffset::east_opt(j_i64(&j["off"]) as i32).unwrap()) } else { None };
    if j["tprec"] == "none" {
        match tz {
            Some(o) => DicomDateTime::from_date_with_time_zone(date, o),
            None => DicomDateTime::from_date(date),
        }
    } else {
        match tz {
            Some(o) => DicomDateTime::from_date_and_time_with_time_zone(date, g_time(j), o).unwrap(),
            None => DicomDateTime::from_date_and_time(date, g_time(j)).unwrap(),
        }
    }
}
/// like `build`, with structured Tags / Date / Time / DateTime items
fn g_build(v: &Value) -> PrimitiveValue {
    let items = j_arr(&v["items"]);
    match j_str(&v["var"]) {
        "Tags" => PrimitiveValue::Tags(items.iter().map(|t| Tag(j_usize(&t[0]) as u16, j_usize(&t[1]) as u16)).collect()),
        "Date" => PrimitiveValue::Date(items.iter().map(g_date).collect()),
        "Time" => PrimitiveValue::Time(items.iter().map(g_time).collect()),
        "DateTime" => PrimitiveValue::DateTime(items.iter().map(g_datetime).collect()),
        _ => build(v),
    }
}

fn g_rand_text(rng: &mut Rng) -> String {
    let n = rng.below(7) as usize;
    let mut s: String = (0..n)
        .map(|_| match rng.below(12) {
            0 => ' ',
            1 => '\\',
            2 => '^',
            3 => *rng.pick(&['\u{e9}', '\u{4e2d}', '\u{1f600}']),
            4 => *rng.pick(&['\t', '\n', '=']),
            _ => char::from(rng.range(0x30, 0x7a) as u8),
        })
        .collect();
    for _ in 0..rng.below(3) {
        s.push(if rng.below(3) == 0 { '\0' } else { ' ' });
    }
    s
}
fn g_rand_date(rng: &mut Rng) -> Value {
    let y = rng.below(10000) as u32;
    let m = 1 + rng.below(12) as u32;
    let d = 1 + rng.below(28) as u32;
    match rng.below(3) {
        0 => v_rec("DA", "Y", y, 0, 0, "none", 0, 0, 0, false, 0),
        1 => v_rec("DA", "M", y, m, 0, "none", 0, 0, 0, false, 0),
        _ => v_rec("DA", "D", y, m, d, "none", 0, 0, 0, false, 0),
    }
}
fn g_rand_time(rng: &mut Rng) -> Value {
    let (h, mi, s) = (rng.below(24) as u32, rng.below(60) as u32, rng.below(60) as u32);
    match rng.below(3) {
        0 => v_rec("TM", "none", 0, 0, 0, "h", h, 0, 0, false, 0),
        1 => v_rec("TM", "none", 0, 0, 0, "m", h, mi, 0, false, 0),
        _ => v_rec("TM", "none", 0, 0, 0, "s", h, mi, s, false, 0),
    }
}
fn g_rand_datetime(rng: &mut Rng) -> Value {
    let mut v = v_rec("DT", "D", rng.below(10000) as u32, 1 + rng.below(12) as u32, 1 + rng.below(28) as u32, "none", 0, 0, 0, false, 0);
    if rng.coin() {
        v["tprec"] = "s".into();
        v["h"] = Value::from(rng.below(24));
        v["mi"] = Value::from(rng.below(60));
        v["s"] = Value::from(rng.below(60));
    }
    if rng.coin() {
        v["tz"] = Value::from(true);
        v["off"] = Value::from(900 * rng.range(-48, 56));
    }
    v
}
fn g_rand_value(rng: &mut Rng) -> Value {
    let n = match rng.below(4) {
        0 => 0,
        1 => 1,
        _ => 1 + rng.below(3),
    } as usize;
    match rng.below(12) {
        0 => json!({"var": "Empty", "items": []}),
        1 | 2 => json!({"var": "Str", "items": [cps_json(&g_rand_text(rng))]}),
        3 | 4 | 5 => json!({"var": "Strs", "items": (0..n).map(|_| cps_json(&g_rand_text(rng))).collect::<Vec<_>>()}),
        6 => json!({"var": "Tags", "items": (0..n).map(|_| json!([rng.below(65536), rng.below(65536)])).collect::<Vec<_>>()}),
        7 => json!({"var": "Date", "items": (0..n).map(|_| g_rand_date(rng)).collect::<Vec<_>>()}),
        8 => json!({"var": "Time", "items": (0..n).map(|_| g_rand_time(rng)).collect::<Vec<_>>()}),
        9 => json!({"var": "DateTime", "items": (0..n).map(|_| g_rand_datetime(rng)).collect::<Vec<_>>()}),
        _ => {
            let mut v = rand_value(rng, 3);
            while ["Tags", "Date", "Time", "DateTime"].contains(&j_str(&v["var"])) {
                v = rand_value(rng, 3);
            }
            v
        }
    }
}

fn g_str_event(v: &Value) -> Value {
    let pv = g_build(v);
    let shape = shape(v);
    let v2 = v.clone();
    match catch(move || {
        let val: Val = Val::from(pv.clone());
        let elem: Elem = Elem::new(Tag(0x0008, 0x0008), VR::CS, pv.clone());
        let to_str = pv.to_str().to_string();
        let raw = pv.to_raw_str().to_string();
        let multi: Vec<String> = pv.to_multi_str().to_vec();
        let bytes: Vec<u8> = pv.to_bytes().to_vec();
        let routediff = val.to_str().map(|x| x.to_string()).ok() != Some(to_str.clone())
            || elem.to_str().map(|x| x.to_string()).ok() != Some(to_str.clone())
            || val.to_multi_str().map(|x| x.to_vec()).ok() != Some(multi.clone())
            || elem.to_bytes().map(|x| x.to_vec()).ok() != Some(bytes.clone())
            || val.to_raw_str().map(|x| x.to_string()).ok() != Some(raw.clone());
        json!({"ev": "str", "shape": shape, "v": v2, "panic": false, "to_str": cps_json(&to_str), "raw": cps_json(&raw),
               "multi": multi.iter().map(|s| cps_json(s)).collect::<Vec<_>>(), "bytes": bytes_json(&bytes),
               "display": cps_json(&format!("{}", pv)), "mult": pv.multiplicity(), "routediff": routediff})
    }) {
        Ok(e) => e,
        Err(msg) => json!({"ev": "str", "shape": shape_of(v), "v": v, "panic": true, "msg": msg, "to_str": [], "raw": [], "multi": [], "bytes": [],
                           "display": [], "mult": 0, "routediff": false}),
    }
}
fn shape_of(v: &Value) -> String {
    shape(v)
}

fn g_tag_event(v: &Value) -> Value {
    let pv = g_build(v);
    let pv2 = pv.clone();
    let (vt, vtag) = match catch(move || Val::from(pv2).to_tag()) {
        Ok(Ok(t)) => ("ok", json!([t.0, t.1])),
        Ok(Err(_)) => ("err", json!([0, 0])),
        Err(_) => ("panic", json!([0, 0])),
    };
    let (pt, ptag) = match catch(move || pv.tag()) {
        Ok(Ok(t)) => ("ok", json!([t.0, t.1])),
        Ok(Err(_)) => ("err", json!([0, 0])),
        Err(_) => ("panic", json!([0, 0])),
    };
    json!({"ev": "tagconv", "shape": shape(v), "v": v, "vt": vt, "vtag": vtag, "pt": pt, "ptag": ptag})
}

fn g_ftext_event(text: &str, w: u64) -> Value {
    let pv = PrimitiveValue::from(text);
    let any = json!({"k": "any", "n": n_json(0), "b": ""});
    match conv_float(&pv, w, false, "prim") {
        Ok(res) => json!({"ev": "ftext", "text": cps_json(text), "shown": text, "w": w, "panic": false, "res": res}),
        Err(_) => json!({"ev": "ftext", "text": cps_json(text), "shown": text, "w": w, "panic": true, "res": {"ok": false, "f": any}}),
    }
}

fn g_has_nan(pv: &PrimitiveValue) -> bool {
    match pv {
        PrimitiveValue::F32(c) => c.iter().any(|x| x.is_nan()),
        PrimitiveValue::F64(c) => c.iter().any(|x| x.is_nan()),
        _ => false,
    }
}
fn g_eq_event(a: &Value, b: &Value, pair: &str) -> Value {
    let (pa, pb) = (g_build(a), g_build(b));
    let ms = |p: &PrimitiveValue| Value::Array(p.to_multi_str().iter().map(|s| cps_json(s)).collect());
    json!({"ev": "eq", "pair": pair, "a": a, "b": b, "ab": pa == pb, "ba": pb == pa, "aa": pa == pa.clone(), "bb": pb == pb.clone(),
           "nan": g_has_nan(&pa) || g_has_nan(&pb), "la": pa.calculate_byte_len(), "lb": pb.calculate_byte_len(),
           "ma": pa.multiplicity(), "mb": pb.multiplicity(), "sa": ms(&pa), "sb": ms(&pb)})
}

fn grow(n: usize, out: &str) {
    std::fs::create_dir_all(out).expect("mkdir");
    let path = format!("{out}/grow.ndjson");
    let mut w = NdjsonWriter::create(&path);
    let mut rng = Rng::new(seed_from_env() ^ 0x6011);
    // text families
    let fixed = [
        json!({"var": "Strs", "items": []}),
        json!({"var": "Strs", "items": [cps_json("")]}),
        json!({"var": "Strs", "items": [cps_json("A\\B")]}),
        json!({"var": "Strs", "items": [cps_json("A "), cps_json(" B\0")]}),
        json!({"var": "Str", "items": [cps_json("Smith^John\0")]}),
        json!({"var": "Str", "items": [cps_json("A\\B ")]}),
        json!({"var": "Str", "items": [cps_json("tab\t")]}),
        json!({"var": "Date", "items": [v_rec("DA", "D", 2014, 10, 12, "none", 0, 0, 0, false, 0)]}),
        json!({"var": "Date", "items": [v_rec("DA", "M", 2014, 10, 0, "none", 0, 0, 0, false, 0)]}),
        json!({"var": "U8", "items": [n_json(1), n_json(2), n_json(5)]}),
        json!({"var": "Tags", "items": []}),
    ];
    for v in fixed.iter() {
        w.emit(&g_str_event(v));
        w.emit(&g_tag_event(v));
    }
    for _ in 0..n {
        let v = g_rand_value(&mut rng);
        w.emit(&g_str_event(&v));
        if rng.below(4) == 0 || v["var"] == "Tags" {
            w.emit(&g_tag_event(&v));
        }
    }
    // floats from text
    let ftexts = ["1e3", " +1.50 ", "NaN", "nan", "inf", "-inf", "infinity", "+Infinity", ".5", "5.", "1e", "1e+", "0x1p3", "1_000", "\u{661}",
                  "1E2", "12.50e1", "-0.0", "1.0E+0", " 7", "7\0", "1e-2", "100e-2", "1.5e1", "25e-1", "", " ", "e5", "1 e5", "1e5 ", "--1", "+-1",
                  "16777216", "16777217", "1e38", "1e39", "1e400", "123456789", "0.000", "00012", "1,5", "1.2.3", "1d3", "1f", "+.5e1"];
    for t in ftexts.iter() {
        for wd in [32u64, 64] {
            w.emit(&g_ftext_event(t, wd));
        }
    }
    for _ in 0..n / 4 {
        let mant = rng.below(100000);
        let t = match rng.below(5) {
            0 => format!("{}e{}", mant, rng.below(4)),
            1 => format!("{}.{}", mant, rng.below(1000)),
            2 => format!("{}{}E-{}", mant, "0".repeat(rng.below(4) as usize), rng.below(4)),
            3 => format!(" -{}.{}e+{} ", mant, rng.below(100), rng.below(3)),
            _ => rand_text(&mut rng),
        };
        w.emit(&g_ftext_event(&t, if rng.coin() { 32 } else { 64 }));
    }
    // equality and encoded length: twins of one value, and random pairs
    let s = |t: &str| cps_json(t);
    let twins = [
        (json!({"var": "Str", "items": [s("A")]}), json!({"var": "Strs", "items": [s("A")]}), "Str vs one-item Strs"),
        (json!({"var": "Str", "items": [s("A ")]}), json!({"var": "Str", "items": [s("A")]}), "padded vs unpadded"),
        (json!({"var": "Strs", "items": [s("A"), s("B")]}), json!({"var": "Strs", "items": [s("A\\B")]}), "two items vs one item with a backslash"),
        (json!({"var": "Strs", "items": [s("A"), s("B")]}), json!({"var": "Str", "items": [s("A\\B")]}), "two items vs Str with a backslash"),
        (json!({"var": "Strs", "items": []}), json!({"var": "Strs", "items": [s("")]}), "no items vs one empty string"),
        (json!({"var": "Strs", "items": []}), json!({"var": "Empty", "items": []}), "empty Strs vs Empty"),
        (json!({"var": "Str", "items": [s("")]}), json!({"var": "Empty", "items": []}), "empty Str vs Empty"),
        (json!({"var": "U16", "items": [n_json(5)]}), json!({"var": "I32", "items": [n_json(5)]}), "same number, different binary variant"),
        (json!({"var": "U16", "items": [n_json(5)]}), json!({"var": "Str", "items": [s("5")]}), "number vs its text"),
        (json!({"var": "U16", "items": []}), json!({"var": "Empty", "items": []}), "empty U16 vs Empty"),
        (json!({"var": "F32", "items": [tok_f32(f32::NAN)]}), json!({"var": "F32", "items": [tok_f32(f32::NAN)]}), "NaN"),
        (json!({"var": "F64", "items": [tok_f64(0.0)]}), json!({"var": "F64", "items": [tok_f64(-0.0)]}), "0.0 vs -0.0"),
        (json!({"var": "Str", "items": [s("ABC")]}), json!({"var": "Str", "items": [s("ABC")]}), "odd-length Str"),
        (json!({"var": "U8", "items": [n_json(1), n_json(2), n_json(3)]}), json!({"var": "U8", "items": [n_json(1), n_json(2), n_json(3)]}), "odd number of bytes"),
        (json!({"var": "Str", "items": [s("\u{e9}")]}), json!({"var": "Strs", "items": [s("\u{e9}")]}), "non-ASCII text"),
    ];
    for (a, b, what) in twins.iter() {
        w.emit(&g_eq_event(a, b, what));
    }
    for _ in 0..n / 2 {
        let a = g_rand_value(&mut rng);
        let b = match rng.below(4) {
            0 => a.clone(),
            1 if a["var"] == "Str" => json!({"var": "Strs", "items": a["items"]}),
            1 if a["var"] == "Strs" && j_arr(&a["items"]).len() == 1 => json!({"var": "Str", "items": a["items"]}),
            _ => g_rand_value(&mut rng),
        };
        w.emit(&g_eq_event(&a, &b, "random pair"));
    }
    let lines = w.finish();
    let mut rep = Report::new();
    rep.cases = lines;
    rep.extra.insert("trace".into(), Value::from(path));
    rep.extra.insert("events".into(), Value::from(lines as u64));
    rep.print();
}

fn main() {
    quiet_panics();
    let a = args_map();
    let mode = a.get("_0").map(String::as_str).unwrap_or("");
    match mode {
        "replay" => replay(a.get("cases").expect("--cases")),
        "record" => record(
            a.get("n").and_then(|s| s.parse().ok()).unwrap_or(4000),
            &a.get("out").cloned().unwrap_or_else(|| "work/C11/rec".into()),
        ),
        "grow" => grow(
            a.get("n").and_then(|s| s.parse().ok()).unwrap_or(3000),
            &a.get("out").cloned().unwrap_or_else(|| "work/C11/grow".into()),
        ),
        _ => {
            eprintln!("usage: drv_conv replay --cases F | record --n N --out D");
            std::process::exit(2);
        }
    }
}
