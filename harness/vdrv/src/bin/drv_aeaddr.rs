//! C36 conformance driver: Display / FromStr of dicom_ul::{AeAddr, FullAeAddr}.
//!
//!   drv_aeaddr replay --cases <ndjson> --out <dir>   TLC cases (Gen_AeAddr) -> real code -> trace
//!   drv_aeaddr random --n <N> --out <dir>            seeded random titles / addresses -> trace
//!
//! One event per address: the text printed, the result of parsing it back (title,
//! Display of the address, equality with the original by the type's Eq).  The trace is
//! judged by specs/ps38pdu/Trace_AeAddr.tla; "mismatches" are differences to the text /
//! parse result TLC expected (drift candidates).
//!
//! Address types: "sa" SocketAddr, "v4" SocketAddrV4, "v6" SocketAddrV6, "str" String.
//! The address value is built by parsing the canonical text given in the case
//! (flowinfo of IPv6 socket addresses is 0: it has no text form).

use dicom_ul::{AeAddr, FullAeAddr};
use serde_json::{json, Value};
use std::net::{Ipv4Addr, Ipv6Addr, SocketAddr, SocketAddrV4, SocketAddrV6};
use vcommon::*;

fn jtitle(t: Option<&str>) -> Value {
    match t {
        Some(s) => json!({"some": true, "v": s}),
        None => json!({"some": false, "v": ""}),
    }
}

macro_rules! run_ty {
    ($T:ty, $full:expr, $title:expr, $addr:expr) => {{
        let title: Option<&str> = $title;
        let addr_text: &str = $addr;
        match addr_text.parse::<$T>() {
            Err(e) => Err(format!("harness: address text {addr_text:?} does not parse as {}: {e:?}", stringify!($T))),
            Ok(a) => {
                if a.to_string() != addr_text {
                    Err(format!("harness: address text {addr_text:?} is not canonical for {} (prints as {})", stringify!($T), a))
                } else if $full {
                    let x = FullAeAddr::<$T>::new(title.expect("full needs a title"), a.clone());
                    let printed = x.to_string();
                    Ok(match catch(|| printed.parse::<FullAeAddr<$T>>()) {
                        Ok(Ok(y)) => json!({"printed": printed, "pres": "ok", "ptitle": jtitle(Some(y.ae_title())),
                                            "paddr": y.socket_addr().to_string(), "same": y == x}),
                        Ok(Err(e)) => json!({"printed": printed, "pres": "err", "msg": format!("{e:?}"), "ptitle": jtitle(None),
                                             "paddr": "", "same": false}),
                        Err(p) => json!({"printed": printed, "pres": "panic", "msg": p, "ptitle": jtitle(None), "paddr": "", "same": false}),
                    })
                } else {
                    let x = match title {
                        Some(t) => AeAddr::<$T>::new(t, a.clone()),
                        None => AeAddr::<$T>::new_socket_addr(a.clone()),
                    };
                    let printed = x.to_string();
                    Ok(match catch(|| printed.parse::<AeAddr<$T>>()) {
                        Ok(Ok(y)) => json!({"printed": printed, "pres": "ok", "ptitle": jtitle(y.ae_title()),
                                            "paddr": y.socket_addr().to_string(), "same": y == x}),
                        Ok(Err(e)) => json!({"printed": printed, "pres": "err", "msg": format!("{e:?}"), "ptitle": jtitle(None),
                                             "paddr": "", "same": false}),
                        Err(p) => json!({"printed": printed, "pres": "panic", "msg": p, "ptitle": jtitle(None), "paddr": "", "same": false}),
                    })
                }
            }
        }
    }};
}

fn run_case(full: bool, ty: &str, title: Option<&str>, addr: &str) -> Result<Value, String> {
    let mut ev = match ty {
        "sa" => run_ty!(SocketAddr, full, title, addr),
        "v4" => run_ty!(SocketAddrV4, full, title, addr),
        "v6" => run_ty!(SocketAddrV6, full, title, addr),
        "str" => run_ty!(String, full, title, addr),
        _ => Err(format!("harness: unknown address type {ty}")),
    }?;
    ev["ev"] = json!("ae");
    ev["full"] = json!(full);
    ev["ty"] = json!(ty);
    ev["title"] = jtitle(title);
    ev["addr"] = json!(addr);
    Ok(ev)
}

/// AE title: 1..=16 printable ASCII characters (any, incl. spaces at the edges, quotes,
/// backslash, the separators of the address syntax) except '@' (premise of C36)
fn r_title(rng: &mut Rng) -> String {
    let n = if rng.below(8) == 0 { 17 + rng.below(24) as usize } else { 1 + rng.below(16) as usize };
    (0..n)
        .map(|_| loop {
            let c = (0x20 + rng.below(0x5f) as u8) as char;
            if c != '@' {
                break c;
            }
        })
        .collect()
}
fn r_port(rng: &mut Rng) -> u16 {
    match rng.below(6) {
        0 => 0,
        1 => 104,
        2 => 11112,
        3 => 65535,
        _ => rng.below(65536) as u16,
    }
}
fn r_v4(rng: &mut Rng) -> Ipv4Addr {
    match rng.below(5) {
        0 => Ipv4Addr::new(127, 0, 0, 1),
        1 => Ipv4Addr::new(0, 0, 0, 0),
        2 => Ipv4Addr::new(255, 255, 255, 255),
        _ => Ipv4Addr::from(rng.next_u64() as u32),
    }
}
fn r_v6(rng: &mut Rng) -> Ipv6Addr {
    let mut g = [0u16; 8];
    for x in g.iter_mut() {
        *x = match rng.below(4) {
            0 => 0,
            1 => rng.below(16) as u16,
            _ => rng.below(65536) as u16,
        };
    }
    match rng.below(8) {
        0 => Ipv6Addr::LOCALHOST,
        1 => Ipv6Addr::UNSPECIFIED,
        2 => r_v4(rng).to_ipv6_mapped(),
        3 => {
            // a run of zero groups somewhere
            let a = rng.below(8) as usize;
            let b = a + rng.below((8 - a) as u64 + 1) as usize;
            for x in g[a..b].iter_mut() {
                *x = 0;
            }
            Ipv6Addr::from(g)
        }
        _ => Ipv6Addr::from(g),
    }
}
fn r_host(rng: &mut Rng) -> String {
    let labels = 1 + rng.below(4);
    let mut s = String::new();
    for i in 0..labels {
        if i > 0 {
            s.push('.');
        }
        let n = 1 + rng.below(12);
        for j in 0..n {
            let c = match rng.below(if j == 0 || j == n - 1 { 36 } else { 38 }) {
                x @ 0..=25 => (b'a' + x as u8) as char,
                x @ 26..=35 => (b'0' + (x - 26) as u8) as char,
                36 => '-',
                _ => '_',
            };
            s.push(c);
        }
    }
    s
}

fn main() {
    quiet_panics();
    let args = args_map();
    let mode = args.get("_0").cloned().unwrap_or_default();
    let out_dir = args.get("out").cloned().expect("--out");
    std::fs::create_dir_all(&out_dir).unwrap();
    let mut rep = Report::new();
    rep.cap = 40;
    let mut harness_errors: Vec<String> = Vec::new();
    let mut by_ty = std::collections::BTreeMap::<String, usize>::new();
    let path;
    let events;
    match mode.as_str() {
        "replay" => {
            let cases = read_ndjson(args.get("cases").expect("--cases"));
            path = format!("{out_dir}/trace_ae.ndjson");
            let mut w = NdjsonWriter::create(&path);
            for c in &cases {
                rep.cases += 1;
                let full = c["full"].as_bool().unwrap();
                let ty = j_str(&c["ty"]);
                let title = if c["title"]["some"].as_bool().unwrap() { Some(j_str(&c["title"]["v"])) } else { None };
                let addr = j_str(&c["addr"]);
                *by_ty.entry(format!("{}{}", if full { "full/" } else { "ae/" }, ty)).or_default() += 1;
                match run_case(full, ty, title, addr) {
                    Err(e) => harness_errors.push(e),
                    Ok(ev) => {
                        // compare with what the TLA+ operators prescribe
                        let exp = &c["parsed"];
                        let ok = ev["printed"] == c["printed"]
                            && exp["ok"] == json!(true)
                            && ev["pres"] == json!("ok")
                            && ev["ptitle"] == exp["title"]
                            && ev["paddr"] == exp["addr"];
                        if !ok {
                            rep.mismatch(json!({"what": "text or parse result differs from AeAddr.tla", "case": c, "observed": ev}));
                        }
                        w.emit(&ev);
                    }
                }
            }
            events = w.finish();
        }
        "random" => {
            let n = args.get("n").map(|s| s.parse::<usize>().unwrap()).unwrap_or(2000);
            let mut rng = Rng::new(seed_from_env() ^ 0xC36);
            path = format!("{out_dir}/trace_ae_random.ndjson");
            let mut w = NdjsonWriter::create(&path);
            for _ in 0..n {
                rep.cases += 1;
                let title = if rng.below(5) == 0 { None } else { Some(r_title(&mut rng)) };
                let full = title.is_some() && rng.coin();
                let port = r_port(&mut rng);
                let (ty, addr): (&str, String) = match rng.below(10) {
                    0 => ("sa", SocketAddr::from((r_v4(&mut rng), port)).to_string()),
                    1 => ("v4", SocketAddrV4::new(r_v4(&mut rng), port).to_string()),
                    2 => ("str", SocketAddrV4::new(r_v4(&mut rng), port).to_string()),
                    3 => ("sa", SocketAddr::from((r_v6(&mut rng), port)).to_string()),
                    4 => {
                        let scope = if rng.below(3) == 0 { 1 + rng.below(40) as u32 } else { 0 };
                        ("v6", SocketAddrV6::new(r_v6(&mut rng), port, 0, scope).to_string())
                    }
                    5 => {
                        let scope = if rng.below(3) == 0 { 1 + rng.below(40) as u32 } else { 0 };
                        ("sa", SocketAddr::V6(SocketAddrV6::new(r_v6(&mut rng), port, 0, scope)).to_string())
                    }
                    6 => ("str", SocketAddrV6::new(r_v6(&mut rng), port, 0, 0).to_string()),
                    7 => ("str", format!("{}:{}", r_host(&mut rng), port)),
                    _ => {
                        // host:port strings that contain '@' themselves (start, middle, end, several)
                        let h = r_host(&mut rng);
                        let s = match rng.below(5) {
                            0 => format!("@{h}:{port}"),
                            1 => format!("{}@{h}:{port}", r_host(&mut rng)),
                            2 => format!("{h}:{port}@"),
                            3 => format!("{}@{}@{h}:{port}", r_host(&mut rng), r_host(&mut rng)),
                            _ => format!("@@{h}@:{port}"),
                        };
                        ("str", s)
                    }
                };
                *by_ty.entry(format!("{}{}", if full { "full/" } else { "ae/" }, ty)).or_default() += 1;
                match run_case(full, ty, title.as_deref(), &addr) {
                    Err(e) => harness_errors.push(e),
                    Ok(ev) => w.emit(&ev),
                }
            }
            events = w.finish();
        }
        m => panic!("unknown mode {m}"),
    }
    rep.extra.insert("trace_files".into(), json!([{"path": path, "events": events}]));
    rep.extra.insert("by_type".into(), json!(by_ty));
    rep.extra.insert("harness_errors".into(), json!(harness_errors.iter().take(5).collect::<Vec<_>>()));
    rep.extra.insert("harness_error_count".into(), json!(harness_errors.len()));
    rep.print();
}
