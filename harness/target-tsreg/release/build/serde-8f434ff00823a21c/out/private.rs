#[doc(hidden)]
pub mod __private228 {
    #[doc(hidden)]
    pub use crate::private::*;
}
use serde_core::__private228 as serde_core_private;
