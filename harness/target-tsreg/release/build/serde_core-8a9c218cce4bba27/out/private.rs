#[doc(hidden)]
pub mod __private228 {
    #[doc(hidden)]
    pub use crate::private::*;
}
