//! Shared helpers for the conformance drivers:
//! ndjson case/trace I/O, a seeded PRNG, scripted/failing/counting I/O objects.
//!
//! Conventions (see /verif/DESIGN.md §2):
//!  * a driver reads TLC-generated cases as ndjson (one JSON object per line),
//!    executes them against the real code, and prints ONE JSON summary line on
//!    stdout: {"cases":N,"mismatches":[{..}],"panics":K,...};
//!  * a driver in `record` mode writes an ndjson trace for TLC to validate;
//!  * a panic in code under test is data: use `catch` and report it.

use serde_json::Value;
use std::io::{self, BufRead, Read, Write};
use std::panic::{catch_unwind, AssertUnwindSafe};

/// Read an ndjson file into a vector of JSON values (blank lines skipped).
pub fn read_ndjson(path: &str) -> Vec<Value> {
    let f = std::fs::File::open(path).unwrap_or_else(|e| panic!("open {path}: {e}"));
    let mut out = Vec::new();
    for line in io::BufReader::new(f).lines() {
        let line = line.expect("read line");
        let t = line.trim();
        if t.is_empty() {
            continue;
        }
        out.push(serde_json::from_str(t).unwrap_or_else(|e| panic!("bad json {t}: {e}")));
    }
    out
}

/// Buffered ndjson writer.
pub struct NdjsonWriter {
    w: io::BufWriter<std::fs::File>,
    pub lines: usize,
}

impl NdjsonWriter {
    pub fn create(path: &str) -> Self {
        let f = std::fs::File::create(path).unwrap_or_else(|e| panic!("create {path}: {e}"));
        NdjsonWriter {
            w: io::BufWriter::new(f),
            lines: 0,
        }
    }
    pub fn emit(&mut self, v: &Value) {
        serde_json::to_writer(&mut self.w, v).expect("write json");
        self.w.write_all(b"\n").expect("write nl");
        self.lines += 1;
    }
    pub fn finish(mut self) -> usize {
        self.w.flush().expect("flush");
        self.lines
    }
}

/// Run `f`, converting a panic into Err(message). The default panic hook is
/// silenced by `quiet_panics()` so the output stays parseable.
pub fn catch<T>(f: impl FnOnce() -> T) -> Result<T, String> {
    match catch_unwind(AssertUnwindSafe(f)) {
        Ok(v) => Ok(v),
        Err(e) => {
            let msg = if let Some(s) = e.downcast_ref::<&str>() {
                s.to_string()
            } else if let Some(s) = e.downcast_ref::<String>() {
                s.clone()
            } else {
                "panic".to_string()
            };
            Err(msg)
        }
    }
}

pub fn quiet_panics() {
    std::panic::set_hook(Box::new(|_| {}));
}

/// xorshift64* PRNG (deterministic, seedable; no external crate).
#[derive(Clone)]
pub struct Rng(pub u64);

impl Rng {
    pub fn new(seed: u64) -> Self {
        Rng(seed.wrapping_mul(0x9E3779B97F4A7C15) ^ 0xD1B54A32D192ED03 | 1)
    }
    pub fn next_u64(&mut self) -> u64 {
        let mut x = self.0;
        x ^= x >> 12;
        x ^= x << 25;
        x ^= x >> 27;
        self.0 = x;
        x.wrapping_mul(0x2545F4914F6CDD1D)
    }
    /// uniform in [0, n)
    pub fn below(&mut self, n: u64) -> u64 {
        if n == 0 {
            0
        } else {
            self.next_u64() % n
        }
    }
    /// uniform in [lo, hi]
    pub fn range(&mut self, lo: i64, hi: i64) -> i64 {
        lo + self.below((hi - lo + 1) as u64) as i64
    }
    pub fn coin(&mut self) -> bool {
        self.next_u64() & 1 == 1
    }
    pub fn pick<'a, T>(&mut self, xs: &'a [T]) -> &'a T {
        &xs[self.below(xs.len() as u64) as usize]
    }
    pub fn bytes(&mut self, n: usize) -> Vec<u8> {
        (0..n).map(|_| self.next_u64() as u8).collect()
    }
}

pub fn seed_from_env() -> u64 {
    std::env::var("VERIF_SEED")
        .ok()
        .and_then(|s| s.parse::<u64>().ok())
        .unwrap_or(20260921)
}

/// JSON helpers
pub fn j_usize(v: &Value) -> usize {
    v.as_u64().unwrap_or_else(|| panic!("expected unsigned int, got {v}")) as usize
}
pub fn j_i64(v: &Value) -> i64 {
    v.as_i64().unwrap_or_else(|| panic!("expected int, got {v}"))
}
pub fn j_str(v: &Value) -> &str {
    v.as_str().unwrap_or_else(|| panic!("expected string, got {v}"))
}
pub fn j_bytes(v: &Value) -> Vec<u8> {
    v.as_array()
        .unwrap_or_else(|| panic!("expected array, got {v}"))
        .iter()
        .map(|x| j_usize(x) as u8)
        .collect()
}
pub fn j_arr(v: &Value) -> &Vec<Value> {
    v.as_array().unwrap_or_else(|| panic!("expected array, got {v}"))
}
pub fn bytes_json(b: &[u8]) -> Value {
    Value::Array(b.iter().map(|x| Value::from(*x as u64)).collect())
}

/// A writer that counts and stores everything, and can be told to fail.
#[derive(Debug, Clone, Copy, PartialEq, Eq)]
pub enum FailKind {
    /// return Err(io::Error) from `write`
    Error,
    /// return Ok(0) from `write`
    Zero,
}

/// Sink that fails once `limit` bytes have been accepted (the write that would
/// cross the limit accepts the bytes up to the limit; the next write fails).
pub struct FailingWriter {
    pub data: Vec<u8>,
    pub limit: Option<usize>,
    pub kind: FailKind,
    pub calls: usize,
    pub failed: bool,
    pub flushes: usize,
    /// fail on flush as well once the limit was hit
    pub fail_flush: bool,
}

impl FailingWriter {
    pub fn new(limit: Option<usize>, kind: FailKind) -> Self {
        FailingWriter {
            data: Vec::new(),
            limit,
            kind,
            calls: 0,
            failed: false,
            flushes: 0,
            fail_flush: false,
        }
    }
}

impl Write for FailingWriter {
    fn write(&mut self, buf: &[u8]) -> io::Result<usize> {
        self.calls += 1;
        if buf.is_empty() {
            return Ok(0);
        }
        match self.limit {
            None => {
                self.data.extend_from_slice(buf);
                Ok(buf.len())
            }
            Some(l) => {
                let room = l.saturating_sub(self.data.len());
                if room == 0 {
                    self.failed = true;
                    match self.kind {
                        FailKind::Error => Err(io::Error::new(io::ErrorKind::Other, "injected failure")),
                        FailKind::Zero => Ok(0),
                    }
                } else {
                    let n = room.min(buf.len());
                    self.data.extend_from_slice(&buf[..n]);
                    Ok(n)
                }
            }
        }
    }
    fn flush(&mut self) -> io::Result<()> {
        self.flushes += 1;
        if self.fail_flush && self.failed {
            return Err(io::Error::new(io::ErrorKind::Other, "injected flush failure"));
        }
        Ok(())
    }
}

/// Reader over a byte vector which hands out the data in scripted segment
/// sizes (then the rest in one go), optionally failing/ending early.
pub struct ScriptedReader {
    pub data: Vec<u8>,
    pub pos: usize,
    pub segs: Vec<usize>,
    pub seg_idx: usize,
    /// After this many bytes delivered, return Err (if Some)
    pub fail_at: Option<usize>,
    pub calls: usize,
}

impl ScriptedReader {
    pub fn new(data: Vec<u8>, segs: Vec<usize>) -> Self {
        ScriptedReader {
            data,
            pos: 0,
            segs,
            seg_idx: 0,
            fail_at: None,
            calls: 0,
        }
    }
}

impl Read for ScriptedReader {
    fn read(&mut self, buf: &mut [u8]) -> io::Result<usize> {
        self.calls += 1;
        if let Some(f) = self.fail_at {
            if self.pos >= f {
                return Err(io::Error::new(io::ErrorKind::Other, "injected read failure"));
            }
        }
        let remaining = self.data.len() - self.pos;
        if remaining == 0 || buf.is_empty() {
            return Ok(0);
        }
        let mut want = if self.seg_idx < self.segs.len() {
            // a segment may be split across calls if the caller's buffer is smaller
            let s = self.segs[self.seg_idx];
            s
        } else {
            remaining
        };
        want = want.min(remaining).min(buf.len());
        if let Some(f) = self.fail_at {
            want = want.min(f - self.pos);
        }
        if self.seg_idx < self.segs.len() {
            if want == self.segs[self.seg_idx] {
                self.seg_idx += 1;
            } else {
                self.segs[self.seg_idx] -= want;
            }
        }
        buf[..want].copy_from_slice(&self.data[self.pos..self.pos + want]);
        self.pos += want;
        Ok(want)
    }
}

/// Counting reader wrapper
pub struct CountingReader<R> {
    pub inner: R,
    pub count: std::rc::Rc<std::cell::Cell<u64>>,
}
impl<R: Read> Read for CountingReader<R> {
    fn read(&mut self, buf: &mut [u8]) -> io::Result<usize> {
        let n = self.inner.read(buf)?;
        self.count.set(self.count.get() + n as u64);
        Ok(n)
    }
}

/// Parse `--key value` style args into a map; bare words go to "_".
pub fn args_map() -> std::collections::HashMap<String, String> {
    let mut m = std::collections::HashMap::new();
    let a: Vec<String> = std::env::args().skip(1).collect();
    let mut i = 0;
    let mut pos = 0;
    while i < a.len() {
        if let Some(k) = a[i].strip_prefix("--") {
            if i + 1 < a.len() && !a[i + 1].starts_with("--") {
                m.insert(k.to_string(), a[i + 1].clone());
                i += 2;
            } else {
                m.insert(k.to_string(), "true".to_string());
                i += 1;
            }
        } else {
            m.insert(format!("_{pos}"), a[i].clone());
            pos += 1;
            i += 1;
        }
    }
    m
}

/// Collect mismatches, keeping only the first `cap` in full.
pub struct Report {
    pub cases: usize,
    pub mismatches: Vec<Value>,
    pub mismatch_count: usize,
    pub cap: usize,
    pub extra: serde_json::Map<String, Value>,
}
impl Report {
    pub fn new() -> Self {
        Report {
            cases: 0,
            mismatches: Vec::new(),
            mismatch_count: 0,
            cap: 200,
            extra: serde_json::Map::new(),
        }
    }
    pub fn mismatch(&mut self, v: Value) {
        self.mismatch_count += 1;
        if self.mismatches.len() < self.cap {
            self.mismatches.push(v);
        }
    }
    pub fn print(self) {
        let mut m = self.extra;
        m.insert("cases".into(), Value::from(self.cases as u64));
        m.insert("mismatch_count".into(), Value::from(self.mismatch_count as u64));
        m.insert("mismatches".into(), Value::Array(self.mismatches));
        println!("REPORT {}", Value::Object(m));
    }
}
impl Default for Report {
    fn default() -> Self {
        Self::new()
    }
}
