"""Shared steps of the DICOM JSON checks C23 (round trip, never panics) and C24 (Annex F shape).

Everything is decided by TLC with the operators of specs/json/DicomJson.tla:
  * Gen_DicomJson   enumerates abstract data sets and prints ds, Shape(ds), NormJson(ds)
  * drv_json        builds each data set, runs dicom_json::{to_string,to_value,from_str}, re-reads the
                    text with a generic JSON reader and records events
  * Trace_DicomJson judges every event: Conforms(ds, shape) (C24) / SameDs(ds, rtds) (C23) /
                    "from_str returned" for arbitrary documents; prints <<"BADCASE", line, diagnosis>>
"""
import json
import os
import re

import vlib

SPEC = os.path.join(vlib.SPECS, "json")
_bad_re = re.compile(r'^<<"BADCASE", (\d+), "(.*)">>$', re.M)


def generate(ctx):
    """One TLC run: the test vectors of DicomJsonVectors (RFC 4648, two's complement, decimal
    parsing, Annex F example, inputs the validators must reject), the specification against
    itself on every generated case (Conforms(ds, Shape(ds)), SameDs(ds, NormJson(ds)), NormJson
    idempotent) and the cases {ds, shape, norm} themselves.  A failure is a tool error."""
    cases = ctx.path("cases.ndjson")
    try:
        r, n = vlib.tlc_generate(SPEC, "Gen_DicomJson", "Gen_DicomJson_%s.cfg" % ("quick" if ctx.quick else "thorough"), cases,
                                 timeout=1800, heap="6g")
    except vlib.ToolError as e:
        raise vlib.ToolError("DicomJson.tla fails its own test vectors / self-consistency: %s" % e)
    if "INCONSISTENT" in r.out:
        raise vlib.ToolError("DicomJson.tla is not self-consistent on a generated case:\n" + r.out[-3000:])
    ctx.add_tlc(r)
    if n < 1000:
        raise vlib.ToolError("generator produced only %d cases" % n)
    vlib.log("[%s] %d data sets generated and self-checked by TLC in %.1fs" % (ctx.pid, n, r.wall_s))
    ctx.extra_cov["spec_self_check"] = "%d test-vector assumptions + Conforms(ds,Shape(ds)), SameDs(ds,NormJson(ds)) on %d cases" % (
        sum(1 for ln in open(os.path.join(SPEC, "DicomJsonVectors.tla")) if ln.startswith("ASSUME")), n)
    return cases, n


CHUNK_LINES = 20000
CHUNK_BYTES = 40 << 20


def judge_all(ctx, mode, parts, corruptions):
    """Trace_DicomJson (Mode = shape | rt) over the events files in `parts` [(label, events_path)],
    followed by a binding self-test section: copies of recorded events with one field corrupted by
    each of `corruptions` [(label_of_part, fn)]; TLC must flag every corrupted copy.  The events are
    independent, so they are validated in chunks (one TLC run each) to bound TLC's memory.
    Returns {label: [(local_line, diagnosis, event)]}, number of recorded events."""
    chunks = []          # [(path, [(label, local line) per line])]
    cur = {"f": None, "idx": None, "bytes": 0}

    def emit(text, tag):
        if cur["f"] is None or len(cur["idx"]) >= CHUNK_LINES or cur["bytes"] + len(text) > CHUNK_BYTES:
            if cur["f"] is not None:
                cur["f"].close()
            path = ctx.path("judge_%s_%d.ndjson" % (mode, len(chunks) + 1))
            cur["f"], cur["idx"], cur["bytes"] = open(path, "w"), [], 0
            chunks.append((path, cur["idx"]))
        cur["f"].write(text if text.endswith("\n") else text + "\n")
        cur["idx"].append(tag)
        cur["bytes"] += len(text)

    per_label = {}
    n_real = 0
    for label, path in parts:
        evs = []
        with open(path) as f:
            for i, ln in enumerate(f, 1):
                emit(ln, (label, i))
                n_real += 1
                if len(evs) < 600 and len(ln) < 20000:
                    evs.append(ln)
        per_label[label] = evs
    n_self = 0
    for label, fn in corruptions:
        k = 0
        for i, ln in enumerate(per_label.get(label, [])):
            if i % 53 != 7:
                continue
            e = json.loads(ln)
            if fn(e):
                e["src"] = "selftest"
                emit(json.dumps(e, separators=(",", ":")), ("selftest", n_self))
                n_self += 1
                k += 1
        if k == 0:
            raise vlib.ToolError("binding self-test: nothing to corrupt in " + label)
    if cur["f"] is not None:
        cur["f"].close()
    result = {label: [] for label, _ in parts}
    flagged_self = 0
    wall = 0.0
    for path, idx in chunks:
        res = vlib.validate_trace(SPEC, "Trace_DicomJson", path, cfg="Trace_DicomJson_%s.cfg" % mode, timeout=2400, heap="6g")
        r = res["result"]
        ctx.add_tlc(r)
        wall += r.wall_s
        if not res["accepted"]:
            raise vlib.ToolError("Trace_DicomJson did not consume %s (line %s): %s" % (path, res["line"], str(res["record"])[:500]))
        if r.distinct != len(idx) + 1:
            raise vlib.ToolError("Trace_DicomJson consumed %d of %d events" % (r.distinct - 1, len(idx)))
        bad = {int(m.group(1)): sorted(json.loads(vlib.tla_unescape(m.group(2)))) for m in _bad_re.finditer(r.out)}
        flagged_self += sum(1 for g in bad if idx[g - 1][0] == "selftest")
        want = {g for g in bad if idx[g - 1][0] != "selftest"}
        if want:
            with open(path) as f:
                for g, ln in enumerate(f, 1):
                    if g in want:
                        label, local = idx[g - 1]
                        result[label].append((local, bad[g], json.loads(ln)))
    vlib.log("[%s] %d recorded events (+%d corrupted copies) judged by TLC (Mode=%s) in %d run(s), %.1fs" % (
        ctx.pid, n_real, n_self, mode, len(chunks), wall))
    if flagged_self != n_self:
        raise vlib.ToolError("binding self-test (%s): %d of %d corrupted events were flagged by TLC" % (mode, flagged_self, n_self))
    if corruptions:
        ctx.extra_cov["binding_selftest_" + mode] = "%d recorded events copied with one corrupted field, all flagged by Trace_DicomJson" % n_self
    return result, n_real


def replay(ctx, mode, report_cases, report_docs=None):
    """bin/check Cxx --replay <file>: re-execute the recorded data set / document alone and let
    TLC judge it again."""
    with open(ctx.replay) as f:
        obj = json.load(f)["replay"]
    vlib.build_harness(["drv_json"])
    if obj.get("document") is not None:
        docs = ctx.path("docs.ndjson")
        vlib.write_ndjson(docs, [{"kind": obj["event"].get("kind", "replay"), "doc": obj["document"]}])
        rep = vlib.run_driver("drv_json", ["parse", "--docs", docs, "--out", ctx.path("replay")], env=ctx.env())
        bad, n = judge_all(ctx, mode, [("doc", rep["events_path"])], [])
        if report_docs:
            report_docs(bad["doc"], {r["line"]: r for r in vlib.read_ndjson(rep["failing_path"])})
    else:
        cases = ctx.path("cases.ndjson")
        vlib.write_ndjson(cases, [{"ds": obj["event"]["ds"], "shape": None, "norm": None}])
        rep = vlib.run_driver("drv_json", ["cases", "--cases", cases, "--out", ctx.path("replay")], env=ctx.env())
        bad, n = judge_all(ctx, mode, [("case", rep["events_path"])], [])
        report_cases(bad["case"], texts_of(rep["texts_path"]), "replayed data set")
    ctx.cov["evaluations"] += 1
    ctx.cov["traces_validated_against_impl"] += n
    ctx.level = "exploration"


def texts_of(path):
    out = {}
    if os.path.exists(path):
        for t in vlib.read_ndjson(path):
            out[t["line"]] = t.get("text")
    return out


def vr_list(d):
    return ",".join(d) if d else "?"
