"""Shared steps of the DICOM JSON checks C23 (round trip, never panics) and C24 (Annex F shape).

Everything is decided by TLC with the operators of specs/json/DicomJson.tla:
  * Gen_DicomJson   enumerates abstract data sets and prints ds, Shape(ds), NormJson(ds)
  * drv_json        builds each data set, runs dicom_json::{to_string,to_value,from_str}, re-reads the
                    text with a generic JSON reader and records events
  * Trace_DicomJson judges every event: Conforms(ds, shape) (C24) / SameDs(ds, rtds) (C23) /
                    "from_str returned" for arbitrary documents; prints <<"BADCASE", line, diagnosis>>
"""
import json
import os
import re

import vlib

SPEC = os.path.join(vlib.SPECS, "json")
_bad_re = re.compile(r'^<<"BADCASE", (\d+), "(.*)">>$', re.M)


def generate(ctx):
    """One TLC run: the test vectors of DicomJsonVectors (RFC 4648, two's complement, decimal
    parsing, Annex F example, inputs the validators must reject), the specification against
    itself on every generated case (Conforms(ds, Shape(ds)), SameDs(ds, NormJson(ds)), NormJson
    idempotent) and the cases {ds, shape, norm} themselves.  A failure is a tool error."""
    cases = ctx.path("cases.ndjson")
    try:
        r, n = vlib.tlc_generate(SPEC, "Gen_DicomJson", "Gen_DicomJson_%s.cfg" % ("quick" if ctx.quick else "thorough"), cases,
                                 timeout=1800, heap="6g")
    except vlib.ToolError as e:
        raise vlib.ToolError("DicomJson.tla fails its own test vectors / self-consistency: %s" % e)
    if "INCONSISTENT" in r.out:
        raise vlib.ToolError("DicomJson.tla is not self-consistent on a generated case:\n" + r.out[-3000:])
    ctx.add_tlc(r)
    if n < 1000:
        raise vlib.ToolError("generator produced only %d cases" % n)
    vlib.log("[%s] %d data sets generated and self-checked by TLC in %.1fs" % (ctx.pid, n, r.wall_s))
    ctx.extra_cov["spec_self_check"] = "%d test-vector assumptions + Conforms(ds,Shape(ds)), SameDs(ds,NormJson(ds)) on %d cases" % (
        sum(1 for ln in open(os.path.join(SPEC, "DicomJsonVectors.tla")) if ln.startswith("ASSUME")), n)
    return cases, n


def judge_all(ctx, mode, parts, corruptions):
    """One TLC run of Trace_DicomJson (Mode = shape | rt) over the concatenation of the events
    files in `parts` [(label, events_path)], followed by a binding self-test section: copies of
    recorded events with one field corrupted by each of `corruptions` [(label_of_part, fn)];
    TLC must flag every corrupted copy.  Returns {label: [(local_line, diagnosis, event)]}, total."""
    comb = ctx.path("judge_%s.ndjson" % mode)
    index = []          # global line -> (label, local line)
    per_label = {}
    with open(comb, "w") as out:
        for label, path in parts:
            evs = []
            with open(path) as f:
                for i, ln in enumerate(f, 1):
                    out.write(ln if ln.endswith("\n") else ln + "\n")
                    index.append((label, i))
                    if len(evs) < 600:
                        evs.append(ln)
            per_label[label] = evs
        n_real = len(index)
        expected = []
        for label, fn in corruptions:
            k = 0
            for i, ln in enumerate(per_label.get(label, [])):
                if i % 53 != 7:
                    continue
                e = json.loads(ln)
                if fn(e):
                    e["src"] = "selftest"
                    out.write(json.dumps(e, separators=(",", ":")) + "\n")
                    index.append(("selftest", len(index) + 1))
                    expected.append(len(index))
                    k += 1
            if k == 0:
                raise vlib.ToolError("binding self-test: nothing to corrupt in " + label)
    res = vlib.validate_trace(SPEC, "Trace_DicomJson", comb, cfg="Trace_DicomJson_%s.cfg" % mode, timeout=1800, heap="6g")
    r = res["result"]
    ctx.add_tlc(r)
    if not res["accepted"]:
        raise vlib.ToolError("Trace_DicomJson did not consume %s (line %s): %s" % (comb, res["line"], str(res["record"])[:500]))
    if r.distinct != len(index) + 1:
        raise vlib.ToolError("Trace_DicomJson consumed %d of %d events" % (r.distinct - 1, len(index)))
    vlib.log("[%s] %d recorded events (+%d corrupted copies) judged by TLC (Mode=%s) in %.1fs" % (ctx.pid, n_real, len(expected), mode, r.wall_s))
    bad = {int(m.group(1)): sorted(json.loads(vlib.tla_unescape(m.group(2)))) for m in _bad_re.finditer(r.out)}
    missing = [g for g in expected if g not in bad]
    if missing:
        raise vlib.ToolError("binding self-test (%s): %d corrupted events were not flagged by TLC (lines %s)" % (mode, len(missing), missing[:5]))
    if corruptions:
        ctx.extra_cov["binding_selftest_" + mode] = "%d recorded events copied with one corrupted field, all flagged by Trace_DicomJson" % len(expected)
    result = {label: [] for label, _ in parts}
    want = {g for g in bad if g <= n_real}
    if want:
        with open(comb) as f:
            for g, ln in enumerate(f, 1):
                if g in want:
                    label, local = index[g - 1]
                    result[label].append((local, bad[g], json.loads(ln)))
    return result, n_real


def replay(ctx, mode, report_cases, report_docs=None):
    """bin/check Cxx --replay <file>: re-execute the recorded data set / document alone and let
    TLC judge it again."""
    with open(ctx.replay) as f:
        obj = json.load(f)["replay"]
    vlib.build_harness(["drv_json"])
    if obj.get("document") is not None:
        docs = ctx.path("docs.ndjson")
        vlib.write_ndjson(docs, [{"kind": obj["event"].get("kind", "replay"), "doc": obj["document"]}])
        rep = vlib.run_driver("drv_json", ["parse", "--docs", docs, "--out", ctx.path("replay")], env=ctx.env())
        bad, n = judge_all(ctx, mode, [("doc", rep["events_path"])], [])
        if report_docs:
            report_docs(bad["doc"], {r["line"]: r for r in vlib.read_ndjson(rep["failing_path"])})
    else:
        cases = ctx.path("cases.ndjson")
        vlib.write_ndjson(cases, [{"ds": obj["event"]["ds"], "shape": None, "norm": None}])
        rep = vlib.run_driver("drv_json", ["cases", "--cases", cases, "--out", ctx.path("replay")], env=ctx.env())
        bad, n = judge_all(ctx, mode, [("case", rep["events_path"])], [])
        report_cases(bad["case"], texts_of(rep["texts_path"]), "replayed data set")
    ctx.cov["evaluations"] += 1
    ctx.cov["traces_validated_against_impl"] += n
    ctx.level = "exploration"


def texts_of(path):
    out = {}
    if os.path.exists(path):
        for t in vlib.read_ndjson(path):
            out[t["line"]] = t.get("text")
    return out


def vr_list(d):
    return ",".join(d) if d else "?"
