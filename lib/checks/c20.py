"""C20  RLE Lossless decoding reproduces the encoded samples.

Specification: specs/pixel/Rle.tla (PS3.5 Annex G reference encoder with explicit run
segmentation, reference decoder, Interleave) and RleEnc.tla (the nondeterministic
PackBits encoder as a state machine).

1. TLC model-checks RleEnc: every split of small byte planes (and of planes around the
   128-byte run limit) into literal/replicate runs and no-ops is decoded back to the
   plane by the G.3.2 decoder of the specification.
2. Binding A: Gen_Rle makes TLC enumerate small images x run segmentations (and the
   127/128/129 family), encode them with the reference encoder and print fragments +
   expected bytes (Interleave); drv_rle wraps them in real objects (RLE Lossless) and
   compares decode_pixel_data / decode_pixel_data_frame(k) with the expected bytes and
   whole = concatenation of frames.
3. Binding B: drv_rle encodes seeded random larger images (up to 17x17 and 1x257,
   1-3 frames) with a randomised run segmentation; Trace_Rle decodes the fragments with
   the reference decoder and rejects any event where the code returned other bytes.
"""
import json

import vlib
from checks import _pixel as P


def run(ctx):
    q = ctx.quick
    ctx.level = "model_checking"
    ctx.rule = ("TLC exhaustive over run segmentations of small byte planes (RleEnc state machine) and over "
                "small images x segmentations (Gen_Rle); every generated fragment set decoded by the real "
                "RleLosslessAdapter through decode_pixel_data and decode_pixel_data_frame; seeded random "
                "larger images judged by the TLA+ reference decoder (Trace_Rle). distinct_nontrivial = "
                "distinct fragment sets decoded by the code.")
    ctx.assumptions += [
        "images restricted to 8/16 bits allocated, 1/3 samples per pixel (the property's quantifier)",
        "Binding B inputs come from the driver's randomised PackBits encoder; TLC checks each stream is a "
        "well-formed Annex G fragment (premise) before judging the decoder",
        "objects are built in memory (fragments attached directly); the file reader is not on the path",
    ]
    vlib.build_harness(["drv_rle"])

    # 1. model checking of the encoder state machine against the reference decoder
    acts = ["Literal", "Replicate", "NoOp", "Finish"]
    P.mc(ctx, "MC_RleEnc", "MC_RleEnc_small.cfg" if q else "MC_RleEnc_medium.cfg", acts)
    P.mc(ctx, "MC_RleEnc", "MC_RleEnc_long_quick.cfg" if q else "MC_RleEnc_long.cfg", ["Literal", "Replicate", "Finish"])

    # 2. TLC cases -> real decoder
    cases = ctx.path("cases.ndjson")
    n = P.generate(ctx, "Gen_Rle", "Gen_Rle_small.cfg" if q else "Gen_Rle_small_thorough.cfg", cases)
    n += P.generate(ctx, "Gen_Rle", "Gen_Rle_long.cfg" if q else "Gen_Rle_long_thorough.cfg", cases, append=True)
    rep = vlib.run_driver("drv_rle", ["replay", "--cases", cases], env=ctx.env())
    ctx.cov["evaluations"] += rep["cases"]
    ctx.cov["distinct_nontrivial"] += rep["distinct_fragment_sets"]
    for m in rep["mismatches"]:
        fp = "RLE %s decode differs from Annex G reference, %s" % (m["what"], m["shape"])
        ctx.violation(fp, "case rows=%s cols=%s frames=%s kind=%s i=%s: expected %s got %s" % (
            m["case"]["rows"], m["case"]["cols"], m["case"]["frames"], m["case"].get("kind"), m["case"].get("i"),
            json.dumps(m["expected"])[:300], json.dumps(m["got"])[:300]), m)
    P.sample_lines(ctx, cases, n)
    P.selftest_replay(ctx, "drv_rle", lambda p: ["replay", "--cases", p], cases,
                      lambda c: c["expect"][0].__setitem__(0, (c["expect"][0][0] + 1) % 256) or True,
                      "expected byte")

    # 3. seeded random larger images -> TLC judges with the reference decoder
    trace = ctx.path("trace.ndjson")
    rep2 = vlib.run_driver("drv_rle", ["record", "--n", 60 if q else 1200, "--out", trace], env=ctx.env())
    ctx.cov["evaluations"] += rep2["cases"]
    ctx.cov["distinct_nontrivial"] += rep2["distinct_shapes"]
    for rj in P.validate(ctx, "Trace_Rle", trace, timeout=3000):
        r = rj["record"]
        fp = "RLE decode differs from Annex G reference (random image), bits=%s samples=%s" % (r.get("bits"), r.get("spp"))
        ctx.violation(fp, "trace event %d rejected: rows=%s cols=%s frames=%s" % (rj["line"], r.get("rows"), r.get("cols"), r.get("frames")),
                      {"event": r})
    ctx.cov["traces_validated_against_impl"] += rep2["cases"]

    def corrupt(e):
        if e["whole"]["res"] == "ok" and e["whole"]["data"]:
            e["whole"]["data"][-1] = (e["whole"]["data"][-1] + 1) % 256
            return True
        return False
    P.selftest_trace(ctx, "Trace_Rle", trace, corrupt, what="decoded byte")
    ctx.exhaustive = False
