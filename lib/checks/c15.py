"""C15  The standard data dictionary answers consistently for every tag and keyword.

The published table is data: lib/checks/_dict.py turns the generated source files of
dicom-dictionary-std (tags.rs: dicom.dic line in the doc comment + constant + ENTRIES
line per entry; uids.rs: SOP class table) into ndjson rows.  The lookup rule is the
spec: Dict!Lookup(g, e) with the five-rule precedence of the property text.

drv_dict asks the real dictionaries (by_tag for a stratified tag set, by_name for every
keyword, compiled tag constants, SOP class dictionary by UID and by keyword) and records
the answers; Judge_Dict (TLC) judges every table row (three-way consistency) and every
recorded answer with Dict!Lookup.  Exploration level: stratified tags, not all 2^32.
"""
import json
import os

import vlib
from checks import _dict


def run(ctx):
    q = ctx.quick
    ctx.level = "exploration"
    ctx.rule = ("every table row and every recorded answer judged by TLC with Dict!Lookup (five-rule precedence) over the "
                "generated entry table; stratified tag set: every entry tag and its +-1/+-2 neighbours, all 256 expansions "
                "of every repeating entry and the tags just outside, private creator window boundaries of odd groups, "
                "element 0000 of groups, seeded random tags; every keyword; SOP class table by UID and keyword. "
                "distinct_nontrivial = distinct tags asked whose answer is an entry (not none).")
    ctx.assumptions += [
        "ENTRIES is pub(crate): the table is extracted from the generated source text tags.rs/uids.rs by regular "
        "expressions (transport only); the compiled value of each constant is observed through by_name(keyword).tag of the "
        "entry that names it and directly for a fixed sample of 78 constants",
        "tags outside the stratified set are covered only by the class argument: Lookup depends on the tag through table "
        "membership of the tag, of the covering published ranges, and the two predicates odd-group/0010-00FF and element 0000",
        "dicom.dic VR 'up' is UL (mapping stated by the dictionary builder)",
    ]
    vlib.build_harness(["drv_dict"])
    rows, ndecl = _dict.extract_tag_table()
    sop = _dict.extract_sop_table()
    if len(rows) < 5000 or len([s for s in sop if s["block"] == "SOP_CLASSES"]) < 200:
        raise vlib.ToolError("table extraction too small: %d rows, %d sop" % (len(rows), len(sop)))
    table = ctx.path("tags.ndjson")
    soptab = ctx.path("sop.ndjson")
    st = os.environ.get("VERIF_SELFTEST_C15", "")
    if st == "table":
        # binding self-test: corrupt the published range of one repeating entry
        for r in rows:
            if r["ctor"] == "Group100":
                r["ghi"] -= 1
                break
    vlib.write_ndjson(table, rows)
    vlib.write_ndjson(soptab, sop)
    out = ctx.path("events")
    args = ["record", "--table", table, "--sop", soptab, "--out", out, "--random", 30000 if q else 2500000,
            "--chunk", 150000]
    if not q:
        args.append("--all-groups")
    rep = vlib.run_driver("drv_dict", args, env=ctx.env())
    if rep["panics"]:
        ctx.note("%d lookups panicked (recorded as kind=panic, judged as wrong answers)" % rep["panics"])
    kinds = rep["answer_kinds"]
    for k in ("single", "group100", "element100", "group_length", "private_creator", ""):
        if not kinds.get(k):
            raise vlib.ToolError("vacuity: no recorded by_tag answer of kind %r" % k)
    ctx.extra_cov["strata"] = rep["strata"]
    ctx.extra_cov["answer_kinds"] = kinds
    ctx.extra_cov["table_rows"] = len(rows)
    ctx.extra_cov["sop_class_rows"] = len([s for s in sop if s["block"] == "SOP_CLASSES"])
    first = True
    total = 0
    for tf in rep["files"]:
        path = os.path.join(vlib.VERIF, tf["path"]) if not os.path.isabs(tf["path"]) else tf["path"]
        events = None
        if st == "answer" and first:
            events = vlib.read_ndjson(path)
            for e in events:
                if e["ev"] == "tag" and e["kind"] == "group100":
                    e["vr"] = "UN"      # binding self-test: corrupt one recorded answer
                    break
            vlib.write_ndjson(path, events)
        nrows = len(rows) if first else 0
        verdicts, jr = _dict.judge(ctx, "Judge_Dict", "Judge_Dict.cfg", path,
                                   env={"TABLE": table, "SOPTABLE": soptab, "JUDGEROWS": "1" if first else "0"},
                                   expect=tf["events"] + nrows, timeout=2400, heap="8g")
        total += tf["events"] + nrows
        if verdicts:
            events = events or vlib.read_ndjson(path)
        for v in verdicts:
            hard, drift = _dict.split_rules(v["failed"])
            item = rows[v["line"] - 1] if v["what"] == "row" else events[v["line"] - 1]
            for rule in hard:
                ctx.violation(rule, "%s %s: %s; table prescribes %s" % (v["what"], json.dumps(item)[:400], rule,
                                                                         json.dumps(v.get("expected"))[:400]),
                              {"item": item, "failed": v["failed"], "expected": v.get("expected")})
            for rule in drift:
                ctx.note("%s: %s" % (rule, json.dumps(item)[:300]))
        if first:
            evs = events or vlib.read_ndjson(path)
            for e in evs:
                if e["ev"] == "tag" and e["kind"] in ("group100", "private_creator") and len(ctx.cov["samples"]) < 3:
                    if not any(s.get("kind") == e["kind"] for s in ctx.cov["samples"]):
                        ctx.sample(e)
        first = False
    ctx.cov["evaluations"] = total
    ctx.cov["distinct_nontrivial"] = rep["tags_found"]
    ctx.extra_cov["tags_asked"] = rep["tags"]
    ctx.extra_cov["keywords_asked"] = rep["names"]
    ctx.extra_cov["sop_queries"] = rep["sop_queries"]
    ctx.exhaustive = False
