"""C27  PDU reception is independent of how the byte stream is segmented.

1. TLC model-checks WireRx (implementation-shaped: shared read_buffer, parse-or-read
   loop, transport delivering any split / coalescing / 1-byte reads): no loss, no
   duplication, order kept, leftover = unconsumed suffix, termination under fairness,
   and refinement of the property-level spec WireRxObs.
2. Binding A: TLC prints every behaviour of the small model (PDU length list +
   segmentation, Gen_WireRx); drv_pdu encodes real PDUs of those sizes and delivers
   them through a scripted Read (read_pdu_from_wire) and a scripted AsyncRead with a
   Pending before every piece (read_pdu_from_wire_async); per-receive events are
   recorded.
3. The events are judged by Trace_WireRx against WireRxObs (the k-th receive returns
   the k-th PDU sent; "closed" only when nothing is outstanding).  Binding B: seeded
   random sequences of 1-8 real PDUs of all kinds with random segmentations.
"""
import json
import os

import vlib
from checks import _ps38pdu as H

SPEC = H.SPEC


def fingerprint(rec, evs):
    mode = evs[0].get("mode", "?") if evs and isinstance(evs[0], dict) else "?"
    if not isinstance(rec, dict):
        return "unparsed"
    ev = rec.get("ev")
    if ev == "recv":
        res = rec.get("res")
        if res == "pdu":
            return "%s receiver returns a PDU that is not the next one sent (lost, duplicated or reordered)" % mode
        if res == "closed":
            return "%s receiver reports connection closed while PDUs are outstanding" % mode
        return "%s receiver fails (%s) while PDUs are outstanding" % (mode, res)
    if ev == "wend":
        return "%s receiver: not every PDU was returned" % mode
    return "%s event %s" % (mode, ev)


def judge(ctx, path, label):
    return H.judge(ctx, "Trace_WireRx", path, "Trace_WireRx_strict.cfg", "Trace_WireRx_prop.cfg", ("wreset",),
                   fingerprint, label)


def selftest(ctx, trace_path):
    evs = vlib.read_ndjson(trace_path)
    # first case with at least two PDUs
    starts = [i for i, e in enumerate(evs) if e["ev"] == "wreset"]
    s = next(i for i in starts if len(evs[i]["sent"]) >= 2)
    e = next(i for i in starts if i > s)
    case = evs[s:e]
    recvs = [i for i, x in enumerate(case) if x["ev"] == "recv" and x["res"] == "pdu"]
    muts = []
    m = json.loads(json.dumps(case)); m[recvs[0]]["pdu"], m[recvs[1]]["pdu"] = m[recvs[1]]["pdu"], m[recvs[0]]["pdu"]
    muts.append(("two returned PDUs swapped", m, recvs[0] + 1))
    m = json.loads(json.dumps(case)); del m[recvs[1]]
    muts.append(("a returned PDU dropped", m, None))
    m = json.loads(json.dumps(case)); m.insert(recvs[1], m[recvs[0]])
    muts.append(("a returned PDU duplicated", m, recvs[1] + 1))
    m = json.loads(json.dumps(case)); m[recvs[0]]["pdu"]["h"][1] = (m[recvs[0]]["pdu"]["h"][1] + 1) % 65536
    muts.append(("content of a returned PDU altered", m, recvs[0] + 1))
    for i, (what, m, line) in enumerate(muts):
        p = ctx.path("selftest_%d.ndjson" % i)
        vlib.write_ndjson(p, m)
        H.must_reject(ctx, "Trace_WireRx", p, "Trace_WireRx_prop.cfg", what, expect_line=line)
    ctx.extra_cov["binding_selftests"] = len(muts)


def run(ctx):
    q = ctx.quick
    ctx.level = "model_checking"
    ctx.rule = ("TLC exhaustive over PDU length sequences x every segmentation of the stream (model WireRx, refinement of "
                "WireRxObs); every generated behaviour replayed on read_pdu_from_wire (scripted Read) and "
                "read_pdu_from_wire_async (scripted AsyncRead, Pending before every piece) with real PDUs of those sizes; "
                "per-receive events, plus seeded random sequences of 1-8 PDUs of all kinds with random segmentations, "
                "judged by TLC against WireRxObs. distinct_nontrivial = distinct (PDU sequence, segmentation, sync/async) "
                "cases in which the transport split or coalesced PDUs.")
    ctx.assumptions += [
        "PDUs are compared through the descriptor (kind, encoded length, 32-bit digest of the re-encoding by write_pdu)",
        "the stream holds complete PDUs only; after the last PDU the transport reports end of stream",
        "real-size family: receivers with max_pdu_length 1018 / 4096 / 16384 (strict and not), 2-6 P-DATA-TF PDUs of length max-9..max "
        "coalesced in single reads, 4 KiB / 64 KiB reads and max+5/+6/+7 byte segments",
        "exhaustive segmentations ('all') only for streams of at most 10 (quick) / 13 (thorough) bytes; longer streams with the "
        "edge-focused, coarse and one-byte segmentation styles and by seeded sampling",
    ]
    vlib.build_harness(["drv_pdu"])

    # 1. model checking
    r = vlib.tlc(SPEC, "WireRx", "MC_WireRx.cfg" if q else "MC_WireRx_thorough.cfg", workers=4, timeout=3000)
    ctx.check_model(r, "WireRx")
    ctx.require_coverage(r, ["RecvStart", "Parse", "Deliver", "Closed"])
    vlib.log("[C27] WireRx model-checked: %d states in %.1fs" % (r.distinct, r.wall_s))
    r = vlib.tlc(SPEC, "WireRx", "MC_WireRx_live.cfg", workers=4, timeout=3000)
    ctx.check_model(r, "WireRx termination under transport fairness")

    # 2. behaviours -> real code
    cases = ctx.path("cases.ndjson")
    gr, n = vlib.tlc_generate(SPEC, "Gen_WireRx", "Gen_WireRx_%s.cfg" % ("quick" if q else "thorough"), cases,
                              timeout=3000, heap="8g")
    ctx.add_tlc(gr)
    vlib.log("[C27] %d behaviours generated by TLC in %.1fs" % (n, gr.wall_s))
    if n < 500:
        raise vlib.ToolError("vacuity: only %d behaviours generated" % n)
    rep = vlib.run_driver("drv_pdu", ["wire-replay", "--cases", cases, "--out", ctx.path("replay")], env=ctx.env())
    ctx.cov["evaluations"] += rep["wire_cases"]
    events = 0
    for tf in rep["trace_files"]:
        events += judge(ctx, tf["path"], "replay of TLC behaviours")
    if rep["mismatch_count"]:
        ctx.note("drift: %d behaviours where the code differs from the implementation-shaped model WireRx.tla (read_buffer "
                 "length after a receive); first: %s" % (rep["mismatch_count"], json.dumps(rep["mismatches"][0])[:600]))
    ctx.extra_cov["model_drift_cases"] = ctx.extra_cov.get("model_drift_cases", 0) + rep["mismatch_count"]
    nontrivial = 0
    with open(cases) as f:
        lines = f.readlines()
    for ln in lines:
        c = json.loads(ln)
        # trivial = every PDU delivered in exactly one piece of its own
        if c["segs"] != c["lens"]:
            nontrivial += 2
    for i in (0, len(lines) // 2, len(lines) - 1):
        ctx.sample(json.loads(lines[i]))

    # 3. seeded random sequences of real PDUs of all kinds
    rep2 = vlib.run_driver("drv_pdu", ["wire-random", "--n", 150 if q else 3000, "--big", 72 if q else 720, "--out", ctx.path("random")], env=ctx.env())
    ctx.cov["evaluations"] += rep2["wire_cases"]
    need = {"rq", "ac", "rj", "pdata", "rrq", "rrp", "abort", "unknown"}
    if not need <= set(rep2["kinds"]):
        raise vlib.ToolError("vacuity: PDU kinds missing from the random sequences: %s" % sorted(need - set(rep2["kinds"])))
    if rep2.get("big_cases", 0) < 100:
        raise vlib.ToolError("vacuity: only %s real-size receive cases (max 1018/4096/16384, coalesced near-maximum P-DATA)" % rep2.get("big_cases"))
    ctx.extra_cov["real_size_receive_cases"] = rep2["big_cases"]
    for tf in rep2["trace_files"]:
        events += judge(ctx, tf["path"], "seeded random PDU sequences")
    nontrivial += rep2["wire_cases"]
    ctx.cov["traces_validated_against_impl"] = rep["wire_cases"] + rep2["wire_cases"]
    ctx.cov["distinct_nontrivial"] = nontrivial
    ctx.extra_cov["trace_events_validated"] = events
    ctx.extra_cov["transport_reads_scripted"] = rep["segments"] * 2 + rep2["segments"] * 2
    ctx.exhaustive = False

    # 5. growth beyond C27 (thorough tier only, notes only): scpproxy as a transparent proxy
    if not q:
        from checks import _proxy
        _proxy.growth(ctx, SPEC)

    # 4. binding self-test
    if not q or os.environ.get("VERIF_SELFTEST"):
        selftest(ctx, rep["trace_files"][0]["path"])
