"""C26  P-DATA fragmentation and reassembly preserve the message under any schedule.

1. TLC model-checks the implementation-shaped models PData (sync + async writer over
   every transport schedule) and PDataRx (reader over every segmentation), including
   the refinement obligations towards the property-level spec PDataObs and liveness
   of the async writer under transport fairness.
2. TLC generates every behaviour of the small models (Gen_PData, Gen_PDataRx); the
   driver replays each against the real PDataWriter / AsyncPDataWriter / PDataReader
   (scripted transports, manual polling) and records what the code did.
3. The recorded traces (plus seeded random cases at real PDU sizes) are validated by
   TLC against the property-level spec (Trace_PData over PDataObs).  A rejected trace
   is a violation of C26.  Differences between the code and the implementation-shaped
   model that the property-level spec accepts are reported as drift only.
"""
import json
import os

import vlib

SPEC = os.path.join(vlib.SPECS, "ps38")


def fingerprint(rec, evs):
    """abstract key of a rejected event: writer/reader kind + what went wrong"""
    mode = evs[0].get("mode", "?") if evs else "?"
    if not isinstance(rec, dict):
        return "unparsed"
    ev = rec.get("ev")
    if ev == "write":
        if rec.get("res") == "ok" and rec.get("ret") == 0:
            return "%s-writer write returns Ok(0) for a non-empty buffer" % mode
        return "%s-writer write result %s" % (mode, rec.get("res"))
    if ev == "pdu":
        return "%s-writer bad PDU" % mode
    if ev in ("finish", "wend"):
        return "%s-writer %s" % (mode, ev)
    if ev in ("read", "rend", "deliver"):
        return "%s-reader %s %s" % (mode, ev, rec.get("res", ""))
    return "event " + str(ev)


def validate_dir(ctx, rep, label):
    from concurrent.futures import ThreadPoolExecutor
    n_events = 0

    def one(tf):
        return tf, vlib.validate_trace_cases(SPEC, "Trace_PData", tf["path"], cfg="Trace_PData.cfg",
                                             reset_events=("reset", "rreset"), timeout=1800, heap="4g")
    with ThreadPoolExecutor(max_workers=4) as ex:
        results = list(ex.map(one, rep["trace_files"]))
    for tf, out in results:
        n_events += tf["events"]
        for r in out["results"]:
            ctx.add_tlc(r)
        for rj in out["rejections"]:
            fp = fingerprint(rj["record"], rj["case_events"])
            ctx.violation(fp, "%s: trace %s rejected at line %d: %s" % (label, os.path.basename(tf["path"]), rj["line"],
                                                                       json.dumps(rj["record"])),
                          {"max": tf["max"], "rejected_event": rj["record"], "case_events": rj["case_events"]})
    return n_events


def run(ctx):
    q = ctx.quick
    ctx.level = "model_checking"
    ctx.rule = ("TLC exhaustive over chunkings x transport schedules (writer) and stream segmentations (reader) of the "
                "scaled models; every generated behaviour replayed on the real writers/reader; traces (generated + seeded "
                "random at real PDU sizes) validated against the property-level spec PDataObs. distinct_nontrivial = "
                "distinct behaviours replayed that emit at least one PDU.")
    ctx.assumptions += [
        "PData.tla/PDataRx.tla abstract bytes to positions; byte contents are bound by the driver's position pattern i%251",
        "writer constructors reached through the cfg(dicom_rs_verif) hook new_for_verif",
    ]
    vlib.build_harness(["drv_pdata"])
    suf = "" if q else "_thorough"

    # 1. model checking
    for cfg, acts in (("MC_PData_sync%s.cfg" % suf, ["SyncWrite", "SyncFinish"]),
                      ("MC_PData_async%s.cfg" % suf, ["PollStart", "TAccept", "TPending", "TFault", "FinStart", "FAccept", "FPending"])):
        r = vlib.tlc(SPEC, "PData", cfg, workers=4, timeout=1200)
        ctx.check_model(r, cfg)
        ctx.require_coverage(r, acts)
    r = vlib.tlc(SPEC, "PData", "MC_PData_live.cfg", workers=4, timeout=1200)
    ctx.check_model(r, "liveness of write_all/finish under transport fairness")
    r = vlib.tlc(SPEC, "PDataRx", "MC_PDataRx%s.cfg" % suf, workers=4, timeout=1200)
    ctx.check_model(r, "PDataRx")
    ctx.require_coverage(r, ["RRead", "RParse", "RDeliver"])

    # 1b. thorough: unbounded safety of the sync writer by an inductive invariant (Apalache, SMT):
    # PDataInt.tla = the SyncWrite/SyncFinish actions over integers, for EVERY Max >= 7 and EVERY chunk size
    if not q:
        ap = os.path.join(SPEC, "apalache")
        obligations = 0
        import shutil
        for module in ("PDataInt.tla", "PDataAsyncInt.tla"):
            for args in (["--init=Init", "--length=0"], ["--init=IndInit", "--length=1"]):
                rc, out = vlib.sh(["apalache-mc", "check", "--cinit=ConstInit", "--inv=IndInv"] + args + [module],
                                  cwd=ap, timeout=1800)
                shutil.rmtree(os.path.join(ap, "_apalache-out"), ignore_errors=True)
                if "EXITCODE: OK" not in out:
                    raise vlib.ToolError("Apalache did not discharge the inductive invariant of %s (%s):\n%s" % (module, args, out[-1500:]))
                obligations += 1
        ctx.extra_cov["apalache_inductive_invariant"] = {
            "modules": ["specs/ps38/apalache/PDataInt.tla (sync writer)", "specs/ps38/apalache/PDataAsyncInt.tla (async writer, every transport schedule)"], "invariant": "IndInv", "obligations_discharged": obligations,
            "meaning": "Init => IndInv and IndInv /\\ Next => IndInv' for all Max >= 7 and all chunk sizes in Nat: conservation, "
                       "PDU-length bound, only-last flag, non-zero write results hold at every maximum PDU length"}

    # 2. behaviours -> real code
    cases = ctx.path("cases.ndjson")
    n = 0
    for mod, cfg in (("Gen_PData", "Gen_PData_sync%s.cfg" % suf), ("Gen_PData", "Gen_PData_async%s.cfg" % suf),
                     ("Gen_PDataRx", "Gen_PDataRx_quick.cfg" if q else "Gen_PDataRx_thorough.cfg"),
                     ("Gen_PDataRx", "Gen_PDataRx_all.cfg" if q else "Gen_PDataRx_all_thorough.cfg")):
        gr, k = vlib.tlc_generate(SPEC, mod, cfg, cases, timeout=1800, append=(n > 0), heap="8g")
        ctx.add_tlc(gr)
        n += k
    vlib.log("[C26] %d behaviours generated by TLC" % n)
    out = ctx.path("replay")
    rep = vlib.run_driver("drv_pdata", ["replay", "--cases", cases, "--out", out], env=ctx.env())
    ctx.cov["evaluations"] += rep["cases"]
    ev1 = validate_dir(ctx, rep, "replay of TLC behaviours")
    ctx.cov["traces_validated_against_impl"] += rep["writer_cases"] + rep["reader_cases"]
    ctx.cov["distinct_nontrivial"] += rep["writer_cases"] + rep["reader_cases"]
    if rep["drift"]:
        ctx.note("drift: %d behaviours where the code differs from the implementation-shaped model PData.tla "
                 "(informational unless the property-level trace validation rejects); first: %s"
                 % (rep["drift"], json.dumps(rep["mismatches"][0])[:700]))
    ctx.extra_cov["model_drift_cases"] = rep["drift"]
    with open(cases) as f:
        for i, ln in enumerate(f):
            if i in (0, n // 2, n - 1):
                ctx.sample(json.loads(ln))

    # 3. random cases at real sizes
    out2 = ctx.path("random")
    rep2 = vlib.run_driver("drv_pdata", ["random", "--n", 100 if q else 3000, "--out", out2] + (["--quickmax", "1"] if q else []), env=ctx.env())
    ctx.cov["evaluations"] += rep2["cases"]
    ev2 = validate_dir(ctx, rep2, "seeded random cases at real PDU sizes")
    ctx.cov["traces_validated_against_impl"] += rep2["writer_cases"] + rep2["reader_cases"]
    ctx.cov["distinct_nontrivial"] += rep2["writer_cases"] + rep2["reader_cases"]
    ctx.extra_cov["trace_events_validated"] = ev1 + ev2
    ctx.exhaustive = False
