"""C23  DICOM JSON serialisation round-trips; deserialising never panics.

1. TLC checks DicomJson.tla against itself (test vectors; NormJson/SameDs on every case).
2. TLC enumerates data sets (as for C24, without encapsulated pixel data) and prints ds and
   NormJson(ds); drv_json runs from_str(to_string(ds)) and projects the data set that comes
   back.  Inequality with NormJson(ds) is drift; the verdict is TLC's: Trace_DicomJson
   (Mode = rt) evaluates SameDs(ds, rtds) - equality up to the documented normalisations -
   on every event, also on seeded random larger data sets.
3. Never panics: hand-written families of malformed documents (conflicting element fields in
   every order, missing/duplicate vr, bad base64, wrong JSON types, out-of-range and huge
   numbers, malformed keys, deep nesting) plus seeded arbitrary JSON and tree/text mutations
   of valid outputs are fed to from_str under catch_unwind and a watchdog; every call is an
   event judged by TLC (result must be Ok or Err).  That postcondition is trivial, so this
   half is exploration.
"""
import json

import vlib
from checks import _json as J


def fingerprint(diag):
    if any(d.startswith("ser:") for d in diag):
        return "serialisation fails (%s)" % ",".join(d[4:] for d in diag)
    if any(d.startswith("rt:") for d in diag):
        return "from_str fails on dicom_json's own output (%s)" % ",".join(d[3:] for d in diag)
    return "round trip changes the value of VR %s" % J.vr_list(diag)


def report(ctx, bad, texts, label):
    for line, diag, ev in sorted(bad, key=lambda b: (len(json.dumps(b[2]['ds'])), b[0])):
        ctx.violation(fingerprint(diag), "%s: %s -> %s -> %s %s" % (label, json.dumps(ev["ds"])[:300], (texts.get(line) or "")[:300],
                                                                  json.dumps(ev.get("rtds"))[:300], ev.get("msg", "")[:200]),
                      {"event": ev, "json_text": texts.get(line), "diagnosis": diag, "source": label})


def report_docs(ctx, bad, failing):
    for line, diag, ev in bad:
        full = failing.get(line, {})
        what = "panics" if ev["res"] == "panic" else "does not return (%s)" % ev["res"]
        ctx.violation("from_str %s: %s" % (what, ev["kind"]),
                      "from_str %s [%s] on %s" % (what, ev.get("msg", "")[:200], (full.get("doc") or ev.get("doc", ""))[:400]),
                      {"event": ev, "document": full.get("doc", ev.get("doc")), "panic_message": full.get("msg", ev.get("msg"))})


def run(ctx):
    q = ctx.quick
    if getattr(ctx, "replay", None):
        return J.replay(ctx, "rt", lambda bad, texts, label: report(ctx, bad, texts, label),
                        lambda bad, failing: report_docs(ctx, bad, failing))
    ctx.level = "model_checking"
    ctx.rule = ("TLC enumerates abstract data sets (34 VRs x in-memory representations x multiplicity 0..3 x value alphabets incl. "
                "negative numbers, 64-bit extremes, non-finite floats; sequences nested to depth 2) and judges from_str(to_string(ds)) "
                "of the real code with SameDs (equality up to the documented normalisations); seeded random larger data sets likewise. "
                "Never-panics half: exploration with malformed/mutated documents, each call an event judged by TLC. "
                "distinct_nontrivial = distinct data sets with a non-empty value round-tripped + distinct malformed documents parsed.")
    ctx.assumptions += [
        "equality is judged on the abstract value (tag, VR, values): trailing blanks, numeric string vs number for IS/DS, typed "
        "binary vs bytes, Str vs Strs and integer width are the documented normalisations",
        "floats are restricted to values whose shortest decimal is exact (dyadic, <= 7 digits) plus NaN/inf/-inf; projection of a "
        "float is its exact decimal expansion",
        "no encapsulated pixel data; in-memory values canonical (see C24)",
        "hang guard: 20 s per document in a watchdog thread",
    ]
    vlib.build_harness(["drv_json"])
    r = vlib.tlc(J.SPEC, "MC_DicomJson", "MC_DicomJson.cfg", workers=1, timeout=600, coverage=False)
    ctx.check_model(r, "test vectors of the Annex F operators")
    cases, n = J.generate(ctx)

    rep = vlib.run_driver("drv_json", ["cases", "--cases", cases, "--out", ctx.path("cases")], env=ctx.env())
    rep2 = vlib.run_driver("drv_json", ["random", "--n", 400 if q else 10000, "--out", ctx.path("random")], env=ctx.env())
    rep3 = vlib.run_driver("drv_json", ["fuzz", "--n", 3000 if q else 100000, "--cases", cases, "--out", ctx.path("fuzz")],
                           env=ctx.env(), timeout=3000)

    def corrupt_rt(e):           # one tag of the data set that came back changed
        if e.get("rt") != "ok" or not e["rtds"]:
            return False
        e["rtds"][0]["e"] = (e["rtds"][0]["e"] + 1) % 65536
        return True

    def corrupt_parse(e):        # a call recorded as not having returned
        e["res"] = "panic"
        return True

    L1, L2, L3 = "TLC-generated data set", "seeded random data set", "malformed document"
    bad, nev = J.judge_all(ctx, "rt", [(L1, rep["events_path"]), (L2, rep2["events_path"]), (L3, rep3["events_path"])],
                           [(L1, corrupt_rt), (L3, corrupt_parse)])
    report(ctx, bad[L1], J.texts_of(rep["texts_path"]), L1)
    report(ctx, bad[L2], J.texts_of(rep2["texts_path"]), L2)
    report_docs(ctx, bad[L3], {r["line"]: r for r in vlib.read_ndjson(rep3["failing_path"])})
    ctx.cov["evaluations"] += rep["cases"] + rep2["cases"] + rep3["cases"]
    ctx.cov["distinct_nontrivial"] += rep["nontrivial"] + rep2["cases"] + rep3["events"]
    ctx.cov["traces_validated_against_impl"] += nev
    ctx.extra_cov["vr_representation_pairs"] = rep["vr_reps"]
    ctx.extra_cov["drift_from_NormJson"] = rep["drift_norm"]
    ctx.extra_cov["malformed_documents"] = {"hand_written_families": rep3["systematic"], "results": rep3["results"]}
    if rep["drift_norm"] > len(bad[L1]):
        ctx.note("drift: %d round trips differ from the implementation-shaped NormJson(ds) but are equal up to the documented "
                 "normalisations; first: %s" % (rep["drift_norm"] - len(bad[L1]),
                                                json.dumps([m for m in rep["mismatches"] if m["kind"] == "norm"][:1])[:600]))
    with open(cases) as f:
        for i, ln in enumerate(f):
            if i in (11, n // 2, n - 3):
                c = json.loads(ln)
                ctx.sample({"ds": c["ds"], "expected_after_round_trip": c["norm"]})
    ctx.sample({"malformed_document_results": rep3["results"]})
    ctx.exhaustive = False


def replay(ctx, obj):
    run(ctx)
