"""Growth beyond C25 (thorough tier only): read_pdu and the receivers on structurally mutated PDUs,
compared with the outcomes PS38PduLenient.tla allows.  Everything found here is OUTSIDE the statement
of C25 (which speaks of well-formed PDU values) and is reported as notes / extra coverage, never as a
violation.  The expected outcomes are computed by TLC (Gen_PS38PduMut); this module only tests
membership / equality of the observed result."""
import collections
import json

KINDS = {}


def _same(o, r):
    """observed {res:'pdu', pdu, n} equals a reading [k:'Ok', pdu, n]"""
    return o.get("res") == "pdu" and o.get("pdu") == r.get("pdu") and (o.get("n") is None or o["n"] == r.get("n"))


def classify(obs, exp):
    """obs: {res, pdu?, n?}; exp: {strict:{k,pdu?,n?}, lenient:[{k,pdu,n}], unspec}"""
    res = obs.get("res")
    if res == "panic":
        return "PANIC"
    if exp["unspec"]:
        return "unspecified-text"
    s = exp["strict"]
    if s["k"] == "Incomplete":
        if res in ("none", "closed"):
            return "conform"
        return "incomplete-but-" + str(res)
    if s["k"] == "Ok":
        if _same(obs, s):
            return "conform"
        if res == "err":
            return "stricter-than-PS3.8"
        if res in ("none", "closed"):
            return "complete-PDU-reported-incomplete"
        return "DIFFERENT-PDU"
    # strict Err
    if res == "err":
        return "conform" if not exp["lenient"] else "conform-rejects-what-a-lenient-reader-accepts"
    if res == "pdu":
        if any(_same(obs, r) for r in exp["lenient"]):
            return "lenient-accept"
        if any(_same(obs, r) for r in exp.get("lenignored", [])):
            nuv = len((obs.get("pdu") or {}).get("uv", []))
            if exp["lenient"] and all(nuv > len(r["pdu"].get("uv", [])) for r in exp["lenient"]):
                return "SUBITEM-SMUGGLED"
            return "ITEM-LENGTH-IGNORED"
        return "DIFFERENT-PDU"
    return "complete-PDU-reported-incomplete"


def run(cases, observed):
    """returns (Counter of classes for read_pdu, Counter for receivers, list of remarkable items)"""
    c_read, c_rx = collections.Counter(), collections.Counter()
    remarkable = []
    global KINDS
    KINDS = collections.defaultdict(collections.Counter)
    for c, o in zip(cases, observed):
        label = "%s/%s@%s->%s" % (c["base"], c["m"], c["at"], c["to"])
        for key in ("read", "read_strict"):
            cl = classify(o[key], c["exp"] if key == "read" else c["exp_strict"])
            c_read[cl] += 1
            if key == "read":
                msg = (o[key].get("msg") or "").split(": ")[-1][:60]
                KINDS[cl]["%s/%s%s" % (c["base"], c["m"], (" [" + msg + "]") if msg else "")] += 1
            if cl not in ("conform", "unspecified-text", "lenient-accept", "conform-rejects-what-a-lenient-reader-accepts"):
                remarkable.append({"api": key, "class": cl, "mut": label, "bytes": c["bytes"], "observed": o[key],
                                   "strict": c["exp"]["strict"], "lenient": c["exp"]["lenient"]})
        for rx in o["rx"]:
            name = "%s/%s" % ("async" if rx["async"] else "sync", rx["seg"])
            recv = rx["recv"]
            r1 = dict(recv[0])
            r1.pop("rest", None)
            cl = classify(r1, c["stream1"])
            c_rx[cl] += 1
            if cl not in ("conform", "unspecified-text", "lenient-accept", "conform-rejects-what-a-lenient-reader-accepts"):
                remarkable.append({"api": "receiver " + name, "class": cl, "mut": label, "bytes": c["bytes"], "observed": recv,
                                   "strict": c["stream1"]["strict"], "lenient": c["stream1"]["lenient"]})
            elif len(recv) > 1 and recv[0].get("res") == "pdu":
                r2 = dict(recv[1])
                r2.pop("rest", None)
                cl2 = classify(r2, c["stream2"])
                c_rx["second:" + cl2] += 1
                if cl2 not in ("conform", "unspecified-text", "lenient-accept", "conform-rejects-what-a-lenient-reader-accepts"):
                    remarkable.append({"api": "receiver " + name + " second receive", "class": cl2, "mut": label, "bytes": c["bytes"],
                                       "observed": recv, "strict": c["stream2"]["strict"], "lenient": c["stream2"]["lenient"]})
    return c_read, c_rx, remarkable


def growth(ctx, vlib, spec_dir):
    """thorough tier of C25: the error side of the reader (notes only)"""
    cases_p = ctx.path("mutants.ndjson")
    gr, n = vlib.tlc_generate(spec_dir, "Gen_PS38PduMut", "Gen_PS38PduMut.cfg", cases_p, timeout=3000, heap="8g")
    ctx.add_tlc(gr)
    rep = vlib.run_driver("drv_pdu", ["mutants", "--cases", cases_p, "--out", ctx.path("mutants")], env=ctx.env())
    cases = vlib.read_ndjson(cases_p)
    observed = vlib.read_ndjson(rep["trace_files"][0]["path"])
    if len(cases) != len(observed) or n < 1500:
        raise vlib.ToolError("malformed-PDU growth run: %d cases, %d observations" % (len(cases), len(observed)))
    c_read, c_rx, rem = run(cases, observed)
    ctx.extra_cov["malformed_pdu_mutants"] = n
    ctx.extra_cov["malformed_read_pdu_outcomes"] = dict(c_read)
    ctx.extra_cov["malformed_receiver_outcomes"] = dict(c_rx)
    ctx.note("growth (outside C25's statement, malformed PDUs): %d structural mutants of all 8 PDU kinds judged against "
             "PS38PduLenient.tla; read_pdu outcomes %s; receiver outcomes %s" % (n, dict(c_read), dict(c_rx)))
    by = collections.defaultdict(list)
    for r in rem:
        by[r["class"]].append(r)
    for cl, items in sorted(by.items()):
        first = items[0]
        muts = sorted({i["mut"] for i in items})
        ctx.note("growth observation [%s]: %d result(s) on %d mutant(s), e.g. %s: bytes %s -> %s (strict reading: %s; %d lenient reading(s))"
                 % (cl, len(items), len(muts), first["mut"], json.dumps(first["bytes"])[:700],
                    json.dumps(first["observed"])[:500], first["strict"]["k"], len(first["lenient"])))
    for cl in ("conform-rejects-what-a-lenient-reader-accepts", "lenient-accept"):
        top = KINDS[cl].most_common(14)
        ctx.note("growth observation [%s] (read_pdu, by mutation kind [error]): %s" % (cl, "; ".join("%s x%d" % kv for kv in top)))
    ctx.extra_cov["malformed_by_class_and_kind"] = {cl: dict(v.most_common(25)) for cl, v in KINDS.items() if cl != "conform"}
    ctx.extra_cov["malformed_remarkable_classes"] = {k: len(v) for k, v in by.items()}
    return by
