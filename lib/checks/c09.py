"""C09  File meta group integrity and preamble handling.

1. TLC model-checks FileMeta.tla: from builder-built tables, every supported
   AttributeOp history up to the bound; invariants: recorded group length = bytes of
   the PS3.5 layout following (0002,0000), written size = 12 + group length, the layout
   sum agrees with a direct count, reading the encoded group back gives the table up to
   padding.  Preamble.tla's case table is checked by its ASSUME.
2. Spec -> code: Gen_FileMeta prints (a) tables in which each attribute takes every
   length of {0,1,2,3,64} / is absent, (b) every transition of the operation graph with
   the expected table, group length, written size and element layout after every step,
   (c) complete-file cases (preamble shape x entry point x ReadPreamble option) with the
   expected outcome.  drv_filemeta builds the tables with FileMetaTableBuilder, applies
   the operations with ApplyOp::apply and compares information_group_length, the real
   written bytes and the re-read table after every step; files are written with
   write_all / write_to_file and read back by path and from a byte source.
3. Code -> spec: seeded random tables (lengths 0..70) and operation histories (<= 8), and
   the tables returned by reading complete files, are logged and judged by TLC
   (Trace_FileMeta) with the layout operators.
"""
import json
import os

import vlib
from checks import _objects as ob


def report(ctx, rep, label):
    for m in rep["mismatches"]:
        if m["level"] == "strict":
            ctx.violation(m["fingerprint"], "%s: %s" % (label, m["detail"][:500]), m)
    aux = sorted(k.split("|", 1)[1] for k in rep["by_fingerprint"] if k.startswith("aux|"))
    if aux:
        ctx.note("drift (%s): the code differs from the implementation-shaped operation model while the group length "
                 "invariants hold: %s" % (label, "; ".join(aux)[:700]))
    ctx.extra_cov["model_drift_kinds"] = ctx.extra_cov.get("model_drift_kinds", 0) + len(aux)


def judge_trace(ctx, path, label):
    out = vlib.validate_trace_cases(ob.SPEC, "Trace_FileMeta", path, cfg="Trace_FileMeta.cfg", reset_events=("reset",),
                                    max_rejections=6, timeout=1800, heap="6g")
    for r in out["results"]:
        ctx.add_tlc(r)
    for rj in out["rejections"]:
        rec = rj["record"] if isinstance(rj["record"], dict) else {}
        inner = rec.get("rec", {})
        fp = "%s [%s]" % (rec.get("why", "rejected"), inner.get("ctx", "?"))
        ctx.violation(fp, "%s: observation rejected by Trace_FileMeta at line %d: recorded group length %s, layout gives %s, written %s; %s"
                      % (label, rj["line"], inner.get("gl"), rec.get("model_gl"), inner.get("written"), inner.get("note", "")),
                      {"rejected": rec, "case_events": rj["case_events"]})
    if out["truncated"]:
        ctx.note("trace validation stopped after %d rejections" % len(out["rejections"]))


def _t(ctx, what):
    import time
    vlib.log("[%s] %s done at +%.0fs" % (ctx.pid, what, time.time() - ctx.t0))


def run(ctx):
    q = ctx.quick
    ctx.level = "model_checking"
    ctx.rule = ("TLC explores the table/operation state machine exhaustively to the stated depth; every printed transition, "
                "table and file case is executed on the real FileMetaTable / FileDicomObject and compared; observations of "
                "random tables and histories are judged by TLC with the PS3.5 layout operators. distinct_nontrivial = distinct "
                "(table, operation) pairs, tables and file cases executed.")
    ctx.assumptions += [
        "attribute contents are one repeated character of the default repertoire ('1'/'2' for UI, 'A'/'B' for SH/AE, byte 7 for "
        "private information); only presence and byte length are modelled",
        "complete-file cases use tables whose Media Storage SOP Class/Instance UIDs are not empty (the reader replaces empty ones "
        "by the data set's UIDs); tables obtained that way are only checked for the group length invariants",
        "preamble premises: the preamble does not start with DICM and a file without preamble has no DICM at offset 128; the first "
        "read of the byte source delivers at least 132 bytes",
        "the driver's element scan of the written group uses the explicit VR header rule to find element boundaries",
    ]
    vlib.build_harness(["drv_filemeta"])

    # 1. model checking
    for cfg in (["MC_FileMeta_quick.cfg"] if q else ["MC_FileMeta_quick.cfg", "MC_FileMeta_thorough.cfg"]):
        r = vlib.tlc(ob.SPEC, "MC_FileMeta", cfg, workers=4, timeout=3000)
        ctx.check_model(r, cfg)
        ctx.require_coverage(r, ["MNext"])

    _t(ctx, "model checking")
    # 2. spec -> code
    cases = ctx.path("cases.ndjson")
    n = 0
    cfgs = ["Gen_FileMeta_tables.cfg", "Gen_FileMeta_ops1.cfg", "Gen_FileMeta_ops2.cfg" if q else "Gen_FileMeta_ops3.cfg",
            "Gen_FileMeta_files.cfg"]
    for cfg in cfgs:
        gr, k = ob.generate("Gen_FileMeta", cfg, cases, append=(n > 0), timeout=3000)
        ctx.add_tlc(gr)
        n += k
    vlib.log("[C09] %d cases generated by TLC" % n)
    tr1 = ctx.path("replay_trace.ndjson")
    rep = vlib.run_driver("drv_filemeta", ["replay", "--cases", cases, "--trace", tr1, "--dir", ctx.path("files")], env=ctx.env(),
                          timeout=3000)
    report(ctx, rep, "replay of TLC cases")
    ctx.cov["evaluations"] += rep["observations"]
    ctx.cov["distinct_nontrivial"] += rep["distinct"]
    if rep["file_cases"] == 0 or rep["err_steps"] == 0 or rep["steps"] == 0:
        raise vlib.ToolError("vacuity: replay ran %d file cases, %d steps, %d failing steps" % (rep["file_cases"], rep["steps"], rep["err_steps"]))
    if rep["events"] > 0:
        judge_trace(ctx, tr1, "tables read back from complete files")
        ctx.cov["traces_validated_against_impl"] += rep["file_cases"]
    for s in ob.sample_lines(cases, (0, n // 2, n - 1)):
        ctx.sample(s)

    _t(ctx, "case replay")
    # 3. code -> spec
    tr2 = ctx.path("random_trace.ndjson")
    rep2 = vlib.run_driver("drv_filemeta", ["random", "--n", 150 if q else 3000, "--trace", tr2, "--dir", ctx.path("files")],
                           env=ctx.env(), timeout=3000)
    judge_trace(ctx, tr2, "seeded random tables and histories")
    ctx.cov["traces_validated_against_impl"] += rep2["cases"]
    ctx.cov["evaluations"] += rep2["observations"]
    ctx.cov["distinct_nontrivial"] += rep2["distinct"]
    ctx.extra_cov["trace_events_validated"] = rep["events"] + rep2["events"]

    _t(ctx, "trace validation")
    # 4. binding self-tests: a deliberately wrong observation must be reported by the replay
    # comparison, and a corrupted recorded field must be rejected by the trace validator
    st = vlib.run_driver("drv_filemeta", ["replay", "--cases", cases, "--trace", ctx.path("st_trace.ndjson"), "--dir", ctx.path("files"),
                                          "--selftest", "true"], env=ctx.env(), timeout=3000)
    if not any(m["level"] == "strict" and "information_group_length" in m["fingerprint"] for m in st["mismatches"]):
        raise vlib.ToolError("binding self-test failed: a wrong group length observation was not reported")
    tr3 = ctx.path("corrupt_trace.ndjson")
    vlib.run_driver("drv_filemeta", ["random", "--n", 6, "--trace", tr3, "--dir", ctx.path("files"), "--corrupt", "true"], env=ctx.env())
    res = vlib.validate_trace(ob.SPEC, "Trace_FileMeta", tr3, cfg="Trace_FileMeta.cfg")
    if res["accepted"]:
        raise vlib.ToolError("binding self-test failed: a corrupted written size was accepted by Trace_FileMeta")
    ctx.extra_cov["binding_selftests"] = "wrong observation reported by replay; corrupted trace rejected at line %s" % res["line"]
    ctx.extra_cov["file_cases"] = rep["file_cases"]
    ctx.exhaustive = False
