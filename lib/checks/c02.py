"""C02  Reading and rewriting a canonical stream reproduces it byte for byte.

The canonical streams are produced by the specification, never by dicom-rs:
PS35!Wire(ds, ts, "K") for every data set of the VR sweep and the structure sweep
(ascending unique tags, even value lengths, VR-specific widths, default repertoire,
sequences and items with explicit or undefined length in every combination; TLC
checks Premise and ParseInvertsWire per case).  drv_dataset reads each stream with
read_dataset_with_ts, writes it back with the length-preserving strategy (NoChange)
and - when every sequence and item is of undefined length - with the default options
and with SetUndefined, and compares with the input bytes.
"""
import vlib
from checks import _ps35 as P


def run(ctx):
    q = ctx.quick
    ctx.level = "model_checking"
    ctx.rule = ("TLC enumerates canonical data sets x {IVRLE, EVRLE, EVRBE} and produces the canonical stream with the "
                "TLA+ reference encoder (checked against the TLA+ parser per case); each stream is read and rewritten by "
                "dicom-rs and compared byte for byte. distinct_nontrivial = streams with at least one element.")
    ctx.assumptions += [
        "canonical = PS35!Wire(ds, ts, keep recorded lengths) over the generators' data sets (PS35!WfDs premise)",
        "dictionary facts of PS35Dict.tla for Implicit VR (sequences use standard SQ tags; private tags are read as UN)",
    ]
    vlib.build_harness(["drv_dataset"])
    if P.replay(ctx, "C02"):
        return
    sweeps = ["vr", "struct"] + ([] if q else ["struct3"])
    jobs = P.ds_jobs(ctx, sweeps)
    P.generate_parallel(ctx, jobs)
    cases = ctx.path("cases.ndjson")
    n = P.concat([j[2] for j in jobs], cases)
    if n < 5000:
        raise vlib.ToolError("too few cases generated: %d" % n)
    P.sample_cases(ctx, cases)
    rep = vlib.run_driver("drv_dataset", ["replay", "--cases", cases, "--out", ctx.path("replay"), "--props", "C02"],
                          env=P.driver_env(ctx), timeout=3000)
    ctx.cov["evaluations"] += rep["writes"] + rep["reads"]
    ctx.cov["distinct_nontrivial"] += P.count_nontrivial(cases)
    ctx.extra_cov["canonical_streams"] = rep["cases"]
    ctx.extra_cov["rewrites"] = rep["writes"]
    if rep["writes"] < rep["cases"]:
        raise vlib.ToolError("vacuity: fewer rewrites (%d) than streams (%d)" % (rep["writes"], rep["cases"]))
    P.report_mismatches(ctx, rep, "C02")
    ctx.exhaustive = True
