"""C29  Requestor and acceptor agree on the association and respect PDU limits.

1. NegotiationSM.tla is the step-by-step machine (request construction, the acceptor's
   establish, response processing, then sends around the limits); TLC explores every case
   of the universe and checks the sentences of the property as invariants (distinct odd
   identifiers, same accepted contexts on both sides, each side holds the other's maximum,
   failure iff nothing accepted, nothing longer than the receiver's maximum goes out) and
   that the machine agrees with the one-shot operator Negotiation!Scenario.
2. Gen_Negotiation29 prints every requestor-options x acceptor-configuration case with the
   demanded outcome and a list of send / send_pdata calls around the negotiated limits.
3. drv_negotiate c29 runs the real ClientAssociationOptions::establish against the real
   ServerAssociationOptions::establish over loopback TCP through a recording proxy, compares
   the outcome with the demanded one, performs the calls, and records request, answer, both
   views, call results and the PDUs each call put on the wire.
4. TLC validates the recorded events with Trace_Negotiation.
"""
import json
import os

import vlib
from checks._assoc import SPEC, registry_facts


def fingerprint(rec):
    ev = rec.get("ev")
    if ev == "rqpdu":
        return "A-ASSOCIATE-RQ on the wire differs from the requestor's options (identifiers, contexts or maximum length)"
    if ev == "anspdu":
        return "acceptor answer (%s) not allowed for the request that was sent" % rec.get("obs", {}).get("type")
    if ev == "est":
        rq, ac = rec.get("rq", {}), rec.get("ac", {})
        parts = ["requestor est=%s" % rq.get("est"), "acceptor est=%s" % ac.get("est")]
        if rq.get("est") and ac.get("est"):
            if sorted(json.dumps(x, sort_keys=True) for x in rq.get("pcs", [])) != sorted(json.dumps(x, sort_keys=True) for x in ac.get("pcs", [])):
                parts.append("accepted context lists differ")
            if rq.get("peer") != ac.get("local"):
                parts.append("requestor's peer maximum is not the acceptor's local maximum")
            if ac.get("peer") != rq.get("local"):
                parts.append("acceptor's peer maximum is not the requestor's local maximum")
        return "establish outcome: " + ", ".join(parts)
    if ev == "send":
        return "%s %s (%s) ret=%s with %d PDU(s) on the wire" % (
            rec.get("side"), rec.get("via"), "%d PDVs" % len(rec["pdvs"]) if rec.get("pdvs") else "single PDV",
            str(rec.get("ret"))[:40], len(rec.get("wire", [])))
    return "event %s" % ev


def run(ctx):
    q = ctx.quick
    ctx.level = "model_checking"
    ctx.rule = ("TLC explores the negotiation state machine over the requestor-options x acceptor-configuration universe "
                "(1-4 contexts, maximum PDU lengths {0, below minimum, minimum, 4096, 16384, largest, beyond largest} on both "
                "sides, role selection / extended negotiation items, access control) with the property's sentences as "
                "invariants; every case is run with the real requestor against the real acceptor through a recording proxy, "
                "followed by send / send_pdata calls just below, at and above the negotiated limits (single-PDV PDUs and PDUs of 2, 3 and 8 PDVs up to limit + 6 per extra PDV + 1); recorded events are "
                "validated by TLC. distinct_nontrivial = distinct (options, configuration) pairs executed.")
    ctx.assumptions += [
        "a local maximum PDU length outside the library's documented range (below 1018, 0) makes that end unable to "
        "receive: modelled as LocallyRefused (never established), not as a violation",
        "option values above the largest supported maximum are truncated by the builders as documented",
        "when nothing is accepted the requestor must fail; the acceptor's own establish result is then not constrained",
        "PDUs on the wire are attributed to calls by a per-call marker byte in the payload",
        "every case is run through the sync API (establish / send / send_pdata) and again through the async API",
        "registry support facts as in C28",
    ]
    facts_path, facts = registry_facts(ctx)
    env = {"FACTS": facts_path}
    suf = "" if q else "_thorough"

    # 1. model checking
    r = vlib.tlc(SPEC, "NegotiationSM", "MC_NegotiationSM%s.cfg" % suf, workers=4, timeout=1500, env=env)
    ctx.check_model(r, "NegotiationSM")
    ctx.require_coverage(r, ["RqConnect", "AcRefuse", "AcAnswer", "RqProcess", "SendPdu"])

    # 2. cases with demanded outcomes
    cases = ctx.path("cases.ndjson")
    gr, n = vlib.tlc_generate(SPEC, "Gen_Negotiation29", "Gen_Negotiation29_%s.cfg" % ("quick" if q else "thorough"), cases,
                              timeout=1500, env=env)
    ctx.add_tlc(gr)
    if n < 300:
        raise vlib.ToolError("only %d cases generated" % n)

    # 3. real requestor vs real acceptor
    tr = ctx.path("trace.ndjson")
    total = {"cases": 0, "established": 0, "send_calls": 0, "events": 0, "distinct": 0}
    seen = set()
    with open(tr, "w") as allf:
        for api in ("sync", "async"):
            t = ctx.path("trace_%s.ndjson" % api)
            args = ["c29", "--cases", cases, "--out", t]
            if not q:
                args += ["--life-out", ctx.path("life_%s.ndjson" % api)]
            if api == "async":
                args.append("--async")
            if os.environ.get("VERIF_SELFTEST"):
                args.append("--selftest")
            rep = vlib.run_driver("drv_negotiate", args, env=ctx.env(), timeout=1500)
            if rep["cases"] != n:
                raise vlib.ToolError("driver executed %d of %d cases" % (rep["cases"], n))
            if rep["established"] < 100 or rep["send_calls"] < 1000:
                raise vlib.ToolError("vacuity: only %d associations established / %d send calls" % (rep["established"], rep["send_calls"]))
            for k in ("cases", "established", "send_calls", "events"):
                total[k] += rep[k]
            total["distinct"] = rep["distinct"]
            for m in rep["mismatches"]:
                fp = "%s (%s API)" % (m["what"], api)
                if fp in seen:
                    continue
                seen.add(fp)
                c = m["case"]
                ctx.violation(fp, "options %s against configuration %s: %s" % (
                    json.dumps(c["opts"])[:300], json.dumps(c["cfg"])[:300],
                    json.dumps({k: v for k, v in m.items() if k not in ("case",)})[:400]), m)
            allf.write(open(t).read())
    rep = total
    ctx.cov["evaluations"] += rep["cases"] + rep["send_calls"]
    ctx.cov["distinct_nontrivial"] += rep["distinct"]
    with open(cases) as f:
        for i, ln in enumerate(f):
            if i in (n // 3, n - 1):
                ctx.sample(json.loads(ln))

    # 4. recorded events judged by TLC
    out = vlib.validate_trace_cases(SPEC, "Trace_Negotiation", tr, cfg="Trace_Negotiation.cfg", reset_events=("c28", "c29"),
                                    timeout=1800, env=env, heap="6g")
    for r in out["results"]:
        ctx.add_tlc(r)
    for rj in out["rejections"]:
        rec = rj["record"] if isinstance(rj["record"], dict) else {}
        api = rj["case_events"][0].get("api", "?") if rj["case_events"] else "?"
        ctx.violation(fingerprint(rec) + " (%s API)" % api, "trace rejected at line %d: %s" % (rj["line"], json.dumps(rec)[:500]),
                      {"rejected_event": rec, "case_events": rj["case_events"]})
    ctx.cov["traces_validated_against_impl"] += rep["cases"] - len(out["rejections"])
    ctx.extra_cov["trace_events_validated"] = rep["events"]
    ctx.extra_cov["associations_established"] = rep["established"]
    ctx.extra_cov["send_calls"] = rep["send_calls"]
    ctx.exhaustive = False
    if not q:
        # growth beyond the listed properties (thorough only): the same connections, from the TCP connect to the
        # close, as whole-life-cycle traces of AssocLife.tla (see C30); rejections are notes, never violations
        allp = ctx.path("life_all.ndjson")
        with open(allp, "w") as f:
            for api in ("sync", "async"):
                f.write(open(ctx.path("life_%s.ndjson" % api)).read())
        lo = vlib.validate_trace_cases(SPEC, "Trace_AssocLife", allp, cfg="Trace_AssocLife.cfg", timeout=2400, heap="6g")
        for r in lo["results"]:
            ctx.add_tlc(r)
        for rj in lo["rejections"]:
            ctx.note("life cycle (outside C29): connection trace not a behaviour of AssocLife at %s" % json.dumps(rj["record"])[:300])
        ctx.extra_cov["life_cycle_traces_validated"] = 2 * n - len(lo["rejections"])
        ctx.extra_cov["life_cycle_traces_rejected"] = len(lo["rejections"])
