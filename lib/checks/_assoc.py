"""Helpers shared by the association checks (C28, C29, C30)."""
import json
import os

import vlib

SPEC = os.path.join(vlib.SPECS, "assoc")


def registry_facts(ctx):
    """Ask the real transfer syntax registry (public API) which UIDs of the universe it can
    decode data sets of; written as one JSON line for the TLA+ modules (IOEnv.FACTS)."""
    rep = vlib.run_driver("drv_negotiate", ["facts"], env=ctx.env())
    facts = rep["facts"]
    path = ctx.path("facts.ndjson")
    with open(path, "w") as f:
        f.write(json.dumps(facts, separators=(",", ":")) + "\n")
    return path, facts
