"""C14  Tags, keywords and attribute selectors have a lossless text syntax.

TagText.tla: recogniser + printer for the three documented tag forms over code point
sequences, selector printer/parser (items as decimal digit sequences), keyword table as data.
(A) TLC enumerates boundary tags x forms x letter case, all one-edit near misses of the valid
    forms, all strings over a small alphabet with UTF-8 length 8/9/11, and all selectors up to
    MaxDepth over 4 tags x items {0,1,4294967295} in the Display form and in alternative key
    forms; the spec's own round-trip theorems are invariants of the same runs; the driver
    executes every case on Tag::from_str / Display / parse_tag / parse_selector.
(B) the driver records uniform random tags, arbitrary Unicode strings (0-16 code points),
    mutated valid forms, every dictionary keyword, random selectors of depth 1-4; Trace_TagText
    asserts Ok(t) <=> Recognise(s) = t, never a panic, printer = Display, selector round trip,
    keyword -> the table's tag.
"""
import vlib
from checks import _values as V


def fp_trace(rec):
    ev = rec.get("ev")
    if ev == "tag":
        if rec.get("res") == "panic":
            return "Tag::from_str panics on a string (%s)" % ("ASCII" if rec.get("ascii") else "non-ASCII")
        if rec.get("res") == "ok":
            return "Tag::from_str accepts a string that is not a tag form / yields a different tag (%s)" % rec.get("class")
        return "Tag::from_str rejects an accepted form (%s)" % rec.get("class")
    if ev == "show":
        return "Display of Tag differs from (GGGG,EEEE)"
    if ev == "sel":
        return "selector Display/parse round trip fails (depth %s, %s)" % (rec.get("depth"), rec.get("res"))
    if ev == "selparse":
        if rec.get("panic"):
            return "parse_selector panics (%s)" % rec.get("class")
        return "parse_selector result differs from the documented syntax (%s)" % rec.get("class")
    return "event " + str(ev)


def run(ctx):
    q = ctx.quick
    ctx.level = "model_checking"
    ctx.rule = ("TLC exhaustive over 81 boundary tags x 3 forms x 4 letter-case patterns, all one-edit near misses of "
                "three valid forms, all strings over 5-letter alphabets of UTF-8 length 8/9/11, all selectors of depth "
                "<= %d over 4 tags x items {0,1,2^32-1} x key forms; each executed on the real parsers/printers; recorded "
                "seeded events (random tags, arbitrary Unicode strings, mutated forms, all dictionary keywords, random "
                "selectors depth 1-4) judged by TLC. distinct_nontrivial = distinct non-empty case strings + recorded events."
                % (2 if q else 3))
    ctx.assumptions += [
        "rejection side is claimed for tags only (property text); selectors are checked on valid texts (round trip, "
        "alternative key forms, keywords), not on malformed selector texts",
        "keyword table read from dictionary-std/src/tags.rs (ENTRIES is crate-private); for repeating-group keywords any "
        "tag of the entry's range is accepted",
    ]
    vlib.build_harness(["drv_tagtext"])

    # A
    cfgs = ["Gen_TagText_tag.cfg", "Gen_TagText_str.cfg", "Gen_TagText_alt.cfg" if q else "Gen_TagText_alt_thorough.cfg"]
    cases, n = V.generate(ctx, "Gen_TagText", cfgs, "cases.ndjson")
    rep = vlib.run_driver("drv_tagtext", ["replay", "--cases", cases], env=ctx.env())
    if rep["cases"] != n:
        raise vlib.ToolError("driver executed %d of %d cases" % (rep["cases"], n))
    ctx.cov["evaluations"] += rep["cases"]
    ctx.cov["distinct_nontrivial"] += rep["nontrivial"]
    V.report_mismatches(ctx, rep, "TLC case on real code")
    for i, c in enumerate(vlib.read_ndjson(cases)):
        if i in (7, n // 2, n - 1):
            ctx.sample(c)

    def corrupt_case(c):
        if c["kind"] == "tag" and c["res"]["ok"]:
            c["res"]["tag"][0] = (c["res"]["tag"][0] + 1) % 65536
            return True
        return False
    V.selftest_replay(ctx, "drv_tagtext", lambda p: ["replay", "--cases", p], cases, corrupt_case, "an expected tag with group+1")

    # B
    kwfile = ctx.path("keywords.ndjson")
    rows = V.dictionary_table(kwfile)
    rep2 = vlib.run_driver("drv_tagtext", ["record", "--n", 1500 if q else 30000, "--keywords", kwfile,
                                          "--out", ctx.path("rec")], env=ctx.env())
    if rep2["events"] == 0 or rep2["keywords"] != len(rows):
        raise vlib.ToolError("vacuity: no events / keywords recorded")
    V.validate(ctx, "Trace_TagText", rep2["trace"], ("tag", "show", "sel", "selparse"), fp_trace,
               "recorded seeded events", max_rejections=6)
    ctx.cov["evaluations"] += rep2["events"]
    ctx.cov["distinct_nontrivial"] += rep2["events"]
    ctx.cov["traces_validated_against_impl"] += rep2["events"]
    ctx.extra_cov["dictionary_keywords_checked"] = rep2["keywords"]
    ctx.extra_cov["random_strings_accepted_as_tags"] = rep2["accepted_tag_strings"]

    def corrupt(e):
        if e.get("ev") == "tag" and e.get("res") == "ok":
            e["tag"] = [e["tag"][0], (e["tag"][1] + 1) % 65536]
            return True
        return False
    V.selftest_corrupt(ctx, "Trace_TagText", rep2["trace"], corrupt, "a recorded tag with element+1")
    ctx.exhaustive = False


def replay(ctx, obj):
    """bin/check C14 --replay <file>: re-execute one recorded violation alone"""
    ctx.level = "model_checking"
    ctx.rule = "replay of one recorded violation"
    V.replay_file(ctx, "drv_tagtext", lambda c: ["replay", "--cases", c], "Trace_TagText", ("tag", "show", "sel", "selparse"), fp_trace)
