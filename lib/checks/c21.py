"""C21  Native pixel data frames are extracted exactly.

Specification: specs/pixel/NativePixel.tla (frame size by bits allocated; 1-bit samples
as a continuous LSB-first bit stream across frames; Whole, Frame(k), Slice, StoredFrame;
the property as predicate NativeOk).

1. Gen_NativePixel: TLC enumerates bits {1,8,16} x samples {1,3} x rows, cols x frames
   x two byte patterns x {exact, even-padded} stored values, checks the specification's
   own theorem (whole = concatenation of frames) on each and prints the expected decoded
   whole object, frames and stored frame bytes.  drv_native builds each image (Explicit
   and Implicit VR LE, byte and word values) and compares decode_pixel_data,
   decode_pixel_data_frame(k), DecodedPixelData::frame_data(k) and
   PixelDataObject::frame_pixel_data(k) with the expectation.
2. Binding B: seeded random geometries up to 17x17, 1-7 frames with random stored bytes;
   Trace_NativePixel evaluates NativeOk / StoredFrame on what the code returned.
"""
import json

import vlib
from checks import _pixel as P


def run(ctx):
    q = ctx.quick
    ctx.level = "model_checking"
    ctx.rule = ("TLC exhaustive over small geometries (bits 1/8/16, samples 1/3, rows/cols 1-%d, frames 1-%d, two byte "
                "patterns, exact and even-padded values); every case executed on the real decoder; seeded random "
                "geometries up to 17x17x7 judged by TLC (Trace_NativePixel). distinct_nontrivial = distinct "
                "(image, transfer syntax, value form) runs + distinct random shapes." % ((4, 3) if q else (6, 4)))
    ctx.assumptions += [
        "1-bit images only with one sample per pixel (PS3.3 allows Bits Allocated 1 for single-sample images only)",
        "the stored Pixel Data value holds exactly the image, plus at most the one byte that pads it to even length",
        "objects are built in memory; planar configuration 0; frame_pixel_data for 1-bit images is specified as the "
        "smallest byte range containing the frame's bits (as its documentation says)",
    ]
    vlib.build_harness(["drv_native"])

    cases = ctx.path("cases.ndjson")
    n = P.generate(ctx, "Gen_NativePixel", "Gen_NativePixel_quick.cfg" if q else "Gen_NativePixel_thorough.cfg", cases)
    rep = vlib.run_driver("drv_native", ["replay", "--cases", cases], env=ctx.env())
    ctx.cov["evaluations"] += rep["runs"]
    ctx.cov["distinct_nontrivial"] += rep["runs"]
    for m in rep["mismatches"]:
        c = m["case"]
        fp = "native %s wrong, %s%s" % (m["what"], m["shape"], " even-padded value" if m["padded"] else "")
        ctx.violation(fp, "bits=%s spp=%s rows=%s cols=%s frames=%s ts=%s: expected %s got %s (%d such mismatches)" % (
            c["bits"], c["spp"], c["rows"], c["cols"], c["frames"], m["ts"], json.dumps(m["expected"])[:200],
            json.dumps(m["got"])[:200], rep["mismatch_kinds"].get("%s/%s/pad=%s" % (m["what"], m["shape"], str(m["padded"]).lower()), 0)), m)
    P.sample_lines(ctx, cases, n)
    P.selftest_replay(ctx, "drv_native", lambda p: ["replay", "--cases", p], cases,
                      lambda c: c["whole"].__setitem__(0, (c["whole"][0] + 1) % 256) or True, "expected sample")

    trace = ctx.path("trace.ndjson")
    rep2 = vlib.run_driver("drv_native", ["record", "--n", 150 if q else 3000, "--out", trace], env=ctx.env())
    ctx.cov["evaluations"] += rep2["cases"]
    ctx.cov["distinct_nontrivial"] += rep2["distinct_shapes"]
    for rj in P.validate(ctx, "Trace_NativePixel", trace, timeout=3000):
        r = rj["record"]
        fp = "native decode wrong (random image), bits=%s%s" % (r.get("bits"), " even-padded value" if r.get("padded") else "")
        ctx.violation(fp, "trace event %d rejected: bits=%s spp=%s rows=%s cols=%s frames=%s" % (
            rj["line"], r.get("bits"), r.get("spp"), r.get("rows"), r.get("cols"), r.get("frames")), {"event": r})
    ctx.cov["traces_validated_against_impl"] += rep2["cases"]

    def corrupt(e):
        if e["per"] and e["per"][-1]["res"] == "ok" and e["per"][-1]["data"]:
            e["per"][-1]["data"][-1] = (e["per"][-1]["data"][-1] + 1) % 256
            return True
        return False
    P.selftest_trace(ctx, "Trace_NativePixel", trace, corrupt, what="decoded frame sample")
    ctx.exhaustive = False
