"""C11  Numeric value conversions are exact or fail.

Conv.tla: integers as sign + decimal digit sequences (exact 64-bit bounds), exact-or-error
conversion per stored variant x target type, textual integers after trimming spaces/NULs,
multi = one result per item in order, single = first item; floats as tokens (identity and
exactly representable integers are decided).  ValueList.tla: list model of extend_str /
extend_u16 / ... / extend_f64 / truncate from their documentation.
1. TLC model-checks the list model (MC_ValueList: every history up to the bound over a fixed
   operation alphabet, invariants OpLaws / ConvLaw / TypeOk).
2. (A) TLC enumerates the conversion case table (Gen_Conv: int / text / float families, with the
   specification's theorems as invariants) and every operation history (MC_ValueList with
   Record = TRUE); the driver executes each through PrimitiveValue, Value and DataElement.
3. (B) the driver records conversions of seeded random values (full 64-bit range, padded numeric
   strings, float bit patterns) and random extend/truncate sequences of length <= 30;
   Trace_Conv re-computes every result / steps the list model.
"""
import vlib
from checks import _values as V


def fp_trace(rec):
    ev = rec.get("ev")
    if ev == "conv":
        if rec.get("op") == "int":
            name = "to_multi_int" if rec.get("multi") else "to_int"
            target = rec.get("T")
        else:
            name = ("to_multi_float%s" if rec.get("multi") else "to_float%s") % rec.get("w")
            target = "f%s" % rec.get("w")
        if rec.get("panic"):
            return "%s panics (%s -> %s)" % (name, rec.get("shape"), target)
        return "recorded %s result differs from the specification (%s -> %s, %s)" % (
            name, rec.get("shape"), target, "ok" if rec["res"].get("ok") else "error")
    if ev == "vop":
        if rec.get("res") == "panic":
            return "%s panics on a %s value" % (rec.get("name"), rec.get("on"))
        return "recorded %s on a %s value differs from the list model" % (rec.get("name"), rec.get("on"))
    return "event " + str(ev)


def run(ctx):
    q = ctx.quick
    ctx.level = "model_checking"
    ctx.rule = ("TLC: list model checked over all operation histories of length <= %d (17 operations x 17 initial values); "
                "conversion case table (7 integer variants x boundaries of own and of every target type x 10 target types x "
                "single/multi, empty lists of every variant, padded/signed/zero-prefixed numeric strings at every target's "
                "boundaries, non-numeric strings, float sources x 2 widths) with spec theorems as invariants; every case and "
                "every history of length %d executed on the real code through PrimitiveValue/Value/DataElement; seeded random "
                "conversions and extend/truncate sequences (<= 30 ops) judged by TLC. distinct_nontrivial = cases with at "
                "least one stored item + histories + recorded events." % (3 if q else 4, 2 if q else 3))
    ctx.assumptions += [
        "usize/isize are 64 bit (platform of the harness)",
        "numeric strings are padded with spaces and NULs only; '-0' for unsigned targets is not decided (Conv!NegZeroText)",
        "float values are decided only where the conversion is the identity or the value is an integer the float type holds "
        "exactly; narrowing an arbitrary f64 to f32 is not decided; float-to-text and non-integral float-to-integer casts in "
        "extend_* are wildcards",
        "variants Str/Strs are compared as one class; truncate(0) leaves no items on every variant (incl. a single string)",
    ]
    vlib.build_harness(["drv_conv"])

    # 1. (A) case generation, four one-worker TLC processes side by side
    cases, n = V.generate(ctx, "Gen_Conv", ["Gen_Conv_int.cfg", "Gen_Conv_text.cfg", "Gen_Conv_float.cfg",
                                            ("MC_ValueList", "Gen_ValueList.cfg" if q else "Gen_ValueList_thorough.cfg")],
                          "cases.ndjson", timeout=3000)

    # 2. model checking of the list model
    r = vlib.tlc(V.SPEC, "MC_ValueList", "MC_ValueList.cfg" if q else "MC_ValueList_thorough.cfg", workers=4, timeout=3000)
    ctx.check_model(r, "ValueList laws")
    ctx.require_coverage(r, ["Step"])

    rep = vlib.run_driver("drv_conv", ["replay", "--cases", cases], env=ctx.env(), timeout=3000)
    if rep["cases"] != n:
        raise vlib.ToolError("driver executed %d of %d cases" % (rep["cases"], n))
    ops_seen = rep["op_stats"]
    missing = [o for o in ("xstr ok", "xstr refused", "xu16 ok", "xu16 refused", "xi16 ok", "xu32 ok", "xi32 ok", "xf32 ok",
                           "xf64 ok", "xf64 refused", "trunc ok") if not ops_seen.get(o)]
    if missing:
        raise vlib.ToolError("vacuity: operation outcomes never replayed: %s" % missing)
    ctx.cov["evaluations"] += rep["cases"]
    ctx.cov["distinct_nontrivial"] += rep["nontrivial"]
    ctx.extra_cov["history_steps_replayed"] = rep["steps_run"]
    V.report_mismatches(ctx, rep, "TLC case on real code")
    for i, c in enumerate(vlib.read_ndjson(cases)):
        if i in (3000, 7000, n - 1):
            ctx.sample(c)

    def corrupt_case(c):
        if c["kind"] == "int" and not c["multi"] and c["res"]["ok"] and c["res"]["n"]["d"] != [0]:
            c["res"]["n"]["d"][-1] = (c["res"]["n"]["d"][-1] + 1) % 10
            return True
        return False
    V.selftest_replay(ctx, "drv_conv", lambda p: ["replay", "--cases", p], cases, corrupt_case, "an expected to_int result with the last digit changed")

    def corrupt_hist(c):
        if c["kind"] == "hist" and c["steps"][0]["ok"] and len(c["steps"][0]["after"]["items"]) > 0:
            c["steps"][0]["after"]["items"] = c["steps"][0]["after"]["items"][:-1]
            return True
        return False
    V.selftest_replay(ctx, "drv_conv", lambda p: ["replay", "--cases", p], cases, corrupt_hist, "an expected value after extend with the last item dropped")

    # 3. B
    rep2 = vlib.run_driver("drv_conv", ["record", "--n", 4000 if q else 120000, "--out", ctx.path("rec")], env=ctx.env())
    if rep2["events"] == 0 or rep2["sequence_ops"] == 0:
        raise vlib.ToolError("vacuity: no events recorded")
    V.validate(ctx, "Trace_Conv", rep2["trace"], ("conv", "vinit"), fp_trace, "recorded seeded events",
               max_rejections=6, timeout=3000, heap="8g")
    ctx.cov["evaluations"] += rep2["events"]
    ctx.cov["distinct_nontrivial"] += rep2["events"]
    ctx.cov["traces_validated_against_impl"] += rep2["conv_events"] + rep2["sequences"]
    ctx.extra_cov["recorded_sequence_ops"] = rep2["sequence_ops"]

    def corrupt(e):
        if e.get("ev") == "conv" and e.get("op") == "int" and not e.get("multi") and e["res"].get("ok") and e["res"]["n"]["d"] != [0]:
            e["res"]["n"]["d"][-1] = (e["res"]["n"]["d"][-1] + 1) % 10
            return True
        return False
    V.selftest_corrupt(ctx, "Trace_Conv", rep2["trace"], corrupt, "a recorded to_int result with the last digit changed")
    # growth beyond C11 (thorough tier only, observation only): the other conversion families, equality and
    # encoded length, transcribed in Grow.tla; deviations become notes, never violations
    if not q:
        rep3 = vlib.run_driver("drv_conv", ["grow", "--n", 6000, "--out", ctx.path("grow")], env=ctx.env())
        V.observe(ctx, rep3["trace"], "text/tag/float-from-text conversions, equality, encoded length")
    ctx.exhaustive = False


def replay(ctx, obj):
    """bin/check C11 --replay <file>: re-execute one recorded violation alone"""
    ctx.level = "model_checking"
    ctx.rule = "replay of one recorded violation"
    V.replay_file(ctx, "drv_conv", lambda c: ["replay", "--cases", c], "Trace_Conv", ("conv", "vinit"), fp_trace)
