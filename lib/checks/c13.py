"""C13  Attribute operations follow their documented semantics.

1. TLC model-checks the reference model ObjectOps.tla (written from the documentation of
   dicom_core::ops) exhaustively up to a small number of operations; the step properties
   (failed operation => unchanged, other attributes untouched, non-constructive actions
   never create, constructive actions create at most the path and reach the leaf) are
   asserted on every transition.
2. Spec -> code: Gen_ObjectOps makes TLC print every transition of the reachable graph
   (each with one real history leading to it, the expected Ok/Err and the expected tree
   after every step, and the expected read-back tree per transfer syntax class), plus
   random histories of length 30 (`tlc -simulate`).  drv_ops replays them with
   ApplyOp::apply on a real InMemDicomObject, projects the object after every step and
   compares; the final object is written in IVRLE/EVRLE/EVRBE/Deflated and read back.
3. Code -> spec: drv_ops applies seeded random histories of length 30 over a wider alphabet
   (selectors of depth 3 into private/unknown tags, item indices 0..2) and records
   before/after projections; Trace_ObjectOps.tla judges every event with Apply / RT.
"""
import json
import os

import vlib
from checks import _objects as ob

ALL_ACTS = ["MNext"]


def fp_of_rejection(rec):
    """abstract fingerprint of a trace event TLC rejected (same wording as the driver)"""
    if not isinstance(rec, dict):
        return "unparsed rejection"
    r = rec.get("rec", {})
    if rec.get("ev") == "op":
        model = rec.get("model", {})
        if r.get("panic"):
            what = "panic"
        elif r.get("ok") != model.get("ok"):
            what = "returns %s, documented %s" % ("Ok" if r.get("ok") else "Err", "Ok" if model.get("ok") else "Err")
        elif not r.get("ok"):
            what = "object changed although the operation failed"
        else:
            what = "resulting object differs"
        return "%s [%s]: %s" % (rec.get("fam"), rec.get("sit"), what)
    if rec.get("ev") == "rt":
        res = r.get("res")
        kind = "read-back object differs" if res == "ok" else res
        return "write/read %s: %s [%s]" % (r.get("tsname"), kind, rec.get("shape"))
    return "event %s" % rec.get("ev")


def report_replay(ctx, rep, label):
    strict = [m for m in rep["mismatches"] if m["level"] == "strict"]
    aux = [m for m in rep["mismatches"] if m["level"] != "strict"]
    for m in strict:
        ctx.violation(m["fingerprint"], "%s: %s; history %s" % (label, m["detail"], json.dumps(m.get("history"))[:300]), m)
    if aux:
        kinds = sorted(set(m["fingerprint"] for m in aux))
        ctx.note("drift (%s): %d step(s) where only value kind / VR of a sequence element differ from the model "
                 "(undocumented detail, not a violation); kinds: %s" % (label, rep.get("aux_mismatches", len(aux)), "; ".join(kinds)[:600]))
    ctx.cov["evaluations"] += rep["steps"] + rep["roundtrips"]
    return len(strict)


def _t(ctx, what):
    import time
    vlib.log("[%s] %s done at +%.0fs" % (ctx.pid, what, time.time() - ctx.t0))


def run(ctx):
    q = ctx.quick
    ctx.level = "model_checking"
    ctx.rule = ("TLC explores the reference model exhaustively to the stated depth and prints every transition of the "
                "reachable graph with a real history; each is replayed on InMemDicomObject and compared step by step; "
                "length-30 histories by tlc -simulate (replayed) and by seeded sampling in the driver (judged by TLC). "
                "distinct_nontrivial = distinct (projected object, operation) pairs executed on the real code.")
    ctx.assumptions += [
        "universe: T=(0008,0008) CS, N=(0028,0010) US, S=(0008,1140) SQ, V=(0009,1001) private, U=(7778,0010) unknown; "
        "text values {A,B,AB}, numbers {1,2} (no casts that lose precision, no floats with fractions)",
        "write/read-back is demanded only for objects whose values the VR can carry (ObjectRT!Writable); "
        "Implicit VR additionally requires the element VR to be the dictionary VR",
        "value kind (Str vs Strs vs Empty of zero-length values) and the VR recorded on sequence elements are compared at drift level only",
        "default writer options (sequence lengths undefined); recorded lengths with ExplicitLengthSqItemStrategy::NoChange are not exercised",
    ]
    vlib.build_harness(["drv_ops"])
    suf = "quick" if q else "thorough"

    # 1. model checking of the reference model
    for cfg in (["MC_ObjectOps_quick.cfg"] if q else ["MC_ObjectOps_quick.cfg", "MC_ObjectOps_thorough.cfg"]):
        r = vlib.tlc(ob.SPEC, "MC_ObjectOps", cfg, workers=4, timeout=3000, heap="8g")
        ctx.check_model(r, cfg)
        ctx.require_coverage(r, ALL_ACTS)

    _t(ctx, "model checking")
    # 2. spec -> code
    cases = ctx.path("cases.ndjson")
    gr, n = ob.generate("Gen_ObjectOps", "Gen_ObjectOps_%s.cfg" % suf, cases, timeout=3000, heap="8g")
    ctx.add_tlc(gr)
    vlib.log("[C13] %d transitions (with histories) generated by TLC" % n)
    rep = vlib.run_driver("drv_ops", ["replay", "--cases", cases], env=ctx.env(), timeout=3000)
    report_replay(ctx, rep, "replay of TLC transitions")
    ctx.cov["distinct_nontrivial"] += rep["distinct_transitions"]
    for s in ob.sample_lines(cases, (0, n // 2, n - 1)):
        ctx.sample(s)

    _t(ctx, "transition replay")
    sim = ctx.path("sim.ndjson")
    gr, k = ob.generate("Gen_ObjectOps", "Gen_ObjectOps_sim.cfg", sim, simulate=(150 if q else 3000), depth=31,
                        seed=ctx.seed % 100000, timeout=3000)
    vlib.log("[C13] %d histories of length 30 generated by tlc -simulate" % k)
    rep2 = vlib.run_driver("drv_ops", ["replay", "--cases", sim], env=ctx.env(), timeout=3000)
    report_replay(ctx, rep2, "replay of tlc -simulate histories")
    ctx.cov["distinct_nontrivial"] += rep2["distinct_transitions"]
    ctx.extra_cov["max_history_replayed"] = rep2["max_history"]
    ctx.extra_cov["histories_simulated"] = k

    _t(ctx, "simulated histories")
    # 3. code -> spec
    tr = ctx.path("random.ndjson")
    rep3 = vlib.run_driver("drv_ops", ["random", "--n", 80 if q else 2000, "--len", 30, "--out", tr], env=ctx.env())
    out = vlib.validate_trace_cases(ob.SPEC, "Trace_ObjectOps", tr, cfg="Trace_ObjectOps.cfg", reset_events=("reset",),
                                    max_rejections=12, timeout=3000, heap="8g")
    for r in out["results"]:
        ctx.add_tlc(r)
    for rj in out["rejections"]:
        fp = fp_of_rejection(rj["record"])
        ctx.violation(fp, "seeded random history: event rejected by Trace_ObjectOps at line %d: %s" % (
            rj["line"], json.dumps(rj["record"])[:500]), {"rejected": rj["record"], "case_events": rj["case_events"]})
    if out["truncated"]:
        ctx.note("trace validation stopped after %d rejected histories; the rest of the trace was not judged" % len(out["rejections"]))
    ctx.cov["traces_validated_against_impl"] += rep3["cases"]
    ctx.cov["evaluations"] += rep3["ops"] + rep3["roundtrips"]
    ctx.extra_cov["trace_events_validated"] = rep3["events"]
    ctx.extra_cov["error_steps_seen"] = rep["err_steps"] + rep2["err_steps"] + rep3["err_steps"]
    # vacuity: both outcomes, nested selectors and read-backs must have been exercised
    if rep["err_steps"] == 0 or rep["err_steps"] == rep["steps"] or rep["roundtrips"] == 0 or rep3["max_sel_depth"] < 3:
        raise vlib.ToolError("vacuity: replay exercised err=%d of %d steps, %d read-backs" % (rep["err_steps"], rep["steps"], rep["roundtrips"]))
    ctx.exhaustive = False

    _t(ctx, "trace validation")
    # 4. binding self-tests: a deliberately wrong projection must be reported by the replay
    # comparison, and a corrupted recorded tree must be rejected by the trace validator
    st = vlib.run_driver("drv_ops", ["replay", "--cases", sim, "--selftest", "true"], env=ctx.env(), timeout=3000)
    if not any(m["level"] == "strict" for m in st["mismatches"]):
        raise vlib.ToolError("binding self-test failed: a wrong projection was not reported")
    tr3 = ctx.path("corrupt.ndjson")
    vlib.run_driver("drv_ops", ["random", "--n", 2, "--len", 30, "--out", tr3, "--corrupt", "true"], env=ctx.env())
    res = vlib.validate_trace(ob.SPEC, "Trace_ObjectOps", tr3, cfg="Trace_ObjectOps.cfg")
    if res["accepted"]:
        raise vlib.ToolError("binding self-test failed: a corrupted recorded object was accepted by Trace_ObjectOps")
    ctx.extra_cov["binding_selftests"] = "wrong projection reported by replay; corrupted trace rejected at line %s" % res["line"]
