"""C30  Association release and abort follow the upper-layer protocol.

1. TLC model-checks AssocImpl.tla (two peers, two FIFO channels, close/drop with TCP
   reset semantics; one action per code point of release(), abort(), send, drop and of an
   SCP application loop) for the invariants / action properties of the property statement,
   for liveness under fairness, and for refinement of PS38StateMachine.tla (PS3.8 Table
   9-10 restricted to Sta6..Sta13); deviations the implementation makes knowingly are
   named actions and the only steps outside the PS3.8 protocol proper.
2. TLC generates every behaviour of the small model projected to a schedule of API calls
   (Gen_AssocImpl); drv_release drives a real ClientAssociation against a real
   ServerAssociation through a recording TCP proxy with those schedules plus seeded random
   ones, and the real storescp binary (sync and --non-blocking) against a scripted
   requestor.
3. The recorded PDU exchanges and final API outcomes are validated by TLC as behaviours of
   AssocImpl (Trace_AssocImpl; unlogged socket reads are silent steps).
"""
import json
import os

import vlib
from checks._assoc import SPEC

ACTIONS = ["SendData", "ReleaseCall", "ReleaseSendFail", "ReleaseRecvRP", "ReleaseRecvAbort",
           "PDataWhileAwaitRPIsError", "ReleaseCollisionIsError", "ReleaseEof", "AbortSend", "AbortClose",
           "DropAny", "AppRecvData", "AppRecvRQ", "AppReplyRP", "AppCloseAfterRP", "AppRecvAbort", "AppEof"]


def fingerprint(rj):
    """abstract key of a rejected trace: who, which event, in which situation"""
    rec = rj["record"] if isinstance(rj["record"], dict) else {}
    evs = rj["case_events"]
    acceptor = evs[0].get("acceptor", "library acceptor") if evs else "?"
    before = [e for e in evs[1:rj["line_in_case"]] if e.get("ev") in ("pdu", "closed")]
    last = before[-1] if before else {}
    ctx = "%s:%s" % (last.get("from", last.get("by", "-")), last.get("kind", last.get("ev", "start")))
    ev = rec.get("ev")
    if ev == "end":
        return "%s: %s ends as %s, not reachable in the model (last wire event %s)" % (acceptor, rec.get("peer"), rec.get("state"), ctx)
    if ev == "pdu":
        return "%s: %s puts %s on the wire where the model allows none (after %s)" % (acceptor, rec.get("from"), rec.get("kind"), ctx)
    if ev == "stuck":
        return "%s: %s never closes its connection (after %s)" % (acceptor, rec.get("by"), ctx)
    if ev == "closed":
        return "%s: %s closes the connection in a state where the model cannot (after %s)" % (acceptor, rec.get("by"), ctx)
    return "%s: event %s" % (acceptor, ev)


def validate(ctx, path, label):
    out = vlib.validate_trace_cases(SPEC, "Trace_AssocImpl", path, cfg="Trace_AssocImpl.cfg", timeout=1800, heap="6g")
    for r in out["results"]:
        ctx.add_tlc(r)
    for rj in out["rejections"]:
        ctx.violation(fingerprint(rj), "%s: trace rejected at line %d: %s" % (label, rj["line"], json.dumps(rj["record"])[:300]),
                      {"rejected_event": rj["record"], "case_events": rj["case_events"]})
    return len(out["rejections"])


def run(ctx):
    q = ctx.quick
    ctx.level = "model_checking"
    ctx.rule = ("TLC exhaustive over every interleaving of {send data, release, abort, drop, receive-loop turn} of both peers "
                "after establishment (<= 2 data PDUs per side) with invariants, action properties, liveness and refinement of "
                "the PS3.8 state machine; every model behaviour projected to an API-call schedule is executed by real "
                "requestor and acceptor through a recording proxy, plus seeded random schedules and the real storescp binary; "
                "wire traces validated as behaviours of the model. distinct_nontrivial = distinct wire interleavings observed.")
    ctx.assumptions += [
        "applications use send() only for P-DATA (send(&Pdu) of arbitrary PDU kinds is application misuse, not modelled)",
        "a peer's write is linearised where the proxy logs it (before forwarding); a peer's close where the proxy reads its "
        "end of stream; unlogged socket reads are silent steps chosen by TLC",
        "closing a socket may discard data in flight in both directions (TCP reset), so lost PDUs never cause a rejection",
        "the library acceptor's application loop in the driver mirrors storescp's (reply A-RELEASE-RP and stop, stop on "
        "A-ABORT / error); the real storescp loop is exercised through the binary",
        "the library peers are driven through the sync API and, with the same schedules, through the async API",
        "in the sync library runs every second releasing requestor releases through the public `&mut` route (deprecated "
        "client::Release trait, association value kept alive) and then tries a send(PData) on the released association; "
        "P-DATA from a peer after its own completed release has no action in the model",
        "against storescp some requestors are scripts that take the A-RELEASE-RP, keep the socket open and send a C-ECHO-RQ "
        "or a complete C-STORE (named misuse actions of AssocImpl, requestor side only); the acceptor has no action that "
        "writes P-DATA after its own A-RELEASE-RP, so any response is rejected",
        "a receive that returns only because of the driver's hang-guard read timeout is followed by dropping the "
        "association (DropAny in the model)",
    ]
    vlib.build_harness(["drv_release"])

    # 1. model checking (invariants, action properties, liveness, refinement of PS3.8)
    r = vlib.tlc(SPEC, "AssocImpl", "MC_AssocImpl.cfg" if q else "MC_AssocImpl_thorough.cfg", workers=4, timeout=1500)
    ctx.check_model(r, "AssocImpl (properties + refinement of PS38StateMachine)")
    ctx.require_coverage(r, ACTIONS)
    ctx.extra_cov["model_states"] = r.distinct

    # 2. schedules from the model -> real peers
    sched = ctx.path("schedules.ndjson")
    gr, n = vlib.tlc_generate(SPEC, "Gen_AssocImpl", "Gen_AssocImpl_quick.cfg" if q else "Gen_AssocImpl_thorough.cfg", sched,
                              timeout=1500)
    ctx.add_tlc(gr)
    if n < 100:
        raise vlib.ToolError("only %d schedules generated" % n)
    sched_async = sched
    if not q:
        # the async API gets the smaller schedule set (same code paths, a second API surface)
        sched_async = ctx.path("schedules_async.ndjson")
        gr2, _ = vlib.tlc_generate(SPEC, "Gen_AssocImpl", "Gen_AssocImpl_quick.cfg", sched_async, timeout=1500)
        ctx.add_tlc(gr2)
    lib_trace = ctx.path("lib.ndjson")
    cases = 0
    events = 0
    with open(lib_trace, "w") as allf:
        for api in ("sync", "async"):
            t = ctx.path("lib_%s.ndjson" % api)
            args = ["lib", "--schedules", sched if api == "sync" else sched_async, "--random", (1000 if q else 8000) if api == "sync" else (300 if q else 2000),
                    "--jobs", 8, "--out", t]
            if api == "async":
                args.append("--async")
            if os.environ.get("VERIF_SELFTEST"):
                args.append("--selftest")
            rep = vlib.run_driver("drv_release", args, env=ctx.env(), timeout=1700)
            if rep["setup_failures"]:
                raise vlib.ToolError("association setup failed in %d cases: %s" % (len(rep["setup_failures"]), rep["setup_failures"][:2]))
            ctx.cov["evaluations"] += rep["cases"]
            ctx.cov["distinct_nontrivial"] += rep["distinct_wire_interleavings"]
            ctx.extra_cov["wire_interleavings_%s_api" % api] = rep["distinct_wire_interleavings"]
            if api == "sync":
                if rep["release_by_mut_route"] == 0:
                    raise vlib.ToolError("vacuity: no schedule released through the &mut route")
                ctx.extra_cov["releases_through_mut_route_with_late_send"] = rep["release_by_mut_route"]
            cases += rep["cases"]
            events += rep["events"]
            allf.write(open(t).read())
    bad = validate(ctx, lib_trace, "library requestor vs library acceptor")
    ctx.cov["traces_validated_against_impl"] += cases - bad
    with open(lib_trace) as f:
        cur = []
        for ln in f:
            e = json.loads(ln)
            if e["ev"] == "reset" and cur:
                if len(cur) > 6:
                    ctx.sample(cur)
                    break
                cur = []
            cur.append(e)

    # 3. the real storescp binary (application loop of the anchor) against a scripted requestor
    scp = vlib.build_tool("storescp")
    traces = []
    answered = 0
    late = 0
    for nb in (False, True):
        t = ctx.path("scp_nb.ndjson" if nb else "scp.ndjson")
        a = ["scp", "--bin", scp, "--n", 40 if q else 400, "--out", t]
        if nb:
            a.append("--non-blocking")
        rp = vlib.run_driver("drv_release", a, env=ctx.env(), timeout=900)
        if rp.get("fatal") or rp["setup_failures"]:
            raise vlib.ToolError("storescp run failed: %s %s" % (rp.get("fatal"), rp["setup_failures"][:2]))
        ctx.cov["evaluations"] += rp["cases"]
        events += rp["events"]
        answered += rp["release_answered"]
        late += rp["late_data_cases"]
        traces.append((t, rp["cases"]))
    allscp = ctx.path("scp_all.ndjson")
    with open(allscp, "w") as f:
        for t, _ in traces:
            f.write(open(t).read())
    bad = validate(ctx, allscp, "storescp binary vs scripted requestor")
    ctx.cov["traces_validated_against_impl"] += sum(k for _, k in traces) - bad
    if answered == 0:
        raise vlib.ToolError("vacuity: storescp never answered a release request in the recorded traces")
    if late == 0:
        raise vlib.ToolError("vacuity: no scripted requestor kept its connection open after the release reply")
    ctx.extra_cov["storescp_data_after_release_cases"] = late
    ctx.extra_cov["trace_events_validated"] = events
    ctx.extra_cov["storescp_release_replies_seen"] = answered
    ctx.exhaustive = False
    if not q:
        life_cycle(ctx, sched_async, scp)


LIFE_ACTIONS = ["RqStart", "TcpConnect", "RqSendRQ", "RqRecvAC", "RqRecvAC0", "RqAbortAfterAC0", "RejectAnsweredWithAbort",
                "RqUnexpectedAnswered", "RqEstEof", "RqGiveUp", "AcRecvRQ", "AcReplyAC", "AcReplyRJ", "AcCloseAfterRJ",
                "EarlyReleaseAnsweredWithRP", "AcUnexpectedAnswered", "AcEstEof", "AcGiveUp", "AbortAnsweredWithAbort"]


def life_cycle(ctx, sched, scp):
    """Specification growth beyond the listed properties (thorough tier only): the whole association life cycle
    (TCP connect .. close).  AssocLife.tla = AssocImpl + the establishment phase of requestor and acceptor, checked by TLC
    to refine PS38StateMachine extended with Sta1-Sta5; whole-life-cycle wire traces of library peers, scripted peers,
    storescp and the tools echoscu / storescu / findscu are validated with Trace_AssocLife.  Whatever this part
    reveals lies outside the statements of C28-C30 and is reported as notes / extra coverage, never as a violation
    (the C30 clauses themselves are decided above on the same kind of runs)."""
    covered = {}
    states = {}
    for cfg in ("MC_AssocLife.cfg", "MC_AssocLife_rawrq.cfg", "MC_AssocLife_rawac.cfg"):
        r = vlib.tlc(SPEC, "AssocLife", cfg, workers=4, timeout=1500)
        ctx.check_model(r, "AssocLife %s (life-cycle properties + refinement of PS3.8 Sta1..Sta13)" % cfg)
        states[cfg] = r.distinct
        for a in LIFE_ACTIONS:
            covered[a] = covered.get(a, 0) + r.coverage.get(a, 0)
    missing = [a for a, n in covered.items() if n == 0]
    if missing:
        raise vlib.ToolError("vacuity: establishment actions never taken in any AssocLife configuration: %s" % missing)
    ctx.extra_cov["life_cycle_model_states"] = states

    traces = []       # (label, path, cases)
    patterns = {}
    # library peers and storescp, this time from the TCP connect on
    for api in ("sync", "async"):
        t = ctx.path("life_lib_%s.ndjson" % api)
        a = ["lib", "--life", "--schedules", sched, "--random", 600 if api == "sync" else 200, "--jobs", 8, "--out", t]
        if api == "async":
            a.append("--async")
        rp = vlib.run_driver("drv_release", a, env=ctx.env(), timeout=1500)
        traces.append(("library peers (%s API)" % api, t, rp["cases"]))
    for nb in (False, True):
        t = ctx.path("life_scp_nb.ndjson" if nb else "life_scp.ndjson")
        a = ["scp", "--life", "--bin", scp, "--n", 60, "--out", t]
        if nb:
            a.append("--non-blocking")
        rp = vlib.run_driver("drv_release", a, env=ctx.env(), timeout=900)
        traces.append(("storescp%s" % (" --non-blocking" if nb else ""), t, rp["cases"]))
    # establishment variants: rejection, nothing accepted, scripted peers with the wrong PDU / early close
    t = ctx.path("life_est.ndjson")
    rp = vlib.run_driver("drv_release", ["est", "--n", 2, "--out", t], env=ctx.env(), timeout=1500)
    traces.append(("establishment variants", t, rp["cases"]))
    patterns.update({"establishment: " + k: v for k, v in rp["wire_patterns"].items()})
    # the tools as requestors against a scripted acceptor
    tools = {name: vlib.build_tool(name) for name in ("echoscu", "storescu", "findscu")}
    t = ctx.path("life_tools.ndjson")
    a = ["tools", "--n", 3, "--out", t]
    for name, path in tools.items():
        a += ["--" + name, path]
    rp = vlib.run_driver("drv_release", a, env=ctx.env(), timeout=1500)
    if rp.get("fatal"):
        raise vlib.ToolError("tools run failed: %s" % rp["fatal"])
    traces.append(("echoscu / storescu / findscu vs scripted acceptor", t, rp["cases"]))
    tool_patterns = rp["tool_wire_patterns"]
    if rp["hung"]:
        ctx.note("life cycle: tools that had to be killed by the 30 s hang guard: %s" % rp["hung"])

    allp = ctx.path("life_all.ndjson")
    total = 0
    with open(allp, "w") as f:
        for _, path, n in traces:
            f.write(open(path).read())
            total += n
    out = vlib.validate_trace_cases(SPEC, "Trace_AssocLife", allp, cfg="Trace_AssocLife.cfg", timeout=2400, heap="6g")
    for r in out["results"]:
        ctx.add_tlc(r)
    rejected = []
    for rj in out["rejections"]:
        head = rj["case_events"][0] if rj["case_events"] else {}
        rejected.append({"case": {k: head.get(k) for k in ("scripted", "variant", "tool", "acceptor", "sched", "api") if k in head},
                         "rejected_event": rj["record"], "events": rj["case_events"][:40]})
        ctx.note("life cycle (outside C28-C30): whole-life-cycle trace not a behaviour of AssocLife at %s; case %s"
                 % (json.dumps(rj["record"])[:200], json.dumps(rejected[-1]["case"])[:200]))
    ctx.cov["evaluations"] += total
    ctx.extra_cov["life_cycle_traces_validated"] = total - len(rejected)
    ctx.extra_cov["life_cycle_traces_rejected"] = rejected
    ctx.extra_cov["life_cycle_trace_sources"] = {label: n for label, _, n in traces}
    ctx.extra_cov["life_cycle_tool_wire_patterns"] = tool_patterns
    ctx.extra_cov["life_cycle_establishment_wire_patterns"] = patterns

    # observations (descriptive only): where dicom-rs takes a named deviation from PS3.8 during establishment
    def count(pred, pats):
        return sum(v for k, v in pats.items() if pred(k))
    lib = lambda k: [x for x in k.split(": ", 1)[1].split(",") if x]
    n_rj_abort = count(lambda k: "AssocRJ,Abort" in k.replace("script:AssocRJ", "AssocRJ") and "script:Abort" not in k, patterns)
    n_abort_abort = count(lambda k: "script:Abort,Abort" in k or k.endswith("script:Abort,AssocRQ,Abort"), patterns)
    n_early_rp = count(lambda k: "script:ReleaseRQ,ReleaseRP" in k, patterns)
    if n_rj_abort:
        ctx.note("life cycle observation: after an A-ASSOCIATE-RJ the requestor still writes an A-ABORT before closing "
                 "(PS3.8 AE-4: just close); named deviation RejectAnsweredWithAbort; seen in %d establishment traces; tools "
                 "doing the same when rejected: %s" % (n_rj_abort, sorted({k.split(" ")[0] for k in tool_patterns
                                                                          if " vs Reject " in k and k.endswith(",Abort")})))
    if n_abort_abort:
        ctx.note("life cycle observation: an A-ABORT received while establishing is answered with an A-ABORT by requestor "
                 "and acceptor (PS3.8 AA-2/AA-3: close without sending); named deviation AbortAnsweredWithAbort; %d traces"
                 % n_abort_abort)
    if n_early_rp:
        ctx.note("life cycle observation: an A-RELEASE-RQ as the first PDU of a connection is answered by the acceptor with "
                 "A-RELEASE-RP (PS3.8 AA-1: A-ABORT); named deviation EarlyReleaseAnsweredWithRP; %d traces" % n_early_rp)
    abort_after_abort = [k for k in tool_patterns if "AbortMid" in k and k.endswith(",Abort")]
    if abort_after_abort:
        ctx.note("life cycle observation: tools that answer the acceptor's A-ABORT with their own A-ABORT before closing: %s"
                 % sorted({k.split(" ")[0] for k in abort_after_abort}))
    silent_ok = [k for k in tool_patterns if ("InsteadOfRp" in k) and "(exit 0)" in k]
    if silent_ok:
        ctx.note("life cycle observation: tools that exit 0 although their A-RELEASE-RQ was answered by an A-ABORT or by "
                 "closing the connection (release result ignored): %s" % sorted({k.split(" ")[0] for k in silent_ok}))

